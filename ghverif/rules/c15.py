"""C15 - the equivalent single U-tube preserves the exchanger's bulk properties (algebraic part).

Not decided: that the two root solves reach their targets (0.1 %) - numerical, and solve_root clamps
silently when the target is not bracketed.  Decided:
  R15.1  volumes: with n = 2 tubes of the equivalent U-tube,  n pi r_i'^2 = fluid volume  and
         n pi (r_o'^2 - r_i'^2) = pipe-wall volume (per metre);  u_tube_volumes gives n_tubes pi r_in^2 and
         n_tubes pi (r_out^2 - r_in^2) with n_tubes = 2 * nPipes;  concentric_tube_volumes gives the inner
         pipe bore plus the annulus, and the two pipe walls
  R15.2  a single U-tube converts to itself
  R15.3  targets and carried-over properties: the conductivity solve drives
         R_fp(equivalent) - (R_conv + R_pipe) of the original,  the grout solve drives
         Rb*(original) - Rb*(equivalent) and leaves the solved grout conductivity in the tube it returns;
         the equivalent tube is built with the original's mass flow, fluid, soil, pipe roughness and pipe
         rhoCp, its own deep-copied borehole and grout; both multi-pipe classes run
         volumes -> equivalent_single_u_tube -> match_effective_borehole_resistance and return that tube
"""
from __future__ import annotations

import ast

from .. import sym
from ..model import AnalysisError, Program, attr_chain, bind_args, norm_stmt
from ..paths import Const, Engine, Hooks, Opaque, Seq, State, vkey
from ..report import Result
from ..selftest import Variant
from ..sym import Rat

PROP = "C15"
TITLE = "Equivalent single U-tube: volumes, identity for single U-tubes, solve targets, carried-over properties"
EXPLANATION = (
    "Normal forms (with sqrt(x)^2 = x) of the equivalent radii against the volumes they must preserve, of the two volume "
    "helpers against the geometric volumes of their shapes, of the two objective closures against their targets; "
    "argument flow into Pipe(...) / SingleUTube(...) and through the to_single methods."
)
ASSUMPTIONS = ["solve_root finds the root when it is bracketed (numerical, not decided)"]

BH = "ghedesigner.borehole_heat_exchangers"
PI = Rat.atom("pi")


def _straight(prog: Program, q: str, hooks=None, env=None):
    fi = prog.func(q)
    eng = Engine(prog, fi, hooks or Hooks())
    st = State()
    for p in fi.params():
        st.env[p] = Rat.atom(p)
    if env:
        st.env.update(env)
    fin = eng.run_function(st)
    return fi, eng, fin


def check(prog: Program, tier: str) -> Result:
    res = Result(PROP)
    # ---------------- R15.1 equivalent radii
    q = f"{BH}.GHEDesignerBoreholeWithMultiplePipes.equivalent_single_u_tube"

    class H(Hooks):
        def on_call(self, node, fname, args, kwargs, st, eng):
            if fname == "deepcopy" and len(args) == 1:
                return sym._plain_call("COPY", [args[0]]) if isinstance(args[0], Rat) else Opaque("copy")
            if fname == "Pipe.place_pipes":
                return Rat.atom("POS")
            if fname == "Pipe":
                pf = prog.func("ghedesigner.media.Pipe.__init__")
                st.emit("PIPE", {k: eng.eval(v, st) for k, v in bind_args(pf, node).items()}, node)
                return Rat.atom("NEW_PIPE")
            if fname == "SingleUTube":
                sf = prog.func(f"{BH}.SingleUTube.__init__")
                st.emit("TUBE", {k: eng.eval(v, st) for k, v in bind_args(sf, node).items()}, node)
                return Rat.atom("EQ")
            if fname == "solve_root":
                st.emit("SOLVE", (args, kwargs, node), node)
                return Rat.atom("ROOT")
            return None

    fi, eng, fin = _straight(prog, q, H())
    res.analysed(q)
    fin = [f for f in fin if f.exit and f.exit[0] == "return"]
    if not fin:
        raise AnalysisError(f"{q}: no returning path")
    vf, vp = Rat.atom("vol_fluid"), Rat.atom("vol_pipe")
    for f in fin[:1]:
        pipes = [e for e in f.events if e.kind == "PIPE"]
        tubes = [e for e in f.events if e.kind == "TUBE"]
        if len(pipes) != 1 or len(tubes) != 1:
            raise AnalysisError(f"{q}: construction of the equivalent pipe / tube not found")
        pa, ta = pipes[0].data, tubes[0].data
        ri, ro = pa.get("r_in"), pa.get("r_out")
        n = (vf / (PI * ri ** 2)) if isinstance(ri, Rat) and not ri.is_zero() else None  # number of tubes the fluid volume is spread over
        okn = isinstance(n, Rat) and n.equals(Rat.const(2))
        res.ob("R15.1", f"the equivalent exchanger has n = 2 tubes (one U) (got {vkey(n)})", okn, prog.loc(fi, fi.node))
        if not okn:
            res.violation("R15.1", f"n|{vkey(n)}", prog.loc(fi, fi.node), q, f"the equivalent single U-tube is computed for n = {vkey(n)} tubes instead of 2")
        ok = isinstance(ri, Rat) and (Rat.const(2) * PI * ri ** 2).equals(vf)
        res.ob("R15.1", "fluid volume preserved: 2 pi r_i'^2 = vol_fluid", ok, prog.loc(fi, pipes[0].node))
        if not ok:
            res.violation("R15.1", f"fluid-volume|{vkey(ri)[:60]}", prog.loc(fi, pipes[0].node), q, f"the equivalent inner radius {vkey(ri)[:100]} does not give the two tubes the original fluid volume")
        ok = isinstance(ri, Rat) and isinstance(ro, Rat) and (Rat.const(2) * PI * (ro ** 2 - ri ** 2)).equals(vp)
        res.ob("R15.1", "pipe-wall volume preserved: 2 pi (r_o'^2 - r_i'^2) = vol_pipe", ok, prog.loc(fi, pipes[0].node))
        if not ok:
            res.violation("R15.1", f"pipe-volume|{vkey(ro)[:60]}", prog.loc(fi, pipes[0].node), q, f"the equivalent outer radius {vkey(ro)[:100]} does not preserve the pipe-wall volume")
        # carried-over properties
        ok = vkey(pa.get("roughness")) == "self.pipe.roughness" and vkey(pa.get("rho_cp")) == "self.pipe.rhoCp"
        res.ob("R15.3", "the equivalent pipe keeps the original roughness and rhoCp", ok, prog.loc(fi, pipes[0].node))
        if not ok:
            res.violation("R15.3", f"pipe-props|{vkey(pa.get('roughness'))}|{vkey(pa.get('rho_cp'))}", prog.loc(fi, pipes[0].node), q, f"the equivalent pipe is given roughness {vkey(pa.get('roughness'))} and rhoCp {vkey(pa.get('rho_cp'))}")
        want_t = {"m_flow_borehole": "self.m_flow_borehole", "fluid": "self.fluid", "soil": "self.soil", "pipe": "NEW_PIPE"}
        got_t = {k: vkey(ta.get(k)) for k in want_t}
        ok = got_t == want_t
        res.ob("R15.3", "the equivalent tube keeps the mass flow, fluid and soil of the original and uses the new pipe", ok, prog.loc(fi, tubes[0].node))
        if not ok:
            res.violation("R15.3", f"tube-args|{sorted(got_t.items())}", prog.loc(fi, tubes[0].node), q, f"the equivalent SingleUTube is built with {got_t}; expected {want_t}")
        ok = vkey(ta.get("grout")) == "COPY(self.grout)" and "COPY(self.b)" in vkey(ta.get("_borehole"))
        res.ob("R15.3", "grout and borehole of the equivalent tube are deep copies (the original is not altered by the solves)", ok, prog.loc(fi, tubes[0].node))
        if not ok:
            res.violation("R15.3", f"copies|{vkey(ta.get('grout'))}|{vkey(ta.get('_borehole'))[:40]}", prog.loc(fi, tubes[0].node), q,
                          f"the equivalent tube shares grout / borehole with the original ({vkey(ta.get('grout'))}, {vkey(ta.get('_borehole'))[:40]}): the grout solve would change the original exchanger")
        ok = isinstance(f.exit[1], Rat) and f.exit[1] == Rat.atom("EQ")
        res.ob("R15.3", "equivalent_single_u_tube returns the tube it built and tuned", ok, prog.loc(fi, f.exit[2]))
        if not ok:
            res.violation("R15.3", "return-eq", prog.loc(fi, f.exit[2]), q, "equivalent_single_u_tube does not return the equivalent tube")
        solves = [e for e in f.events if e.kind == "SOLVE"]
        obj_name = ast.unparse(solves[0].data[2].args[1]) if len(solves) == 1 and len(solves[0].data[2].args) >= 2 else None
        ok = obj_name is not None and f"{q}.<locals>.{obj_name}" in prog.funcs
        res.ob("R15.3", f"the pipe conductivity is solved with a local objective ({obj_name})", ok, prog.loc(fi, solves[0].node) if solves else prog.loc(fi, fi.node))
        if not ok:
            res.violation("R15.3", "no-conductivity-solve", prog.loc(fi, fi.node), q, "the pipe conductivity of the equivalent tube is no longer solved for")
    # objective closures
    oq = f"{q}.<locals>.{obj_name}"
    ofi = prog.funcs.get(oq)
    if ofi is None:
        raise AnalysisError(f"{oq} not found")
    # the closure's view of the equivalent tube: the local of the outer function bound to SingleUTube(...)
    TUBE = next((s_.targets[0].id for s_ in ast.walk(fi.node) if isinstance(s_, ast.Assign) and len(s_.targets) == 1 and isinstance(s_.targets[0], ast.Name)
                 and isinstance(s_.value, ast.Call) and attr_chain(s_.value.func) == "SingleUTube"), None)
    if TUBE is None:
        raise AnalysisError(f"{q}: the local holding the equivalent SingleUTube was not found")

    class HO(Hooks):
        def on_call(self, node, fname, args, kwargs, st, eng):
            if fname and fname.endswith("calc_fluid_pipe_resistance"):
                st.emit("RECALC", fname, node)
                return Rat.atom("R_FP_NEW")
            if fname and fname.endswith("calc_effective_borehole_resistance"):
                return Rat.atom("RB:" + fname.rsplit(".", 1)[0])
            return None

        def on_assign(self, key, val, stmt, st, eng):
            st.emit("SET", (key, val), stmt)

    eng = Engine(prog, ofi, HO())
    st = State()
    for p in ofi.params():
        st.env[p] = Rat.atom(p)
    for nm in ("resist_conv", "resist_pipe"):
        st.env[nm] = Rat.atom(nm)
    st.env[TUBE] = Rat.atom("eq_single_u_tube")
    f = [x for x in eng.run_function(st) if x.exit and x.exit[0] == "return"][0]
    rv = f.exit[1]
    want = Rat.atom("eq_single_u_tube.R_fp") - (Rat.atom("resist_conv") + Rat.atom("resist_pipe"))
    sets = [e.data for e in f.events if e.kind == "SET"]
    rec = [e for e in f.events if e.kind == "RECALC"]
    ok = isinstance(rv, Rat) and rv.equals(want) and any(k in ("eq_single_u_tube.pipe.k", f"{TUBE}.pipe.k") and v == Rat.atom(ofi.params()[0]) for k, v in sets) and bool(rec)
    res.ob("R15.3", "conductivity objective: set pipe.k, recompute, return R_fp(equivalent) - (R_conv + R_pipe)", ok, prog.loc(ofi, ofi.node))
    if not ok:
        res.violation("R15.3", f"objective-k|{vkey(rv)[:80]}", prog.loc(ofi, ofi.node), oq, f"the conductivity objective returns {vkey(rv)[:120]} (sets {[(k, vkey(v)) for k, v in sets]}); expected R_fp of the re-evaluated equivalent tube minus (resist_conv + resist_pipe)")
    mq = f"{BH}.GHEDesignerBoreholeWithMultiplePipes.match_effective_borehole_resistance"
    mfi = prog.func(mq)
    res.analysed(mq)
    oq2 = f"{mq}.<locals>.objective_resistance"
    o2 = prog.funcs.get(oq2)
    if o2 is None:
        raise AnalysisError(f"{oq2} not found")
    eng = Engine(prog, o2, HO())
    st = State()
    for p in o2.params():
        st.env[p] = Rat.atom(p)
    tube = [p for p in mfi.params() if p != "self"][0]
    st.env[tube] = Rat.atom(tube)
    f = [x for x in eng.run_function(st) if x.exit and x.exit[0] == "return"][0]
    rv = f.exit[1]
    want = Rat.atom("RB:self") - Rat.atom(f"RB:{tube}")
    sets = dict(e.data for e in f.events if e.kind == "SET")
    kin = Rat.atom(o2.params()[0])
    ok = isinstance(rv, Rat) and (rv.equals(want) or rv.equals(-want)) and sets.get(f"{tube}.k_g") == kin and sets.get(f"{tube}.grout.k") == kin
    res.ob("R15.3", "grout objective: set the trial conductivity on the equivalent tube, return Rb*(original) - Rb*(equivalent)", ok, prog.loc(o2, o2.node))
    if not ok:
        res.violation("R15.3", f"objective-kg|{vkey(rv)[:80]}", prog.loc(o2, o2.node), oq2, f"the grout objective returns {vkey(rv)[:120]} after setting {[(k, vkey(v)) for k, v in sets.items()]}; expected Rb*(self) - Rb*({tube}) with the trial conductivity applied to {tube}")

    class HM(Hooks):
        def on_call(self, node, fname, args, kwargs, st, eng):
            if fname == "solve_root":
                st.emit("SOLVE", node, node)
                return Rat.atom("KG_ROOT")
            return None

        def on_assign(self, key, val, stmt, st, eng):
            st.emit("SET", (key, val), stmt)

    eng = Engine(prog, mfi, HM())
    st = State()
    for p in mfi.params():
        st.env[p] = Rat.atom(p)
    f = [x for x in eng.run_function(st) if x.exit and x.exit[0] == "return"][0]
    sets = {}
    after = False
    for e in f.events:
        if e.kind == "SOLVE":
            after = True
        elif e.kind == "SET" and after:
            sets[e.data[0]] = e.data[1]
    ok = sets.get(f"{tube}.k_g") == Rat.atom("KG_ROOT") and sets.get(f"{tube}.grout.k") == Rat.atom("KG_ROOT") and f.exit[1] == Rat.atom(tube)
    res.ob("R15.3", "the solved grout conductivity is left on the returned equivalent tube", ok, prog.loc(mfi, f.exit[2]))
    if not ok:
        res.violation("R15.3", f"kg-applied|{[(k, vkey(v)) for k, v in sets.items()]}", prog.loc(mfi, f.exit[2]), mq, "after the grout solve the root is not written to the equivalent tube (k_g and grout.k), or another object is returned")
    sv = [e.data for e in f.events if e.kind == "SOLVE"]
    ok = len(sv) == 1 and len(sv[0].args) >= 2 and ast.unparse(sv[0].args[1]) == "objective_resistance"
    if not ok:
        res.violation("R15.3", "no-grout-solve", prog.loc(mfi, mfi.node), mq, "the grout conductivity is no longer solved with objective_resistance")

    # ---------------- volume helpers
    q = f"{BH}.MultipleUTube.u_tube_volumes"
    fi, eng, fin = _straight(prog, q)
    res.analysed(q)
    f = [x for x in fin if x.exit and x.exit[0] == "return"][0]
    rv = f.exit[1]
    if not (isinstance(rv, Seq) and len(rv.items) == 4 and all(isinstance(x, Rat) for x in rv.items)):
        raise AnalysisError(f"{q}: return value not understood")
    nt = Rat.const(2) * Rat.atom("self.nPipes")
    rin, rout = Rat.atom("self.r_in"), Rat.atom("self.r_out")
    ok = rv.items[0].equals(nt * PI * rin ** 2)
    res.ob("R15.1", "u_tube_volumes: fluid volume = (2 nPipes) pi r_in^2", ok, prog.loc(fi, f.exit[2]))
    if not ok:
        res.violation("R15.1", f"utube-fluid|{rv.items[0].key()[:60]}", prog.loc(fi, f.exit[2]), q, f"the fluid volume of the multiple U-tube is {rv.items[0].key()[:100]} instead of 2 nPipes pi r_in^2")
    ok = rv.items[1].equals(nt * PI * (rout ** 2 - rin ** 2))
    res.ob("R15.1", "u_tube_volumes: pipe volume = (2 nPipes) pi (r_out^2 - r_in^2)", ok, prog.loc(fi, f.exit[2]))
    if not ok:
        res.violation("R15.1", f"utube-pipe|{rv.items[1].key()[:60]}", prog.loc(fi, f.exit[2]), q, f"the pipe-wall volume of the multiple U-tube is {rv.items[1].key()[:100]} instead of 2 nPipes pi (r_out^2 - r_in^2)")
    ok = rv.items[3].equals(sym.log(rout / rin) / (nt * Rat.const(2) * PI * Rat.atom("self.pipe.k")))
    res.ob("R15.3", "u_tube_volumes: pipe resistance = ln(r_out / r_in) / (n 2 pi k_p) (tubes in parallel)", ok, prog.loc(fi, f.exit[2]))
    if not ok:
        res.violation("R15.3", f"utube-rpipe|{rv.items[3].key()[:60]}", prog.loc(fi, f.exit[2]), q, f"the combined pipe resistance is {rv.items[3].key()[:120]}")
    q = f"{BH}.CoaxialPipe.concentric_tube_volumes"
    fi, eng, fin = _straight(prog, q, env={"self.r_inner": Seq([Rat.atom("RII"), Rat.atom("RIO")], "list"), "self.r_outer": Seq([Rat.atom("ROI"), Rat.atom("ROO")], "list")})
    res.analysed(q)
    f = [x for x in fin if x.exit and x.exit[0] == "return"][0]
    rv = f.exit[1]
    if not (isinstance(rv, Seq) and len(rv.items) == 4 and all(isinstance(x, Rat) for x in rv.items[:2])):
        raise AnalysisError(f"{q}: return value not understood")
    rii, rio, roi, roo = (Rat.atom(x) for x in ("RII", "RIO", "ROI", "ROO"))
    ok = rv.items[0].equals(PI * (rii ** 2 + roi ** 2 - rio ** 2))
    res.ob("R15.1", "concentric_tube_volumes: fluid volume = inner bore + annulus = pi (r_ii^2 + r_oi^2 - r_io^2)", ok, prog.loc(fi, f.exit[2]))
    if not ok:
        res.violation("R15.1", f"coax-fluid|{rv.items[0].key()[:60]}", prog.loc(fi, f.exit[2]), q, f"the coaxial fluid volume is {rv.items[0].key()[:100]}")
    ok = rv.items[1].equals(PI * (rio ** 2 - rii ** 2 + roo ** 2 - roi ** 2))
    res.ob("R15.1", "concentric_tube_volumes: pipe volume = the two pipe walls", ok, prog.loc(fi, f.exit[2]))
    if not ok:
        res.violation("R15.1", f"coax-pipe|{rv.items[1].key()[:60]}", prog.loc(fi, f.exit[2]), q, f"the coaxial pipe-wall volume is {rv.items[1].key()[:100]}")

    # ---------------- to_single
    q = f"{BH}.SingleUTube.to_single"
    fi = prog.func(q)
    res.analysed(q)
    rets = [r for r in ast.walk(fi.node) if isinstance(r, ast.Return)]
    ok = len(rets) == 1 and ast.unparse(rets[0].value) == "self"
    res.ob("R15.2", "SingleUTube.to_single returns self", ok, prog.loc(fi, fi.node))
    if not ok:
        res.violation("R15.2", "single-not-identity", prog.loc(fi, fi.node), q, f"a single U-tube no longer converts to itself ({[ast.unparse(r.value) for r in rets]})")
    for cls, vol in (("MultipleUTube", "u_tube_volumes"), ("CoaxialPipe", "concentric_tube_volumes")):
        q = f"{BH}.{cls}.to_single"
        fi = prog.func(q)
        res.analysed(q)

        class HT(Hooks):
            def on_call(self, node, fname, args, kwargs, st, eng):
                if fname == f"self.{vol}":
                    st.emit("VOL", None, node)
                    return Seq([Rat.atom(x) for x in ("VF", "VP", "RC", "RP")], "tuple")
                if fname == "self.equivalent_single_u_tube":
                    st.emit("EQUIV", args, node)
                    return Rat.atom("PRELIM")
                if fname == "self.match_effective_borehole_resistance":
                    st.emit("MATCH", args, node)
                    return args[0] if args else Rat.atom("?")
                return None

        eng = Engine(prog, fi, HT())
        f = [x for x in eng.run_function(State()) if x.exit and x.exit[0] == "return"][0]
        kinds = [e.kind for e in f.events if e.kind in ("VOL", "EQUIV", "MATCH")]
        eq = [e for e in f.events if e.kind == "EQUIV"]
        mt = [e for e in f.events if e.kind == "MATCH"]
        ok = kinds == ["VOL", "EQUIV", "MATCH"] and [vkey(a) for a in eq[0].data] == ["VF", "VP", "RC", "RP"] and [vkey(a) for a in mt[0].data] == ["PRELIM"] and f.exit[1] == Rat.atom("PRELIM")
        res.ob("R15.3", f"{cls}.to_single: {vol} -> equivalent_single_u_tube(vol_fluid, vol_pipe, R_conv, R_pipe) -> match_effective_borehole_resistance -> that tube", ok, prog.loc(fi, fi.node))
        if not ok:
            res.violation("R15.3", f"{cls}|to_single|{kinds}", prog.loc(fi, fi.node), q,
                          f"{cls}.to_single runs {kinds} with arguments {[vkey(a) for a in eq[0].data] if eq else None} and returns {vkey(f.exit[1])}; "
                          f"expected volumes -> equivalent tube -> grout match, returning the matched tube")
    return res


VARIANTS = [
    Variant("equivalent tube computed for three tubes", "break", [(BH, "        # Compute equivalent single U-tube geometry\n        n = 2", "        # Compute equivalent single U-tube geometry\n        n = 3")], "R15.1"),
    Variant("pipe volume forgets to subtract the fluid volume", "break", [(BH, "        vol_pipe = n * pi * (self.r_out**2) - vol_fluid", "        vol_pipe = n * pi * (self.r_out**2)")], "R15.1"),
    Variant("SingleUTube.to_single returns a fresh tube", "break",
            [(BH, "    def to_single(self):\n        return self\n", "    def to_single(self):\n        return SingleUTube(self.m_flow_borehole, self.fluid, self.borehole, self.pipe, self.grout, self.soil)\n")], "R15.2"),
    Variant("outer radius from the pipe volume alone", "break", [(BH, "        r_p_o_prime = sqrt((vol_fluid + vol_pipe) / (n * pi))", "        r_p_o_prime = sqrt(vol_pipe / (n * pi))")], "R15.1"),
    Variant("grout objective compares the tube with itself", "break",
            [(BH, "            resist_bh = self.calc_effective_borehole_resistance()\n            return resist_bh - resist_bh_prime", "            resist_bh = preliminary_new_single_u_tube.calc_effective_borehole_resistance()\n            return resist_bh - resist_bh_prime")], "R15.3"),
    Variant("coaxial to_single skips the grout match", "break",
            [(BH, "        new_single_u_tube = self.match_effective_borehole_resistance(preliminary)\n\n        return new_single_u_tube", "        new_single_u_tube = preliminary\n\n        return new_single_u_tube")], "R15.3"),
    Variant("equivalent tube shares the original grout", "break", [(BH, "        grout = deepcopy(self.grout)", "        grout = self.grout")], "R15.3"),
    Variant("conductivity objective targets the pipe resistance alone", "break", [(BH, "            return eq_single_u_tube.R_fp - (resist_conv + resist_pipe)", "            return eq_single_u_tube.R_fp - resist_pipe")], "R15.3"),
    Variant("coaxial fluid volume counts the inner pipe wall", "break", [(BH, "        vol_fluid = pi * ((r_in_in**2) + (r_out_in**2) - (r_in_out**2))", "        vol_fluid = pi * ((r_in_out**2) + (r_out_in**2) - (r_in_in**2))")], "R15."),
    Variant("pi * r**2 written as pi * r * r", "benign", [(BH, "        vol_fluid = n * pi * (self.r_in**2)\n        vol_pipe", "        vol_fluid = n * pi * self.r_in * self.r_in\n        vol_pipe")]),
    Variant("radii through the cross-section areas", "benign",
            [(BH, "        r_p_i_prime = sqrt(vol_fluid / (n * pi))\n        r_p_o_prime = sqrt((vol_fluid + vol_pipe) / (n * pi))", "        area_i = vol_fluid / n\n        area_o = (vol_pipe + vol_fluid) / n\n        r_p_i_prime = sqrt(area_i / pi)\n        r_p_o_prime = sqrt(area_o / pi)")]),
]
