"""C01 - the returned design keeps the entering fluid temperature within the limits.

The property itself (temperatures of a simulation within limits for all loads) is numerical and NOT decided.
Decided are the construction obligations without which a feasible design cannot be what is returned:

  R01.1  selection provenance: every non-escape return of Bisection1D.search draws its field either under a
         bracket check_bracket(sign(EXC(f, min_height)), sign(EXC(f, max_height))) on the SAME field f, or from the
         evaluated candidates through a filter that implies excess <= 0 (def-use of the value fed to
         values.index(...)); same for BisectionZD.search_successive; in the row-wise search every assignment of
         the selected / best field is guarded by excess <= 0 of that same field (accepted exceptions in the slot
         table: the first element of the exhaustive sweep, the single borehole)
  R01.2  live object = returned field: on every return path the last initialize_ghe(X, h) has X equal to the
         returned coordinates and h = max_height (non-escape); the nested searches publish what their last
         search() / search_successive() returned; the row-wise constructor initialises the selected field
  R01.3  sizing protocol: GHEManager.find_design = search -> publish -> compute_g_functions -> size(HYBRID)
         (shared with C12); search_successive and the row-wise sweep call compute_g_functions before size
  R01.4  excess definition: cost = max(max_eft - max_allowed, min_allowed - min_eft)  (shared with C12)
  R01.5  clamp table of solve_root: signs differ -> brentq(f, lower, upper, xtol=abs_tol, rtol=rel_tol);
         both negative -> lower; both positive -> upper - decided by running the function once per sign case with the two
         signs given as constants (c02.solve_root_cases), so the way the case is tested does not matter;
         GHE.size leaves the object at the solver's value on every returning path (an early return is accepted only
         at min_height after establishing excess <= 0 there)

Blind to any change of numbers (g-function, loads, tolerances).
"""
from __future__ import annotations

import ast

from .. import sym
from ..model import AnalysisError, Program, attr_chain, bind_args, norm_stmt, walk_no_nested
from ..paths import Const, Engine, Hooks, Opaque, Seq, State, describe_trail, vkey
from ..report import Result
from ..selftest import Variant
from ..sym import Rat
from . import c02, c12
from . import search_common as sc

PROP = "C01"
TITLE = "Returned design keeps entering fluid temperature within the limits (construction obligations)"
EXPLANATION = (
    "Path analysis of the four search classes with calculate_excess as a pure function EXC(field, height): which "
    "field / height each sign decision was taken on, which field the live GHE was last initialised with, what is "
    "returned; def-use provenance of the value that selects the final candidate; typestate of the sizing protocol; "
    "normal form of the excess; clamp table of solve_root.  The numerical statement itself is not decided."
)
ASSUMPTIONS = ["calculate_excess(field, h) depends only on (field, h) - it re-initialises the GHE (C13 R13.6)",
               "the excess is monotone in height and field size (physics; not decided)"]

SR = sc.SR
GHX = "ghedesigner.ground_heat_exchangers"
UT = "ghedesigner.utilities"
ESCAPE = "self.sim_params.continue_if_design_unmet"


def check(prog: Program, tier: str) -> Result:
    res = Result(PROP)
    lb = 1 if tier == "quick" else 2
    _primitives(prog, res)
    _bisection1d(prog, res, lb)
    _provenance(prog, res, f"{SR}.Bisection1D.search")
    _provenance(prog, res, f"{SR}.BisectionZD.search_successive")
    _successive(prog, res, lb)
    _nested_ctors(prog, res)
    _rowwise(prog, res, lb)
    _protocol(prog, res)
    _clamp_table(prog, res)
    return res


# ---------------------------------------------------------------------------
def _primitives(prog: Program, res: Result):
    """R01.6 sign / check_bracket tables; R01.7 calculate_excess and initialize_ghe really evaluate (field, height)"""
    import itertools

    q = f"{UT}.check_bracket"
    fi = prog.func(q)
    res.analysed(q)
    rets = [r for r in ast.walk(fi.node) if isinstance(r, ast.Return)]
    ps = fi.params()
    if len(rets) != 1 or len(ps) != 2:
        raise AnalysisError(f"{q}: shape not understood")

    def ev(node, env):
        if isinstance(node, ast.BoolOp):
            vs = [ev(v, env) for v in node.values]
            return all(vs) if isinstance(node.op, ast.And) else any(vs)
        if isinstance(node, ast.UnaryOp) and isinstance(node.op, ast.Not):
            return not ev(node.operand, env)
        if isinstance(node, ast.UnaryOp) and isinstance(node.op, ast.USub):
            return -ev(node.operand, env)
        if isinstance(node, ast.Compare):
            left = ev(node.left, env)
            okc = True
            for op, r in zip(node.ops, node.comparators):
                rv = ev(r, env)
                okc = okc and {ast.Lt: left < rv, ast.LtE: left <= rv, ast.Gt: left > rv, ast.GtE: left >= rv, ast.Eq: left == rv, ast.NotEq: left != rv}[type(op)]
                left = rv
            return okc
        if isinstance(node, ast.Name):
            return env[node.id]
        if isinstance(node, ast.Constant):
            return node.value
        if isinstance(node, ast.BinOp) and isinstance(node.op, ast.Mult):
            return ev(node.left, env) * ev(node.right, env)
        raise AnalysisError(f"{q}: expression not understood: {ast.unparse(node)}")

    bad = []
    for a, b in itertools.product((-1, 1), repeat=2):
        got = bool(ev(rets[0].value, {ps[0]: a, ps[1]: b}))
        if got != (a != b):
            bad.append((a, b, got))
    res.ob("R01.6", "check_bracket(s1, s2) is true exactly when the two signs differ (4 valuations)", not bad, prog.loc(fi, rets[0]))
    for a, b, got in bad:
        res.violation("R01.6", f"check_bracket|{a}|{b}", prog.loc(fi, rets[0]), q, f"check_bracket({a}, {b}) = {got}: a bracket is {'claimed' if got else 'denied'} although the signs {'agree' if a == b else 'differ'}")
    q = f"{UT}.sign"
    fi = prog.func(q)
    res.analysed(q)
    eng = Engine(prog, fi, Hooks())
    st = State()
    st.env["x"] = Rat.atom("x")
    f = [x for x in eng.run_function(st) if x.exit and x.exit[0] == "return"]
    X = Rat.atom("x")
    want = [sym.call("int", [sym.call("abs", [X]) / X]), sym.call("int", [X / sym.call("abs", [X])])]
    ok = len(f) == 1 and isinstance(f[0].exit[1], Rat) and any(f[0].exit[1].equals(w) for w in want)
    res.ob("R01.6", f"sign(x) = int(|x| / x) (got {vkey(f[0].exit[1])[:40] if f else '?'})", ok, prog.loc(fi, fi.node))
    if not ok:
        res.violation("R01.6", f"sign|{vkey(f[0].exit[1])[:40] if f else '?'}", prog.loc(fi, fi.node), q, f"sign(x) is {vkey(f[0].exit[1])[:60] if f else '?'} instead of int(abs(x) / x)")
    # calculate_excess(coordinates, h) = initialize_ghe(coordinates, h) ; simulate ; cost
    for cls in ("Bisection1D", "RowWiseModifiedBisectionSearch"):
        q = f"{SR}.{cls}.calculate_excess"
        fi = prog.func(q)
        res.analysed(q)
        class HC(Hooks):
            def on_call(self, node, fname, args, kwargs, st, eng):
                if fname == "self.initialize_ghe":
                    st.emit("INIT", args, node)
                    return Const(None)
                if fname == "self.ghe.simulate":
                    st.emit("SIM", None, node)
                    return Seq([Rat.atom("MX"), Rat.atom("MN")], "tuple")
                if fname == "self.ghe.cost":
                    st.emit("COST", None, node)
                    return Rat.atom("EXCESS")
                return None

        engc = Engine(prog, fi, HC())
        stc = State()
        for p_ in fi.params():
            stc.env[p_] = Rat.atom(p_)
        ps = [p_ for p_ in fi.params() if p_ != "self"]
        ok = True
        names = []
        for fc in engc.run_function(stc):
            if fc.exit is None or fc.exit[0] != "return":
                continue
            names = [e.kind for e in fc.events if e.kind in ("INIT", "SIM", "COST")]
            init = [e for e in fc.events if e.kind == "INIT"]
            good = names == ["INIT", "SIM", "COST"] and len(init[0].data) >= 2 and init[0].data[0] == Rat.atom(ps[0]) and init[0].data[1] == Rat.atom(ps[1])
            if not good:
                ok = False
                break
        res.ob("R01.7", f"{cls}.calculate_excess(field, h): initialises the GHE with exactly (field, h), then simulates, then takes the excess", ok, prog.loc(fi, fi.node))
        if not ok:
            res.violation("R01.7", f"{cls}|calculate_excess|{names}", prog.loc(fi, fi.node), q,
                          f"calculate_excess runs {names} - it must re-initialise the GHE with its own (coordinates, h) before simulating, otherwise the excess belongs to another field or height")
        q = f"{SR}.{cls}.initialize_ghe"
        fi = prog.func(q)
        res.analysed(q)

        class H(Hooks):
            def on_assign(self, key, val, stmt, st, eng):
                if key.endswith(".H"):
                    st.emit("HSET", (key, val), stmt)

            def on_call(self, node, fname, args, kwargs, st, eng):
                if fname == "calc_g_func_for_multiple_lengths":
                    gs = prog.func("ghedesigner.gfunction.calc_g_func_for_multiple_lengths")
                    st.emit("GF", {k: eng.eval(v, st) for k, v in bind_args(gs, node).items()}, node)
                    return Rat.atom("GFUNC")
                if fname == "GHE":
                    gi = prog.func("ghedesigner.ground_heat_exchangers.GHE.__init__")
                    st.emit("GHE", {k: eng.eval(v, st) for k, v in bind_args(gi, node).items()}, node)
                    return Rat.atom("GHEOBJ")
                if fname == "self.retrieve_flow":
                    return Seq([Rat.atom("VS"), Rat.atom("MF")], "tuple")
                return None

        eng = Engine(prog, fi, H())
        st = State()
        for p in fi.params():
            st.env[p] = Rat.atom(p)
        f = [x for x in eng.run_function(st)][0]
        order = [e.kind for e in f.events if e.kind in ("HSET", "GF", "GHE")]
        hs = [e for e in f.events if e.kind == "HSET"]
        gf = [e for e in f.events if e.kind == "GF"]
        gh = [e for e in f.events if e.kind == "GHE"]
        ok = order == ["HSET", "GF", "GHE"] and hs[0].data[1] == Rat.atom("h")
        hv = gf[0].data.get("h_values") if gf else None
        okh = ok and isinstance(hv, Seq) and len(hv.items) == 1 and isinstance(hv.items[0], Rat) and (hv.items[0].key() == hs[0].data[0] or (isinstance(hs[0].data[1], Rat) and hv.items[0].equals(hs[0].data[1])))  # the borehole's height attribute, or the value just written to it
        okb = okh and vkey(gh[0].data.get("borehole")) + ".H" == hs[0].data[0]
        res.ob("R01.7", f"{cls}.initialize_ghe: writes the requested height to the borehole, computes the g-function for [that height] and builds the GHE on that borehole", bool(okb), prog.loc(fi, fi.node))
        if not okb:
            res.violation("R01.7", f"{cls}|initialize_ghe|{order}", prog.loc(fi, fi.node), q,
                          f"initialize_ghe does {order} with height {vkey(hs[0].data[1]) if hs else '?'} -> g-function heights {vkey(hv)[:40] if hv is not None else '?'}; "
                          f"the requested height must be written first and be the height of both the g-function and the GHE's borehole")


# ---------------------------------------------------------------------------
def _bisection1d(prog: Program, res: Result, lb: int):
    q = f"{SR}.Bisection1D.search"
    fi, eng, paths = sc.run_search(prog, q, loop_bound=lb)
    res.analysed(q)
    res.count("bisection1d_paths", len(paths))
    res.floor("bisection1d_paths", 20)
    n_ret = 0
    seen = set()
    for p in paths:
        if p.exit_kind != "return":
            continue
        st = p.state
        ret = p.ret
        where = prog.loc(fi, st.exit[2])
        if not (isinstance(ret, Seq) and len(ret.items) == 2):
            raise AnalysisError(f"{q}: return value is not (key, coordinates)")
        n_ret += 1
        escape = st.facts.get(ESCAPE) is True
        inits = p.inits()
        # ---- R01.2
        last = inits[-1].data if inits else None
        ok_f = last is not None and vkey(last[0]) == vkey(ret.items[1])
        want_h_ok = last is not None and isinstance(last[1], Rat) and (last[1].equals(sc.MAXH) or (escape and last[1].equals(sc.MINH)))
        key = ("R01.2", st.exit[2].lineno, ok_f, want_h_ok)
        if key not in seen:
            seen.add(key)
            res.ob("R01.2", f"return @L{st.exit[2].lineno}: the live GHE was last initialised with the returned field at max_height" + (" (escape: min/max)" if escape else ""), ok_f and want_h_ok, where)
            if not ok_f:
                res.violation("R01.2", f"stale-ghe|L-return|{vkey(ret.items[1])[:60]}|{vkey(last[0])[:60] if last else None}", where, q,
                              f"search() returns {vkey(ret.items[1])[:80]} but the live GHE object was last initialised with {vkey(last[0])[:80] if last else 'nothing'}: "
                              f"the manager sizes and reports a different field than the one selected", path=describe_trail(st)[-5:])
            elif not want_h_ok:
                res.violation("R01.2", f"init-height|{vkey(last[1])[:40]}", where, q,
                              f"the returned field is initialised at {vkey(last[1])} instead of max_height", path=describe_trail(st)[-5:])
        # index returned = index of the coordinates returned
        idxr = ret.items[0]
        if isinstance(idxr, Rat) and vkey(ret.items[1]) != f"self.coordinates_domain[{idxr.key()}]" and "self.coordinates_domain[" in vkey(ret.items[1]):
            kk = ("R01.2k", st.exit[2].lineno)
            if kk not in seen:
                seen.add(kk)
                res.violation("R01.2", f"key-vs-coordinates|{idxr.key()[:40]}", where, q,
                              f"search() returns key {idxr.key()[:60]} with coordinates {vkey(ret.items[1])[:80]}: the descriptor / inner domain chosen from the key belongs to another field")
        # ---- R01.1 (first-bracket return)
        if escape:
            continue
        brs = [(k, tr) for k, tr, ln in st.trail if "check_bracket(" in k]
        first_true = bool(brs) and not brs[0][0].startswith("not (")
        if first_true:
            f_key = f"F<{vkey(ret.items[1])}>"
            k = brs[0][0]
            okb = k.count(f_key) == 2 and "self.sim_params.min_height" in k and "self.sim_params.max_height" in k
            kk = ("R01.1a", st.exit[2].lineno, okb)
            if kk not in seen:
                seen.add(kk)
                res.ob("R01.1", f"return @L{st.exit[2].lineno}: bracketed between min and max height of the SAME field that is returned", okb, where)
                if not okb:
                    res.violation("R01.1", f"bracket-other-field|{k[:100]}", where, q,
                                  f"the field returned under a height bracket is {vkey(ret.items[1])[:60]} but the bracket was established on {k[:160]}", path=describe_trail(st)[-4:])
        else:
            # no escape, no height bracket: the only other way to return a design is the final pick after the bisection loop
            final_ret = max((r_ for r_ in fi.node.body if isinstance(r_, ast.Return)), key=lambda r_: r_.lineno, default=None)
            if final_ret is None or st.exit[2] is not final_ret:
                kk = ("R01.1e", st.exit[2].lineno)
                if kk not in seen:
                    seen.add(kk)
                    esc_txt = [k_ for k_, tr_, ln_ in st.trail if "continue_if_design_unmet" in k_]
                    res.ob("R01.1", f"return @L{st.exit[2].lineno}: an early return of a design is taken only under the unmet-design escape or a height bracket", False, where)
                    res.violation("R01.1", f"early-return-without-escape|{vkey(ret.items[1])[:60]}", where, q,
                                  f"search() returns {vkey(ret.items[1])[:80]} before the bisection, on a path that has neither established a height bracket for it nor found continue_if_design_unmet to be true "
                                  f"({esc_txt[-1] if esc_txt else 'the flag is not tested'}): a field that does not meet the limits is handed out as the design", path=describe_trail(st)[-5:])
    res.count("bisection1d_return_paths", n_ret)
    res.floor("bisection1d_return_paths", 6)
    # every recorded excess is the excess of the field at that index at max height
    bad = {}
    n_st = 0
    for p in paths:
        for e in p.events:
            if e.kind == "CT_STORE":
                n_st += 1
                key, val, idx = e.data
                want = sc.exc(Rat.atom(f"self.coordinates_domain[{idx.key()}]"), sc.MAXH) if idx is not None else None
                if want is None or not (isinstance(val, Rat) and val.equals(want)):
                    bad.setdefault(e.node.lineno, (e, val, idx))
    res.count("recorded_excess_stores", n_st)
    res.floor("recorded_excess_stores", 50)
    res.ob("R01.1", f"calculated_temperatures[k] is always the excess of field k at max_height ({n_st} stores on all paths)", not bad, prog.loc(fi, fi.node))
    for ln, (e, val, idx) in bad.items():
        res.violation("R01.1", f"recorded-excess|{norm_stmt(e.node)[:80]}", prog.loc(fi, e.node), q,
                      f"'{norm_stmt(e.node)[:90]}' records {vkey(val)[:100]} under index {vkey(idx)[:40]}: the final pick reads this table as 'excess of field k at max height'")


# ---------------------------------------------------------------------------
def _provenance(prog: Program, res: Result, q: str):
    """the value fed to <values>.index(...) that picks the final candidate is only ever assigned from values whose
    filter / guard implies excess <= 0"""
    fi = prog.func(q)
    res.analysed(q)
    fn = fi.node
    picks = []
    for n in ast.walk(fn):
        if isinstance(n, ast.Call) and isinstance(n.func, ast.Attribute) and n.func.attr == "index" and len(n.args) == 1 and isinstance(n.args[0], ast.Name) and isinstance(n.func.value, ast.Name):
            picks.append(n)
    # only those whose list is the .values() of calculated_temperatures
    def is_ct_values(name, before):
        d = _last_def(fn, name, before)
        return d is not None and "self.calculated_temperatures.values()" in ast.unparse(d.value)

    picks = [p for p in picks if is_ct_values(p.func.value.id, p.lineno)]
    if not picks:
        alt = sc.argopt_final_pick(fn)
        if alt is None:
            raise AnalysisError(f"{q}: final pick not found (neither '<values>.index(<excess>)' nor 'min|max(<feasible>, key=...)')")
        res.ob("R01.1", f"{fi.name}: the final key is chosen among evaluated candidates filtered by excess <= 0 ({norm_stmt(alt['node'])[:70]})", alt["filter_ok"], prog.loc(fi, alt["node"]))
        if not alt["filter_ok"]:
            res.violation("R01.1", f"{fi.name}|provenance|{norm_stmt(alt['node'])[:80]}", prog.loc(fi, alt["node"]), q,
                          f"'{norm_stmt(alt['node'])[:100]}' chooses the returned field among candidates that are not restricted to excess <= 0")
        res.count("selecting_definitions", 2)
        return
    n_defs = 0
    for p in picks:
        var = p.args[0].id
        vals = p.func.value.id
        for s in walk_no_nested(fn):
            if isinstance(s, ast.Assign) and len(s.targets) == 1 and isinstance(s.targets[0], ast.Name) and s.targets[0].id == var and s.lineno < p.lineno:
                n_defs += 1
                ok, why = _nonpositive_source(fn, s, vals)
                res.ob("R01.1", f"{fi.name}: '{norm_stmt(s)[:70]}' draws the selecting excess from candidates with excess <= 0 ({why})", ok, prog.loc(fi, s))
                if not ok:
                    res.violation("R01.1", f"{fi.name}|provenance|{norm_stmt(s)[:80]}", prog.loc(fi, s), q,
                                  f"the excess that selects the returned field is assigned by '{norm_stmt(s)[:100]}', which does not restrict it to candidates "
                                  f"with excess <= 0 ({why}): an infeasible field can be returned")
    res.count("selecting_definitions", n_defs)
    res.floor("selecting_definitions", 2)


def _last_def(fn, name, before):
    best = None
    for s in walk_no_nested(fn):
        if isinstance(s, ast.Assign) and len(s.targets) == 1 and isinstance(s.targets[0], ast.Name) and s.targets[0].id == name and s.lineno < before:
            if best is None or s.lineno > best.lineno:
                best = s
    return best


def _implies_nonpositive(test: ast.expr, var: str) -> bool:
    """test is  var < 0 | var <= 0 | 0 > var | 0 >= var  (possibly a conjunct of an 'and')"""
    if isinstance(test, ast.BoolOp) and isinstance(test.op, ast.And):
        return any(_implies_nonpositive(v, var) for v in test.values)
    if isinstance(test, ast.Compare) and len(test.ops) == 1:
        l, op, r = test.left, test.ops[0], test.comparators[0]

        def is0(x):
            return isinstance(x, ast.Constant) and isinstance(x.value, (int, float)) and x.value == 0

        if isinstance(l, ast.Name) and l.id == var and is0(r) and isinstance(op, (ast.Lt, ast.LtE)):
            return True
        if isinstance(r, ast.Name) and r.id == var and is0(l) and isinstance(op, (ast.Gt, ast.GtE)):
            return True
    return False


_depth = [0]


def _nonpositive_source(fn, s: ast.Assign, vals: str):
    v = s.value
    # (i) max / min of a comprehension over <vals> filtered by <= 0
    if isinstance(v, ast.Call) and attr_chain(v.func) in ("max", "min") and len(v.args) == 1:
        a = v.args[0]
        comp = a if isinstance(a, (ast.ListComp, ast.GeneratorExp)) else None
        if isinstance(a, ast.Name):
            d = _last_def(fn, a.id, s.lineno)
            comp = d.value if d is not None and isinstance(d.value, ast.ListComp) else None
        if comp is not None and len(comp.generators) == 1:
            g = comp.generators[0]
            if isinstance(g.target, ast.Name) and isinstance(comp.elt, ast.Name) and comp.elt.id == g.target.id and ast.unparse(g.iter) == vals:
                if len(g.ifs) == 1 and _implies_nonpositive(g.ifs[0], g.target.id):
                    return True, f"{attr_chain(v.func)} over [{ast.unparse(g.ifs[0])}]"
                return False, f"filter {[ast.unparse(i) for i in g.ifs]} does not imply excess <= 0"
        return False, "not a filtered comprehension over the evaluated excess values"
    # (iv) next((val for .. in <sorted values> if val < 0), default): the first such value, or the default
    if isinstance(v, ast.Call) and attr_chain(v.func) == "next" and v.args and isinstance(v.args[0], ast.GeneratorExp) and len(v.args[0].generators) == 1:
        ge = v.args[0]
        g = ge.generators[0]
        tnames = [t.id for t in ast.walk(g.target) if isinstance(t, ast.Name)]
        if not (isinstance(ge.elt, ast.Name) and ge.elt.id in tnames):
            return False, "next() over something else than the scanned values"
        if not (len(g.ifs) >= 1 and any(_implies_nonpositive(t_, ge.elt.id) for t_ in g.ifs)):
            return False, f"next() takes '{ge.elt.id}' without a filter implying excess <= 0"
        dflt_ok = len(v.args) == 1 or (isinstance(v.args[1], ast.Constant) and v.args[1].value is None)
        if not dflt_ok:
            return False, "next() falls back on a default that is not an evaluated non-positive excess"
        src_ok = _derives_from(fn, g.iter, vals, s.lineno)
        return (True, f"first of {ast.unparse(g.iter)[:40]} with excess <= 0") if src_ok else (False, "next() does not scan the evaluated excess values")
    # (ii) a loop variable over (sorted) values, under a guard implying <= 0
    if isinstance(v, ast.Name):
        for n in ast.walk(fn):
            if isinstance(n, ast.For) and any(s is x for x in ast.walk(n)):
                tnames = [t.id for t in ast.walk(n.target) if isinstance(t, ast.Name)]
                if v.id in tnames:
                    # guard chain between the loop and the assignment
                    guard_ok = False
                    for g in ast.walk(n):
                        if isinstance(g, ast.If) and any(s is x for b in g.body for x in ast.walk(b)) and _implies_nonpositive(g.test, v.id):
                            guard_ok = True
                    if not guard_ok:
                        return False, f"loop value '{v.id}' is taken without a guard implying excess <= 0"
                    # the loop must iterate over the evaluated values (possibly sorted / zipped)
                    src_ok = _derives_from(fn, n.iter, vals, n.lineno)
                    return (True, f"loop over {ast.unparse(n.iter)[:40]} guarded by <= 0") if src_ok else (False, f"the loop does not iterate over the evaluated excess values")
        # (iii) a plain copy: every definition of the copied name must itself be a non-positive source
        defs = [d for d in walk_no_nested(fn) if isinstance(d, ast.Assign) and len(d.targets) == 1 and isinstance(d.targets[0], ast.Name) and d.targets[0].id == v.id and d.lineno < s.lineno]
        if defs and _depth[0] < 5:
            _depth[0] += 1
            try:
                rs = [_nonpositive_source(fn, d, vals) for d in defs]
            finally:
                _depth[0] -= 1
            if all(r[0] for r in rs):
                return True, f"copy of '{v.id}' ({rs[0][1]})"
            return False, next(r[1] for r in rs if not r[0])
        return False, f"'{v.id}' is not a guarded loop value"
    return False, "unrecognised source"


def _derives_from(fn, expr: ast.expr, vals: str, before: int, depth: int = 0) -> bool:
    if depth > 6:
        return False
    for n in ast.walk(expr):
        if isinstance(n, ast.Name):
            if n.id == vals:
                return True
            d = _last_def_any(fn, n.id, before)
            if d is not None and _derives_from(fn, d, vals, before, depth + 1):
                return True
    return False


def _last_def_any(fn, name, before):
    best = None
    for s in walk_no_nested(fn):
        if isinstance(s, ast.Assign) and s.lineno < before:
            for t in s.targets:
                if any(isinstance(x, ast.Name) and x.id == name for x in ast.walk(t)):
                    if best is None or s.lineno > best.lineno:
                        best = s
    return best.value if best is not None else None


# ---------------------------------------------------------------------------
def _successive(prog: Program, res: Result, lb: int):
    q = f"{SR}.BisectionZD.search_successive"
    fi, eng, paths = sc.run_search(prog, q, loop_bound=lb)
    res.analysed(q)
    res.count("successive_paths", len(paths))
    n = 0
    seen = set()
    for p in paths:
        if p.exit_kind != "return":
            continue
        n += 1
        st = p.state
        ret = p.ret
        where = prog.loc(fi, st.exit[2])
        inits = [e for e in p.events if e.kind == "INIT"]
        tail = [(e.kind, e.data if e.kind == "GHE" else None) for e in p.events if e.kind in ("INIT", "GHE", "SEARCH")]
        last_init = max((i for i, e in enumerate(p.events) if e.kind == "INIT"), default=None)
        after = [e.data for e in p.events[last_init + 1:] if e.kind == "GHE"] if last_init is not None else []
        ok_f = bool(inits) and isinstance(ret, Seq) and len(ret.items) == 2 and vkey(inits[-1].data[0]) == vkey(ret.items[1])
        ok_h = bool(inits) and isinstance(inits[-1].data[1], Rat) and inits[-1].data[1].equals(sc.MAXH)
        ok_p = after == ["compute_g_functions", "size"]
        key = (ok_f, ok_h, ok_p)
        if key in seen:
            continue
        seen.add(key)
        res.ob("R01.2", "search_successive: the field it returns is re-initialised at max_height last", bool(ok_f and ok_h), where)
        if not (ok_f and ok_h):
            res.violation("R01.2", f"successive-live-object|{vkey(ret)[:60]}", where, q,
                          f"search_successive returns {vkey(ret)[:80]} but the live GHE was last initialised with "
                          f"{vkey(inits[-1].data[0])[:80] if inits else 'nothing'} at {vkey(inits[-1].data[1]) if inits else '?'}", path=describe_trail(st)[-4:])
        res.ob("R01.3", f"search_successive: the returned field is given its multi-height g-functions and sized ({after})", ok_p, where)
        if not ok_p:
            res.violation("R01.3", f"successive-protocol|{after}", where, q,
                          f"after re-initialising the returned field search_successive calls {after}; expected compute_g_functions then size")
    res.count("successive_return_paths", n)
    res.floor("successive_return_paths", 1)
    # inside the loop: each list's search result is sized after compute_g_functions, and the drilling it records is nbh * H
    loop = [n for n in ast.walk(fi.node) if isinstance(n, (ast.While, ast.For)) and any(isinstance(c_, ast.Call) and attr_chain(c_.func) == "self.search" for c_ in ast.walk(n))]
    if len(loop) != 1:
        raise AnalysisError(f"{q}: main loop not found")
    seq = []
    for n in ast.walk(loop[0]):
        if isinstance(n, ast.Call):
            c = attr_chain(n.func) or ""
            if c in ("self.search", "self.ghe.compute_g_functions", "self.ghe.size"):
                seq.append((n.lineno, c.split(".")[-1]))
    seq = [c for _, c in sorted(seq)]
    ok = seq == ["search", "compute_g_functions", "size"]
    res.ob("R01.3", f"search_successive loop: search -> compute_g_functions -> size per candidate list ({seq})", ok, prog.loc(fi, loop[0]))
    if not ok:
        res.violation("R01.3", f"successive-loop-protocol|{seq}", prog.loc(fi, loop[0]), q, f"per candidate list the loop calls {seq}; expected search, compute_g_functions, size")


def _nested_ctors(prog: Program, res: Result):
    for cls, last_call in (("Bisection2D", "self.search"), ("BisectionZD", "self.search_successive"), ("Bisection1D", "self.search")):
        q = f"{SR}.{cls}.__init__"
        fi = prog.func(q)
        res.analysed(q)
        pubs = []
        for s in walk_no_nested(fi.node):
            if isinstance(s, ast.Assign) and len(s.targets) == 1 and isinstance(s.targets[0], ast.Tuple):
                names = [attr_chain(e) for e in s.targets[0].elts]
                if "self.selected_coordinates" in names and isinstance(s.value, ast.Call):
                    pubs.append((s, attr_chain(s.value.func), names))
        ok = len(pubs) == 1 and pubs[0][1] == last_call and pubs[0][2] == ["self.selection_key", "self.selected_coordinates"]
        res.ob("R01.2", f"{cls}.__init__ publishes (selection_key, selected_coordinates) = {last_call}()", ok, prog.loc(fi, pubs[0][0]) if pubs else prog.loc(fi, fi.node))
        if not ok:
            res.violation("R01.2", f"{cls}|publish|{[(p[1], p[2]) for p in pubs]}", prog.loc(fi, pubs[0][0]) if pubs else prog.loc(fi, fi.node), q,
                          f"{cls} publishes its selection from {[(p[1], p[2]) for p in pubs]}; expected (selection_key, selected_coordinates) = {last_call}()")
        # nothing re-initialises the GHE after the publishing call
        if pubs:
            later = [n for n in walk_no_nested(fi.node) if isinstance(n, ast.Call) and (attr_chain(n.func) or "") in ("self.initialize_ghe", "self.calculate_excess", "self.search") and n.lineno > pubs[0][0].lineno]
            res.ob("R01.2", f"{cls}.__init__: nothing re-initialises the GHE after the selection is published", not later, prog.loc(fi, fi.node))
            for n in later:
                res.violation("R01.2", f"{cls}|reinit-after-publish|{norm_stmt(n)[:60]}", prog.loc(fi, n), q, f"{norm_stmt(n)[:80]} runs after the selection is published: the live GHE no longer belongs to it")
    # row-wise constructor
    q = f"{SR}.RowWiseModifiedBisectionSearch.__init__"
    fi = prog.func(q)
    res.analysed(q)
    calls = [n for n in walk_no_nested(fi.node) if isinstance(n, ast.Call) and attr_chain(n.func) == "self.initialize_ghe"]
    ok = False
    if len(calls) == 1:
        b = bind_args(prog.func(f"{SR}.RowWiseModifiedBisectionSearch.initialize_ghe"), calls[0])
        ok = ast.unparse(b.get("coordinates")) == "self.selected_coordinates" and ast.unparse(b.get("h")) == "self.sim_params.max_height"
    res.ob("R01.2", "RowWise.__init__: initialises the live GHE with the selected coordinates at max_height after search()", ok, prog.loc(fi, calls[0]) if calls else prog.loc(fi, fi.node))
    if not ok:
        res.violation("R01.2", "rowwise-ctor-init", prog.loc(fi, calls[0]) if calls else prog.loc(fi, fi.node), q,
                      "the row-wise constructor does not initialise the live GHE with (self.selected_coordinates, max_height) after the search")


# ---------------------------------------------------------------------------
class _RW(c02._RWHooks):
    def __init__(self, sel_names):
        super().__init__()
        self.sel_names = set(sel_names)

    def on_stmt(self, s, st, eng):
        if isinstance(s, ast.Assign) and len(s.targets) == 1 and isinstance(s.targets[0], ast.Name) and s.targets[0].id in self.sel_names:
            st.env["__prev_" + s.targets[0].id] = st.env.get(s.targets[0].id, Const("unbound"))
        return None

    def on_assign(self, key, val, stmt, st, eng):
        if key in self.sel_names and not (isinstance(val, Const) and val.value is None):
            prev = st.env.get("__prev_" + key)
            st.emit("SELECT", (key, val, isinstance(prev, Const) and prev.value is None), stmt)
        super().on_assign(key, val, stmt, st, eng)


def _sorted_zip_of_param(it: ast.Call, fn: ast.FunctionDef) -> bool:
    """it is  sorted(zip(<keys>, <P>), ...)  with P a parameter of fn (the points that are being reordered)"""
    if not (it.args and isinstance(it.args[0], ast.Call) and attr_chain(it.args[0].func) == "zip" and len(it.args[0].args) == 2):
        return False
    p = it.args[0].args[1]
    return isinstance(p, ast.Name) and p.id in {a.arg for a in fn.args.args}


def _in_loop(fn: ast.FunctionDef, stmt: ast.stmt) -> bool:
    """stmt sits in the body of THE SWEEP: a for loop over a list that a while loop of fn fills by append (the candidate spacings) -
    the only loop whose first candidate sweep_start_is_feasible_end speaks about"""
    filled = set()
    for w in ast.walk(fn):
        if isinstance(w, ast.While):
            for c in ast.walk(w):
                if isinstance(c, ast.Call) and isinstance(c.func, ast.Attribute) and c.func.attr == "append" and isinstance(c.func.value, ast.Name):
                    filled.add(c.func.value.id)
    return any(isinstance(l, ast.For) and isinstance(l.iter, ast.Name) and l.iter.id in filled and any(stmt is x for b in l.body for x in ast.walk(b)) for l in ast.walk(fn))


ROWWISE_ACCEPT = {
    "first-sweep-element": "the sweep accumulator's first value is the field regenerated at the spacing the bisection last found feasible (same deterministic generator); no guard expresses it",
    "single-borehole": "a single borehole's response does not depend on where it stands: the 1X1 evaluation at the origin stands for the last borehole of the sparse field",
}


def _rowwise(prog: Program, res: Result, lb: int):
    q = f"{SR}.RowWiseModifiedBisectionSearch.search"
    fi = prog.func(q)
    res.analysed(q)
    final, via, extra = sc.rowwise_names(fi.node)
    hooks = _RW(final | via)
    eng = Engine(prog, fi, hooks, loop_bound=2, max_paths=400000, zero_trip=False)  # 2 trips: the sweep's update branch needs a second one

    def sd(s):
        if sc.seed(s):
            return True
        for n in ast.walk(s):
            if isinstance(n, ast.Name) and n.id in (final | via) and isinstance(n.ctx, ast.Store):
                return True
        return False

    eng.slice(fi.node.body, sd, extra_names=set(extra))
    st0 = State()
    for p in fi.params():
        st0.env[p] = Rat.atom(p)
    finals = eng.run_function(st0)
    res.count("rowwise_paths", len(finals))
    seen = set()
    n_sel = 0
    for f in finals:
        for e in f.events:
            if e.kind != "SELECT":
                continue
            key, val, was_none = e.data
            n_sel += 1
            sig = (e.node.lineno,)
            # state at the time of the assignment: assumptions made so far (prefix of the trail)
            pre = f.trail[: e.trail_len]
            x = sc.exc(val, sc.MAXH)
            vk = vkey(val)
            if vk.startswith("PERM(") and vk.endswith(")"):
                # a reordering of a field has the excess of that field
                x = sym._plain_call("EXC", [Rat.atom(f"F<{vk[5:-1]}>"), sc.MAXH])
            xs = _sign_from_trail(pre, x)
            okg = xs is not None and "+" not in xs
            why = f"guarded by excess({vkey(val)[:40]}, max_height) <= 0"
            if not okg:
                txt = norm_stmt(e.node)
                if was_none and (key in via or (key in final and _in_loop(fi.node, e.node))):
                    okf, whyf = sc.sweep_start_is_feasible_end(prog, fi)
                    if okf:
                        okg, why = True, "accepted: " + ROWWISE_ACCEPT["first-sweep-element"] + " - checked: " + whyf
                    else:
                        why = "the sweep's first candidate is accepted without a test, and " + whyf
                elif key in final and isinstance(e.node.value, ast.Name) and e.node.value.id in via:
                    okg, why = True, f"{e.node.value.id} (checked where it is assigned)"
                elif key in final and _sign_from_trail(pre, sc.exc(Seq([Seq([Rat.const(0), Rat.const(0)], "list")], "list"), sc.MAXH)) is not None \
                        and "+" not in _sign_from_trail(pre, sc.exc(Seq([Seq([Rat.const(0), Rat.const(0)], "list")], "list"), sc.MAXH)):
                    okg, why = True, "accepted: " + ROWWISE_ACCEPT["single-borehole"]
            k2 = (e.node.lineno, okg, why[:40])
            if k2 in seen:
                continue
            seen.add(k2)
            res.ob("R01.1", f"row-wise: '{norm_stmt(e.node)[:60]}' - {why[:110]}", okg, prog.loc(fi, e.node))
            if not okg:
                res.violation("R01.1", f"rowwise-select|{norm_stmt(e.node)[:80]}", prog.loc(fi, e.node), q,
                              f"'{norm_stmt(e.node)[:100]}' selects a field on a path that has not established excess <= 0 for that field at max_height",
                              path=[k for k, tr, ln in pre][-5:])
    res.count("rowwise_select_events", n_sel)
    res.floor("rowwise_select_events", 4)
    # the field the borehole removal starts from is the evaluated sparse field REORDERED: whatever produces it must be a helper
    # whose every return is a plain reordering of its points argument, applied to that field
    perms = sc.permutation_helpers(prog, fi)
    starts = [a for a in walk_no_nested(fi.node) if isinstance(a, ast.Assign) and isinstance(a.value, ast.Call) and isinstance(a.value.func, ast.Name)
              and any(isinstance(x, ast.Subscript) and isinstance(x.slice, ast.Slice) and isinstance(x.value, ast.Name) and isinstance(a.targets[0], ast.Name) and x.value.id == a.targets[0].id for x in ast.walk(fi.node))]
    sorters = [a for a in starts if len(a.value.args) >= 2 and not attr_chain(a.value.func).startswith(("field_optimization", "gen_shape"))]
    for a in sorters:
        okp = a.value.func.id in perms
        res.ob("R01.1", f"row-wise: {a.value.func.id}() returns the given points reordered (unfiltered comprehension over sorted(zip(distances, points)))", okp, prog.loc(fi, a))
        if not okp:
            res.violation("R01.1", "point_sort-not-a-permutation", prog.loc(fi, a), q, f"{a.value.func.id}() no longer returns a plain reordering of the points it is given: the reduced fields are not sub-fields of the evaluated sparse field")
    # sweep protocol: compute_g_functions before size
    seq = []
    for n in ast.walk(fi.node):
        if isinstance(n, ast.Call):
            c = attr_chain(n.func) or ""
            if c in ("self.ghe.compute_g_functions", "self.ghe.size"):
                seq.append((n.lineno, c.split(".")[-1]))
    seq = [c for _, c in sorted(seq)]
    ok = seq in (["compute_g_functions", "size"], [])
    res.ob("R01.3", f"row-wise sweep: compute_g_functions before size ({seq})", ok, prog.loc(fi, fi.node))
    if not ok:
        res.violation("R01.3", f"rowwise-sweep-protocol|{seq}", prog.loc(fi, fi.node), q, f"the exhaustive sweep calls {seq}; size() needs the multi-height g-functions first")


def _sign_from_trail(trail, x: Rat):
    """allowed signs of x according to a trail prefix (keys are 'sign(<key>) in {..}' possibly negated)"""
    from ..paths import _orient, ALL, FLIP

    o, flipped = _orient(x)
    k = o.key()
    allowed = set(ALL)
    found = False
    for key, tr, ln in trail:
        neg = key.startswith("not (")
        body = key[5:-1] if neg else key
        pre = f"sign({k}) in {{"
        if body.startswith(pre) and body.endswith("}"):
            s = set(body[len(pre):-1].split(","))
            found = True
            allowed &= (set(ALL) - s) if neg else s
    if not found:
        return None
    return {FLIP[a] for a in allowed} if flipped else allowed


# ---------------------------------------------------------------------------
def _protocol(prog: Program, res: Result):
    tmp = Result("C12")
    c12._check_freshness(prog, tmp)
    c12._check_search_log(prog, tmp)
    for o in tmp.obligations:
        if "find_design" in o.desc or "prepare_results" in o.desc:
            res.ob("R01.3", o.desc, o.ok, o.where)
        if o.desc.startswith("cost("):
            res.ob("R01.4", o.desc, o.ok, o.where)
    for f in tmp.findings:
        if "find_design" in f.key or "prepare_results" in f.key:
            res.violation("R01.3", f.key.split("|", 2)[-1], f.where, f.func, f.message)
        if "|cost|" in f.key:
            res.violation("R01.4", f.key.split("|", 2)[-1], f.where, f.func, f.message)
    for fn in tmp.functions:
        res.analysed(fn)


def _clamp_table(prog: Program, res: Result):
    n = 0
    finals = []
    for tag, desc, wtxt, ok, v, where, fi, f, fins in c02.solve_root_cases(prog):
        finals = finals or fins
        n += 1
        res.ob("R01.5", f"solve_root: {desc}", ok, where)
        if not ok:
            res.violation("R01.5", f"clamp|{tag}|{vkey(v)[:40]}", where, fi.qualname,
                          f"with {'a sign change between the bounds' if tag == 'differ' else 'the objective ' + tag.split('-')[1] + ' at both bounds'} solve_root returns {vkey(v)[:80]} instead of {wtxt}")
        if tag == "differ":
            for e in f.events:
                if e.kind == "BRENT":
                    args, kw = e.data
                    okf = args and isinstance(args[0], Rat) and args[0].equals(Rat.atom("objective_function"))
                    okt = isinstance(kw.get("xtol"), Rat) and kw["xtol"].equals(Rat.atom("abs_tol")) and isinstance(kw.get("rtol"), Rat) and kw["rtol"].equals(Rat.atom("rel_tol"))
                    res.ob("R01.5", "brentq solves the objective it tested, with the caller's tolerances (xtol=abs_tol, rtol=rel_tol)", bool(okf and okt), prog.loc(fi, e.node))
                    if not (okf and okt):
                        res.violation("R01.5", "brentq-args", prog.loc(fi, e.node), fi.qualname, "brentq is not called with the tested objective and the caller's tolerances")
    res.count("clamp_rows", n)
    res.floor("clamp_rows", 4)
    # size() leaves the object at the solver's value on every returning path
    from ..paths import describe_trail as _dt

    sfi, pubs = c02.size_publications(prog)
    for f, v, node, kind in pubs:
        ok = kind in ("solver", "min-met")
        res.ob("R01.5", "size(): the height the object is left at is the solver's value" if kind == "solver" else f"size(): a path leaves the height at {vkey(v)[:50]} ({kind})", ok, prog.loc(sfi, node))
        if not ok:
            res.violation("R01.5", f"size-unsolved|{vkey(v)[:50]}", prog.loc(sfi, node), sfi.qualname,
                          f"size() can return with the height left at {vkey(v)[:80]} without that being the solver's value, and without having established that the excess there is <= 0: "
                          "the returned design can exceed the temperature limits by more than the sizing tolerance", path=_dt(f)[-6:])
    fi = prog.func(f"{c02.UT}.solve_root")
    lower, upper = Rat.atom("lower"), Rat.atom("upper")
    # the objective is evaluated at the two bounds
    for f in [x for x in finals if x.facts.get("None == lower") is False and x.facts.get("None == upper") is False][:1]:
        objs = [e.data for e in f.events if e.kind == "OBJ"]
        ok = len(objs) >= 2 and objs[0].equals(lower) and objs[1].equals(upper)
        res.ob("R01.5", "solve_root evaluates the objective at lower and at upper before deciding", ok, prog.loc(fi, fi.node))
        if not ok:
            res.violation("R01.5", "bounds-not-evaluated", prog.loc(fi, fi.node), fi.qualname, f"solve_root decides on evaluations at {[o.key() for o in objs]} instead of (lower, upper)")


VARIANTS = [
    Variant("the unmet-design escape is taken whenever the flag is not None (seeded C01_g)", "break",
            [(SR, '            print(condition_msg)\n            if self.sim_params.continue_if_design_unmet:\n                print("Largest available configuration selected.")\n                selection_key = x_r_idx',
              '            print(condition_msg)\n            if self.sim_params.continue_if_design_unmet is not None:\n                print("Largest available configuration selected.")\n                selection_key = x_r_idx')], "R01.1"),
    Variant("row-wise: the exhaustive re-check starts at the unevaluated bisection midpoint (seeded C01_h)", "break",
            [(SR, "            spacing_l = spacing_step + spacing_high\n            target_spacings = []\n            current_spacing = spacing_high\n", "            spacing_l = spacing_step + spacing_m\n            target_spacings = []\n            current_spacing = spacing_m\n")], "R01.1"),
    Variant("row-wise: the feasible end is also moved when the midpoint fails", "break",
            [(SR, "                else:\n                    spacing_low = spacing_m\n                    low_e = t_e1\n", "                else:\n                    spacing_low = spacing_m\n                    spacing_high = spacing_m\n                    low_e = t_e1\n")], "R01.1"),
    Variant("size() returns early at min_height when the excess there is within 0.01 K (seeded C01_f)", "break",
            [(GHX, "        # Make the initial guess variable the average of the heights given\n        self.bhe.b.H = (self.sim_params.max_height", "        if local_objective(self.sim_params.min_height) <= 1.0e-2:\n            return\n\n        # Make the initial guess variable the average of the heights given\n        self.bhe.b.H = (self.sim_params.max_height")], "R01.5"),
    Variant("size() returns early at min_height when the limits are already met there", "benign",
            [(GHX, "        # Make the initial guess variable the average of the heights given\n        self.bhe.b.H = (self.sim_params.max_height", "        if local_objective(self.sim_params.min_height) <= 0.0:\n            return\n\n        # Make the initial guess variable the average of the heights given\n        self.bhe.b.H = (self.sim_params.max_height")]),
    Variant("size() returns early at max_height when the limits are met there", "break",
            [(GHX, "        # Make the initial guess variable the average of the heights given\n        self.bhe.b.H = (self.sim_params.max_height", "        if local_objective(self.sim_params.max_height) <= 0.0:\n            return\n\n        # Make the initial guess variable the average of the heights given\n        self.bhe.b.H = (self.sim_params.max_height")], "R01.5"),
    Variant("tail filter 'val < 0' flipped", "break",
            [(SR, "        for _, val in zip(sorted_num_bh, sorted_values):\n            if val < 0:", "        for _, val in zip(sorted_num_bh, sorted_values):\n            if val > 0:")], "R01.1"),
    Variant("negative_excess_values keeps the positive ones", "break",
            [(SR, "        negative_excess_values = [v for v in values if v <= 0.0]\n        excess_of_interest = max(negative_excess_values)\n\n        # but some", "        negative_excess_values = [v for v in values if v >= 0.0]\n        excess_of_interest = max(negative_excess_values)\n\n        # but some")], "R01.1"),
    Variant("final initialize_ghe dropped before the return", "break",
            [(SR, "        selection_key = keys[idx]\n        self.initialize_ghe(\n            self.coordinates_domain[selection_key], self.sim_params.max_height, self.fieldDescriptors[selection_key]\n        )\n        return selection_key", "        selection_key = keys[idx]\n        return selection_key")], "R01.2"),
    Variant("find_design forgets the final sizing", "break",
            [("ghedesigner.manager", "        self._search.ghe.size(method=TimestepType.HYBRID)\n        return 0", "        return 0")], "R01.3"),
    Variant("cost uses min", "break", [(GHX, "        t_excess = max(delta_t_max, delta_t_min)", "        t_excess = min(delta_t_max, delta_t_min)")], "R01.4"),
    Variant("solve_root: both-negative clamps to upper", "break", [(UT, "        x = lower\n    elif kg_plus_sign == 1 and kg_minus_sign == 1:\n        x = upper", "        x = upper\n    elif kg_plus_sign == 1 and kg_minus_sign == 1:\n        x = lower")], "R01.5"),
    Variant("row-wise sweep accepts a smaller drilling without checking feasibility", "break",
            [(SR, "                elif t_e <= 0.0 and total_drilling < best_drilling:", "                elif total_drilling < best_drilling:")], "R01.1"),
    Variant("first-bracket return hands back the right end's field", "break",
            [(SR, "            self.initialize_ghe(self.coordinates_domain[x_l_idx], self.sim_params.max_height)\n            return x_l_idx, self.coordinates_domain[x_l_idx]",
              "            self.initialize_ghe(self.coordinates_domain[x_r_idx], self.sim_params.max_height)\n            return x_r_idx, self.coordinates_domain[x_r_idx]")], "R01.1"),
    Variant("search_successive returns a field of the list but leaves the GHE on the last searched one", "break",
            [(SR, "        self.initialize_ghe(\n            selected_coordinates,\n            self.sim_params.max_height,\n            field_specifier=self.nested_fieldDescriptors[selection_key_outer][selection_key],\n        )\n        self.ghe.compute_g_functions()\n        self.ghe.size(method=TimestepType.HYBRID)\n\n        return selection_key, selected_coordinates",
              "        return selection_key, selected_coordinates")], "R01.2"),
    Variant("row-wise removal accepts the current field when it fails", "break",
            [(SR, "                    if t_e <= 0.0:\n                        # highT_e = T_e\n                        nbh_max = nbh", "                    if t_e >= 0.0:\n                        # highT_e = T_e\n                        nbh_max = nbh")], "R01.1"),
    Variant("row-wise removal starts from the dense field instead of the sparse one that was shown feasible", "break",
            [(SR, "                selected_coordinates = starting_field\n                selected_specifier = lower_field_specifier", "                selected_coordinates = upper_field[1:]\n                selected_specifier = lower_field_specifier")], "R01.1"),
    Variant("left end recorded with its excess at MIN height", "break",
            [(SR, "        self.calculated_temperatures[x_l_idx] = t_0_upper", "        self.calculated_temperatures[x_l_idx] = t_0_lower")], "R01.1"),
    Variant("check_bracket accepts equal signs", "break", [(UT, "    return sign_x_l < 0 < sign_x_r or sign_x_r < 0 < sign_x_l", "    return sign_x_l <= 0 < sign_x_r or sign_x_r < 0 < sign_x_l or sign_x_l == sign_x_r")], "R01.6"),
    Variant("calculate_excess no longer re-initialises the GHE", "break",
            [(SR, "    def calculate_excess(self, coordinates, h, field_specifier=\"N/A\"):\n        self.initialize_ghe(coordinates, h, field_specifier=field_specifier)\n        # Simulate after computing just one g-function\n        max_hp_eft, min_hp_eft = self.ghe.simulate(method=self.method)\n        t_excess = self.ghe.cost(max_hp_eft, min_hp_eft)\n        self.searchTracker.append([field_specifier, t_excess, max_hp_eft, min_hp_eft])\n\n        return t_excess\n\n    def search(self):\n        x_l_idx = 0",
              "    def calculate_excess(self, coordinates, h, field_specifier=\"N/A\"):\n        if len(coordinates) != self.ghe.nbh:\n            self.initialize_ghe(coordinates, h, field_specifier=field_specifier)\n        # Simulate after computing just one g-function\n        max_hp_eft, min_hp_eft = self.ghe.simulate(method=self.method)\n        t_excess = self.ghe.cost(max_hp_eft, min_hp_eft)\n        self.searchTracker.append([field_specifier, t_excess, max_hp_eft, min_hp_eft])\n\n        return t_excess\n\n    def search(self):\n        x_l_idx = 0")], "R01.7"),
    Variant("initialize_ghe computes the g-function before it sets the height", "break",
            [(SR, "        v_flow_system, m_flow_borehole = self.retrieve_flow(coordinates, self.ghe.bhe.fluid.rho)\n\n        self.ghe.bhe.b.H = h\n        borehole = self.ghe.bhe.b", "        v_flow_system, m_flow_borehole = self.retrieve_flow(coordinates, self.ghe.bhe.fluid.rho)\n\n        borehole = self.ghe.bhe.b"),
             (SR, "        # Initialize the GHE object\n        self.ghe = GHE(\n            v_flow_system,\n            b,\n            self.bhe_type,\n            fluid,\n            borehole,\n            pipe,\n            grout,\n            soil,\n            g_function,\n            self.sim_params,\n            self.hourly_extraction_ground_loads,\n            field_type=self.field_type,",
              "        borehole.H = h\n        # Initialize the GHE object\n        self.ghe = GHE(\n            v_flow_system,\n            b,\n            self.bhe_type,\n            fluid,\n            borehole,\n            pipe,\n            grout,\n            soil,\n            g_function,\n            self.sim_params,\n            self.hourly_extraction_ground_loads,\n            field_type=self.field_type,")], "R01.7"),
    Variant("excess_of_interest renamed", "benign",
            [(SR, "        excess_of_interest = max(negative_excess_values)\n\n        # but some conditions", "        excess_of_interest = max(negative_excess_values)\n        chosen_excess = excess_of_interest\n        excess_of_interest = chosen_excess\n\n        # but some conditions")]),
    Variant("max_height hoisted into a local in search()", "benign",
            [(SR, "        selection_key = keys[idx]\n        self.initialize_ghe(\n            self.coordinates_domain[selection_key], self.sim_params.max_height, self.fieldDescriptors[selection_key]\n        )",
              "        selection_key = keys[idx]\n        h_max = self.sim_params.max_height\n        self.initialize_ghe(self.coordinates_domain[selection_key], h_max, self.fieldDescriptors[selection_key])")]),
]
