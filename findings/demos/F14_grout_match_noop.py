"""F14 witness: to_single() of a double U-tube / coaxial exchanger must reproduce the effective borehole resistance Rb* within 0.1 %.
exit 0 = reproduced for every case, exit 1 = not"""
import os, sys
os.environ.setdefault("OMP_NUM_THREADS", "1")
from ghedesigner.borehole import GHEBorehole
from ghedesigner.borehole_heat_exchangers import CoaxialPipe, MultipleUTube
from ghedesigner.enums import DoubleUTubeConnType
from ghedesigner.media import GHEFluid, Grout, Pipe, Soil

soil = Soil(2.0, 2343493.0, 18.3)
fluid = GHEFluid(fluid_str="Water", percent=0.0)
bad = []
def case(label, bhe):
    rb = bhe.calc_effective_borehole_resistance()
    eq = bhe.to_single()
    rb_eq = eq.calc_effective_borehole_resistance()
    # what the equivalent's Rb* is once its delta-circuit is rebuilt from its own (solved) grout conductivity
    eq.update_thermal_resistances(eq.R_fp)
    rb_eq_fresh = eq.calc_effective_borehole_resistance()
    rel = abs(rb_eq_fresh - rb) / rb
    print(f"{label:34s} Rb*={rb:.5f}  equivalent: k_g={eq.grout.k:.4f} Rb*(as left)={rb_eq:.5f} Rb*(rebuilt)={rb_eq_fresh:.5f} rel.err={rel:.2%}")
    if rel > 1e-3:
        bad.append(label)

for kg in (0.8, 1.0, 2.0):
    r_out, r_in, s = 26.67 / 1000 / 2, 21.6 / 1000 / 2, 32.3 / 1000
    pos = Pipe.place_pipes(s, r_out, 2)
    pipe = Pipe(pos, r_in, r_out, s, 1.0e-6, 0.4, 1542000.0)
    bh = GHEBorehole(100.0, 2.0, 140.0 / 1000 / 2, x=0.0, y=0.0)
    m = 0.5 / 1000.0 * fluid.rho
    case(f"double U parallel, grout k={kg}", MultipleUTube(m, fluid, bh, pipe, Grout(kg, 3901000.0), soil, config=DoubleUTubeConnType.PARALLEL))
for kg in (1.0, 2.0):
    r_inner = [44.2 / 2000, 50.0 / 2000]; r_outer = [97.4 / 2000, 110.0 / 2000]
    pipe = Pipe((0, 0), r_inner, r_outer, 0, 1.0e-6, (0.4, 0.4), 1542000.0)
    bh = GHEBorehole(100.0, 2.0, 140.0 / 1000 / 2, x=0.0, y=0.0)
    m = 0.8 / 1000.0 * fluid.rho
    case(f"coaxial, grout k={kg}", CoaxialPipe(m, fluid, bh, pipe, Grout(kg, 3901000.0), soil))
if bad:
    print("effective borehole resistance NOT reproduced within 0.1 % for:", bad); sys.exit(1)
print("effective borehole resistance reproduced")
