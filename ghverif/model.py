"""E0 - program model: parsed modules, symbol index, name / method / call resolution.

The model is built from ``{module name: source text}``; ``load_sources`` reads the
package under the repository root as it is on disk *now*.  Self-validation builds
models from edited copies of that dictionary, so nothing is ever written to disk.
"""
from __future__ import annotations

import ast
import json
import os
from dataclasses import dataclass, field
from typing import Dict, List, Optional, Tuple

PKG = "ghedesigner"


class AnalysisError(Exception):
    """anchor vanished / shape not understood: the run fails closed (exit 2)"""


def repo_root() -> str:
    return os.environ.get("GHVERIF_REPO", "/repo")


def load_sources(root: Optional[str] = None) -> Dict[str, str]:
    root = root or repo_root()
    pkg_dir = os.path.join(root, PKG)
    if not os.path.isdir(pkg_dir):
        raise AnalysisError(f"package directory not found: {pkg_dir}")
    out: Dict[str, str] = {}
    for fn in sorted(os.listdir(pkg_dir)):
        if fn.endswith(".py"):
            mod = PKG if fn == "__init__.py" else f"{PKG}.{fn[:-3]}"
            with open(os.path.join(pkg_dir, fn), encoding="utf-8") as f:
                out[mod] = f.read()
    sdir = os.path.join(pkg_dir, "schemas")
    if os.path.isdir(sdir):
        for fn in sorted(os.listdir(sdir)):
            if fn.endswith(".json"):
                with open(os.path.join(sdir, fn), encoding="utf-8") as f:
                    out[f"schema:{fn}"] = f.read()
    pp = os.path.join(root, "pyproject.toml")
    if os.path.isfile(pp):
        with open(pp, encoding="utf-8") as f:
            out["file:pyproject.toml"] = f.read()
    return out


@dataclass
class FunctionInfo:
    qualname: str  # ghedesigner.mod.Class.meth or ghedesigner.mod.func
    module: str
    cls: Optional[str]  # class short name
    node: ast.FunctionDef
    parent: Optional["FunctionInfo"] = None  # for nested functions

    @property
    def name(self) -> str:
        return self.node.name

    @property
    def file(self) -> str:
        return self.module.replace(".", "/") + ".py"

    def params(self) -> List[str]:
        a = self.node.args
        return [x.arg for x in a.posonlyargs + a.args] + [x.arg for x in a.kwonlyargs]

    def is_static(self) -> bool:
        for d in self.node.decorator_list:
            if isinstance(d, ast.Name) and d.id in ("staticmethod",):
                return True
        return False

    def defaults(self) -> Dict[str, ast.expr]:
        a = self.node.args
        pos = a.posonlyargs + a.args
        out = {}
        for p, d in zip(pos[len(pos) - len(a.defaults):], a.defaults):
            out[p.arg] = d
        for p, d in zip(a.kwonlyargs, a.kw_defaults):
            if d is not None:
                out[p.arg] = d
        return out


@dataclass
class ClassInfo:
    qualname: str
    module: str
    node: ast.ClassDef
    bases: List[str] = field(default_factory=list)  # resolved qualnames or 'ext:<text>'
    methods: Dict[str, FunctionInfo] = field(default_factory=dict)

    @property
    def name(self) -> str:
        return self.node.name


@dataclass
class ModuleInfo:
    name: str
    tree: ast.Module
    source: str
    imports: Dict[str, str] = field(default_factory=dict)  # local name -> dotted target
    functions: Dict[str, FunctionInfo] = field(default_factory=dict)
    classes: Dict[str, ClassInfo] = field(default_factory=dict)
    constants: Dict[str, ast.expr] = field(default_factory=dict)

    @property
    def file(self) -> str:
        return self.name.replace(".", "/") + ".py"


class Program:
    def __init__(self, sources: Dict[str, str]):
        self.sources = sources
        self.modules: Dict[str, ModuleInfo] = {}
        self.schemas: Dict[str, dict] = {}
        self.files: Dict[str, str] = {}
        self.funcs: Dict[str, FunctionInfo] = {}
        self.classes: Dict[str, ClassInfo] = {}
        for name, src in sources.items():
            if name.startswith("schema:"):
                try:
                    self.schemas[name[7:]] = json.loads(src)
                except json.JSONDecodeError as e:
                    raise AnalysisError(f"schema {name[7:]} is not valid JSON: {e}")
            elif name.startswith("file:"):
                self.files[name[5:]] = src
            else:
                try:
                    tree = ast.parse(src)
                except SyntaxError as e:
                    raise AnalysisError(f"{name}: syntax error {e}")
                self.modules[name] = ModuleInfo(name, _normalise(tree), src)
        from .inline import index_tail_enumerations, fold_keyword_dicts, expand_star_calls, close_partials, expand_dispatch_tables, expand_value_lookups, expand_helper_comprehensions, propagate_record_fields, fold_unpack_temporaries, inline_unknown_helpers, propagate_attribute_aliases, unroll_literal_loops

        self.tail_enumerations = index_tail_enumerations({name: m.tree for name, m in self.modules.items()})
        self.star_calls = expand_star_calls({name: m.tree for name, m in self.modules.items()})
        self.folded_unpacks = fold_unpack_temporaries({name: m.tree for name, m in self.modules.items()})
        self.dispatch_tables = expand_dispatch_tables({name: m.tree for name, m in self.modules.items()})
        self.value_lookups = expand_value_lookups({name: m.tree for name, m in self.modules.items()})
        self.unrolled_loops = unroll_literal_loops({name: m.tree for name, m in self.modules.items()})
        self.closed_partials = close_partials({name: m.tree for name, m in self.modules.items()})
        self.expanded_comprehensions = expand_helper_comprehensions({name: m.tree for name, m in self.modules.items()})
        self.inlined_calls = inline_unknown_helpers({name: m.tree for name, m in self.modules.items()})
        self.keyword_dicts = fold_keyword_dicts({name: m.tree for name, m in self.modules.items()})
        self.resolved_records = propagate_record_fields({name: m.tree for name, m in self.modules.items()})
        self.resolved_aliases = propagate_attribute_aliases({name: m.tree for name, m in self.modules.items()})
        _canonical_calls([m.tree for m in self.modules.values()])
        for m in self.modules.values():
            self._index_module(m)
        for c in self.classes.values():
            self._resolve_bases(c)

    # ------------------------------------------------------------------ index
    def _index_module(self, m: ModuleInfo):
        for st in m.tree.body:
            if isinstance(st, ast.Import):
                for a in st.names:
                    m.imports[a.asname or a.name.split(".")[0]] = a.name if a.asname else a.name.split(".")[0]
            elif isinstance(st, ast.ImportFrom):
                base = st.module or ""
                for a in st.names:
                    m.imports[a.asname or a.name] = f"{base}.{a.name}"
            elif isinstance(st, ast.FunctionDef):
                fi = FunctionInfo(f"{m.name}.{st.name}", m.name, None, st)
                m.functions[st.name] = fi
                self._register_func(fi)
            elif isinstance(st, ast.ClassDef):
                ci = ClassInfo(f"{m.name}.{st.name}", m.name, st)
                m.classes[st.name] = ci
                self.classes[ci.qualname] = ci
                for sub in st.body:
                    if isinstance(sub, ast.FunctionDef):
                        fi = FunctionInfo(f"{ci.qualname}.{sub.name}", m.name, st.name, sub)
                        ci.methods[sub.name] = fi
                        self._register_func(fi)
            elif isinstance(st, ast.Assign) and len(st.targets) == 1 and isinstance(st.targets[0], ast.Name):
                m.constants[st.targets[0].id] = st.value
            elif isinstance(st, ast.AnnAssign) and isinstance(st.target, ast.Name) and st.value is not None:
                m.constants[st.target.id] = st.value

    def _register_func(self, fi: FunctionInfo):
        self.funcs[fi.qualname] = fi
        for sub in ast.walk(fi.node):
            if isinstance(sub, ast.FunctionDef) and sub is not fi.node:
                # nested (one level naming is enough for this code base)
                q = f"{fi.qualname}.<locals>.{sub.name}"
                if q not in self.funcs:
                    self.funcs[q] = FunctionInfo(q, fi.module, fi.cls, sub, parent=fi)

    def _resolve_bases(self, c: ClassInfo):
        m = self.modules[c.module]
        for b in c.node.bases:
            txt = ast.unparse(b)
            tgt = None
            if isinstance(b, ast.Name):
                r = self.resolve_name(m.name, b.id)
                if r and r[0] == "class":
                    tgt = r[1].qualname
            c.bases.append(tgt or f"ext:{txt}")

    # ------------------------------------------------------------------ lookup
    def module(self, name: str) -> ModuleInfo:
        if name not in self.modules:
            raise AnalysisError(f"module vanished: {name}")
        return self.modules[name]

    def func(self, qualname: str) -> FunctionInfo:
        if qualname not in self.funcs:
            raise AnalysisError(f"anchor vanished: function {qualname}")
        return self.funcs[qualname]

    def has_func(self, qualname: str) -> bool:
        return qualname in self.funcs

    def cls(self, qualname: str) -> ClassInfo:
        if qualname not in self.classes:
            raise AnalysisError(f"anchor vanished: class {qualname}")
        return self.classes[qualname]

    def mro(self, cq: str) -> List[ClassInfo]:
        out, seen, stack = [], set(), [cq]
        while stack:
            q = stack.pop(0)
            if q in seen or q not in self.classes:
                continue
            seen.add(q)
            c = self.classes[q]
            out.append(c)
            stack = [b for b in c.bases if not b.startswith("ext:")] + stack
        return out

    def method(self, cq: str, name: str) -> Optional[FunctionInfo]:
        for c in self.mro(cq):
            if name in c.methods:
                return c.methods[name]
        return None

    def subclasses(self, cq: str) -> List[ClassInfo]:
        return [c for c in self.classes.values() if c.qualname != cq and any(x.qualname == cq for x in self.mro(c.qualname))]

    def resolve_name(self, module: str, name: str, _depth: int = 0):
        """-> ('func', FunctionInfo) | ('class', ClassInfo) | ('const', module, ast.expr) |
        ('module', dotted) | ('ext', dotted) | None"""
        if _depth > 8 or module not in self.modules:
            return None
        m = self.modules[module]
        if name in m.functions:
            return ("func", m.functions[name])
        if name in m.classes:
            return ("class", m.classes[name])
        if name in m.constants:
            return ("const", module, m.constants[name])
        if name in m.imports:
            tgt = m.imports[name]
            if tgt in self.modules:
                return ("module", tgt)
            if "." in tgt:
                mod, _, attr = tgt.rpartition(".")
                if mod in self.modules:
                    return self.resolve_name(mod, attr, _depth + 1)
            return ("ext", tgt)
        return None

    def const_expr(self, module: str, name: str):
        r = self.resolve_name(module, name)
        if r and r[0] == "const":
            return r[1], r[2]
        return None

    # ------------------------------------------------------------------ helpers
    def enum_members(self, cq: str) -> List[str]:
        c = self.cls(cq)
        out = []
        for st in c.node.body:
            if isinstance(st, ast.Assign) and len(st.targets) == 1 and isinstance(st.targets[0], ast.Name):
                out.append(st.targets[0].id)
        return out

    def enum_values(self, cq: str) -> Dict[str, int]:
        """IntEnum / Enum with explicit ints and auto()"""
        c = self.cls(cq)
        out, last = {}, None
        for st in c.node.body:
            if isinstance(st, ast.Assign) and len(st.targets) == 1 and isinstance(st.targets[0], ast.Name):
                v = st.value
                if isinstance(v, ast.Constant) and isinstance(v.value, int):
                    last = v.value
                elif isinstance(v, ast.Call) and ast.unparse(v.func) == "auto":
                    last = 1 if last is None else last + 1
                else:
                    continue
                out[st.targets[0].id] = last
        return out

    def loc(self, fi_or_mod, node: ast.AST) -> str:
        mod = fi_or_mod.module if isinstance(fi_or_mod, FunctionInfo) else fi_or_mod
        return f"{mod.replace('.', '/')}.py:{src_line(node)}"


# ---------------------------------------------------------------------------
# small AST helpers shared by rules
# ---------------------------------------------------------------------------

def visible_nodes(prog: "Program", fi: "FunctionInfo"):
    """the nodes of a function plus those of the module-level constants it refers to by name (a table hoisted out of the
    function is still the function's table)"""
    mod_consts = prog.modules[fi.module].constants
    local_stores = {x.id for x in ast.walk(fi.node) if isinstance(x, ast.Name) and isinstance(x.ctx, ast.Store)} | set(fi.params())
    out = list(ast.walk(fi.node))
    seen = set()
    for x in list(out):
        if isinstance(x, ast.Name) and isinstance(x.ctx, ast.Load) and x.id in mod_consts and x.id not in local_stores and x.id not in seen:
            seen.add(x.id)
            out.extend(ast.walk(mod_consts[x.id]))
    return out


def unpinned_helper_calls(prog: "Program", fi: "FunctionInfo", node: ast.AST):
    """names of the functions called in `node` that are defined in the analysed package but are not among the pinned ones
    (ghverif/known_functions.txt) and that the load-time inliner did not expand: what they compute is not visible to a rule
    that reads the caller - the rule has to give up (fail closed) instead of judging the call by its spelling"""
    from .inline import known_functions

    known = known_functions()
    out = []
    for x in ast.walk(node):
        if not isinstance(x, ast.Call):
            continue
        f = x.func
        name = f.id if isinstance(f, ast.Name) else (f.attr if isinstance(f, ast.Attribute) and isinstance(f.value, ast.Name) and f.value.id in ("self", "cls") else None)
        if name is None:
            continue
        cands = [q for q in prog.funcs if q.split(".")[-1] == name]
        if cands and not any(q in known for q in cands):
            out.append(name)
        # a class of the package that is not a pinned one and has behaviour of its own (__post_init__, properties, methods):
        # constructing it computes things out of the caller's sight
        for cq, c in prog.classes.items():
            if c.name == name and c.methods and not any(k.startswith(cq + ".") for k in known):
                out.append(name)
    return out


def src_line(node: ast.AST):
    """line of the node in the source file (nodes moved by the load-time inliner are renumbered for ordering; see inline.renumber)"""
    return getattr(node, "src_lineno", getattr(node, "lineno", "?"))


def attr_chain(node: ast.AST) -> Optional[str]:
    """'self.bhe.b.H' for nested Attribute/Name, else None"""
    parts = []
    while isinstance(node, ast.Attribute):
        parts.append(node.attr)
        node = node.value
    if isinstance(node, ast.Name):
        parts.append(node.id)
        return ".".join(reversed(parts))
    return None


def call_name(node: ast.Call) -> Optional[str]:
    return attr_chain(node.func)


def norm_stmt(node: ast.AST) -> str:
    """normalised statement text (position-free key)"""
    return " ".join(ast.unparse(node).split())


def walk_no_nested(node: ast.AST):
    """ast.walk that does not descend into nested function / class definitions"""
    stack = [node]
    first = True
    while stack:
        n = stack.pop()
        if not first and isinstance(n, (ast.FunctionDef, ast.AsyncFunctionDef, ast.ClassDef, ast.Lambda)):
            continue
        first = False
        yield n
        stack.extend(ast.iter_child_nodes(n))


def bind_args(fi: FunctionInfo, call: ast.Call, skip_self: bool = True) -> Dict[str, ast.expr]:
    """bind positional and keyword arguments of ``call`` to the parameter names of ``fi``"""
    a = fi.node.args
    pos = [x.arg for x in a.posonlyargs + a.args]
    if skip_self and fi.cls and not fi.is_static() and pos and pos[0] in ("self", "cls"):
        pos = pos[1:]
    out: Dict[str, ast.expr] = {}
    for p, v in zip(pos, call.args):
        if isinstance(v, ast.Starred):
            break
        out[p] = v
    for kw in call.keywords:
        if kw.arg is not None:
            out[kw.arg] = kw.value
    return out


# ---------------------------------------------------------------------------
# syntax normalisation applied to every module before anything looks at it: forms without a semantic difference
# are mapped to one form, so that no rule has to know both
# ---------------------------------------------------------------------------

class _Normaliser(ast.NodeTransformer):
    def __init__(self):
        self.in_func = 0

    def visit_FunctionDef(self, n):
        self.in_func += 1
        self.generic_visit(n)
        self.in_func -= 1
        if len(n.body) > 1 and isinstance(n.body[0], ast.Expr) and isinstance(n.body[0].value, ast.Constant) and isinstance(n.body[0].value.value, str):
            n.body = n.body[1:]  # the docstring
        n.body = self._strip(n.body)
        return n

    visit_AsyncFunctionDef = visit_FunctionDef

    def visit_AnnAssign(self, n):
        # inside functions an annotated assignment is an assignment; a bare annotation is a no-op.
        # (class- and module-level annotations are kept: dataclass fields / typed constants are read as such)
        self.generic_visit(n)
        if not self.in_func:
            return n
        if n.value is None:
            return ast.copy_location(ast.Pass(), n)
        return ast.copy_location(ast.Assign(targets=[n.target], value=n.value, type_comment=None), n)


    # ---- comparisons: only <, <= (never >, >=) ; `not` pushed into a single comparison
    _FLIP = {ast.Gt: ast.Lt, ast.GtE: ast.LtE}
    _COMPL = {ast.Lt: ast.GtE, ast.LtE: ast.Gt, ast.Gt: ast.LtE, ast.GtE: ast.Lt, ast.Eq: ast.NotEq, ast.NotEq: ast.Eq,
              ast.Is: ast.IsNot, ast.IsNot: ast.Is, ast.In: ast.NotIn, ast.NotIn: ast.In}

    def visit_Compare(self, n):
        self.generic_visit(n)
        if len(n.ops) == 1 and type(n.ops[0]) in self._FLIP:
            return ast.copy_location(ast.Compare(left=n.comparators[0], ops=[self._FLIP[type(n.ops[0])]()], comparators=[n.left]), n)
        return n

    def visit_UnaryOp(self, n):
        self.generic_visit(n)
        if isinstance(n.op, ast.Not):
            x = n.operand
            if isinstance(x, ast.UnaryOp) and isinstance(x.op, ast.Not):
                return x.operand
            if isinstance(x, ast.Compare) and len(x.ops) == 1 and type(x.ops[0]) in self._COMPL:
                # (NaN is not considered: not (a < b) is taken as a >= b)
                c = ast.copy_location(ast.Compare(left=x.left, ops=[self._COMPL[type(x.ops[0])]()], comparators=x.comparators), n)
                return self.visit_Compare(c) if type(c.ops[0]) in self._FLIP else c
        return n

    # ---- two-way branches: the test is never a negation, a != / is not / not in, or a <= (the branches are swapped instead)
    def _positive(self, test):
        """-> (test', swapped?)"""
        if isinstance(test, ast.UnaryOp) and isinstance(test.op, ast.Not):
            return test.operand, True
        if isinstance(test, ast.Compare) and len(test.ops) == 1:
            op = type(test.ops[0])
            if op in (ast.NotEq, ast.IsNot, ast.NotIn):
                return ast.copy_location(ast.Compare(left=test.left, ops=[self._COMPL[op]()], comparators=test.comparators), test), True
            if op is ast.LtE:  # a <= b  ==  not (b < a)
                return ast.copy_location(ast.Compare(left=test.comparators[0], ops=[ast.Lt()], comparators=[test.left]), test), True
        return test, False

    def visit_If(self, n):
        self.generic_visit(n)
        n.body = self._strip(n.body)
        n.orelse = self._strip(n.orelse, allow_empty=True)
        if n.orelse and not (len(n.orelse) == 1 and isinstance(n.orelse[0], ast.If)) and not (len(n.body) == 1 and isinstance(n.body[0], ast.If) and False):
            t, sw = self._positive(n.test)
            if sw:
                n.test = t
                n.body, n.orelse = n.orelse, n.body
        return n

    def visit_IfExp(self, n):
        self.generic_visit(n)
        t, sw = self._positive(n.test)
        if sw:
            n.test = t
            n.body, n.orelse = n.orelse, n.body
        return n

    # ---- statements without an effect on any result: print(...) ; bare string / constant expressions other than docstrings stay
    LOG_ROOTS = ("logging", "logger", "log", "LOGGER", "_logger", "_log")
    LOG_METHODS = ("debug", "info", "warning", "warn", "error", "exception", "critical", "log")

    @classmethod
    def _is_print(cls, s):
        """print(...)  |  a statement-level logging call: logging.debug(..), logger.info(..), logging.getLogger(..).debug(..)"""
        if not (isinstance(s, ast.Expr) and isinstance(s.value, ast.Call)):
            return False
        f = s.value.func
        if isinstance(f, ast.Name):
            return f.id == "print"
        if isinstance(f, ast.Attribute) and f.attr in cls.LOG_METHODS:
            base = f.value
            if isinstance(base, ast.Call):  # logging.getLogger(...).debug(...)
                base = base.func
            while isinstance(base, ast.Attribute):
                base = base.value
            return isinstance(base, ast.Name) and base.id in cls.LOG_ROOTS
        return False

    def _strip(self, body, allow_empty=False):
        out = [s for s in body if not self._is_print(s)]
        if not out and body and not allow_empty:
            out = [ast.copy_location(ast.Pass(), body[0])]
        return out

    def visit_For(self, n):
        self.generic_visit(n)
        n.body = self._strip(n.body)
        n.orelse = self._strip(n.orelse, allow_empty=True)
        return n

    visit_While = visit_For

    def visit_With(self, n):
        self.generic_visit(n)
        n.body = self._strip(n.body)
        return n

    def visit_Try(self, n):
        self.generic_visit(n)
        n.body = self._strip(n.body)
        n.orelse = self._strip(n.orelse, allow_empty=True)
        n.finalbody = self._strip(n.finalbody, allow_empty=True)
        for h in n.handlers:
            h.body = self._strip(h.body)
        return n


def stored_param_aliases(prog: "Program", fi: "FunctionInfo") -> Dict[str, str]:
    """for a constructor: {parameter: 'self.attr'} for every parameter that the constructor itself, or the base constructor it calls
    with that parameter, stores unchanged as self.attr - and that neither rebinds.  After the store the two names denote one object."""
    out: Dict[str, str] = {}
    fn = fi.node
    if fi.name != "__init__" or not fi.cls:
        return out
    rebound = {x.id for x in ast.walk(fn) if isinstance(x, ast.Name) and isinstance(x.ctx, (ast.Store, ast.Del))}
    params = [a.arg for a in fn.args.args + fn.args.kwonlyargs if a.arg != "self"]

    def direct(f: ast.FunctionDef) -> Dict[str, str]:
        reb = {x.id for x in ast.walk(f) if isinstance(x, ast.Name) and isinstance(x.ctx, (ast.Store, ast.Del))}
        ps = {a.arg for a in f.args.args + f.args.kwonlyargs}
        d: Dict[str, str] = {}
        stores: Dict[str, int] = {}
        for s_ in ast.walk(f):
            if isinstance(s_, ast.Attribute) and isinstance(s_.ctx, ast.Store) and isinstance(s_.value, ast.Name) and s_.value.id == "self":
                stores[s_.attr] = stores.get(s_.attr, 0) + 1
        for s_ in f.body:
            if isinstance(s_, ast.Assign) and len(s_.targets) == 1 and isinstance(s_.targets[0], ast.Attribute) and isinstance(s_.targets[0].value, ast.Name) \
                    and s_.targets[0].value.id == "self" and isinstance(s_.value, ast.Name) and s_.value.id in ps and s_.value.id not in reb and stores.get(s_.targets[0].attr) == 1:
                d.setdefault(s_.value.id, "self." + s_.targets[0].attr)
        return d

    for p_, a_ in direct(fn).items():
        out[p_] = a_
    cq = f"{fi.module}.{fi.cls}"
    for s_ in fn.body:
        c = s_.value if isinstance(s_, ast.Expr) and isinstance(s_.value, ast.Call) else None
        if c is None or not isinstance(c.func, ast.Attribute) or c.func.attr != "__init__":
            continue
        recv = c.func.value
        args = list(c.args)
        base_init = None
        if isinstance(recv, ast.Call) and isinstance(recv.func, ast.Name) and recv.func.id == "super":
            for b in prog.mro(cq)[1:] if cq in prog.classes else []:
                if "__init__" in b.methods:
                    base_init = b.methods["__init__"]
                    break
        elif isinstance(recv, ast.Name):
            r = prog.resolve_name(fi.module, recv.id)
            if r is not None and r[0] == "class" and "__init__" in prog.classes[r[1]].methods if r and r[0] == "class" and r[1] in prog.classes else False:
                base_init = prog.classes[r[1]].methods["__init__"]
                args = args[1:]  # Base.__init__(self, ...)
        if base_init is None or any(isinstance(a, ast.Starred) for a in args) or any(k.arg is None for k in c.keywords):
            continue
        bps = [a.arg for a in base_init.node.args.args if a.arg != "self"]
        bound = dict(zip(bps, args))
        bound.update({k.arg: k.value for k in c.keywords})
        bd = direct(base_init.node)
        own_stores = {x.attr for x in ast.walk(fn) if isinstance(x, ast.Attribute) and isinstance(x.ctx, ast.Store) and isinstance(x.value, ast.Name) and x.value.id == "self"}
        for q_, attr in bd.items():
            v = bound.get(q_)
            if isinstance(v, ast.Name) and v.id in params and v.id not in rebound and attr.split(".")[1] not in own_stores:
                out.setdefault(v.id, attr)
    return out


def canonical_chain(prog: "Program", fi: "FunctionInfo", e: ast.expr, depth: int = 4) -> str:
    """the text of an attribute chain with its root resolved: a local bound once to a name / chain is replaced by that, a constructor
    parameter stored unchanged on the object (stored_param_aliases) by the attribute"""
    txt = ast.unparse(e)
    c = attr_chain(e) if isinstance(e, (ast.Attribute, ast.Name)) else None
    if c is None:
        return txt
    stored = stored_param_aliases(prog, fi)
    binds: Dict[str, list] = {}
    for s_ in ast.walk(fi.node):
        if isinstance(s_, ast.Assign) and len(s_.targets) == 1 and isinstance(s_.targets[0], ast.Name):
            binds.setdefault(s_.targets[0].id, []).append(s_.value)
    for _ in range(depth):
        root, _, rest = c.partition(".")
        if root in binds and len(binds[root]) == 1 and isinstance(binds[root][0], (ast.Name, ast.Attribute)) and attr_chain(binds[root][0]):
            c = attr_chain(binds[root][0]) + ("." + rest if rest else "")
        elif root in stored:
            c = stored[root] + ("." + rest if rest else "")
        else:
            break
    return c


# parameter lists of the pygfunction correlations the package calls (pygfunction/pipes.py of the pinned environment, read there):
# calls of them by keyword are read as the positional calls the rules were written against.  Part of the trusted base.
EXTERNAL_SIGNATURES = {
    "convective_heat_transfer_coefficient_circular_pipe": ("m_flow_pipe", "r_in", "mu_f", "rho_f", "k_f", "cp_f", "epsilon"),
    "convective_heat_transfer_coefficient_concentric_annulus": ("m_flow_pipe", "r_a_in", "r_a_out", "mu_f", "rho_f", "k_f", "cp_f", "epsilon"),
    "conduction_thermal_resistance_circular_pipe": ("r_in", "r_out", "k_p"),
}


def _canonical_calls(trees) -> None:
    """argument passing style is normalised for calls to functions / methods / constructors of the package:
    every argument that can be positional is positional (keywords naming the next parameters are moved over), the
    remaining keywords follow in parameter order.  A call is touched only if all package functions of that name (or the
    class of that name) agree on their parameter list, so no resolution by type is needed."""
    sigs: Dict[str, list] = {}

    def params_of(fn: ast.FunctionDef, method: bool):
        a = fn.args
        if a.vararg or a.posonlyargs:
            return None
        ps = [x.arg for x in a.args]
        static = any(isinstance(d, ast.Name) and d.id in ("staticmethod",) for d in fn.decorator_list)
        if method and not static and ps and ps[0] in ("self", "cls"):
            ps = ps[1:]
        return ps

    def collect(body, in_class):
        for n in body:
            if isinstance(n, (ast.FunctionDef, ast.AsyncFunctionDef)):
                sigs.setdefault(n.name, []).append(params_of(n, in_class is not None))
                collect_nested(n)
            elif isinstance(n, ast.ClassDef):
                init = next((b for b in n.body if isinstance(b, ast.FunctionDef) and b.name == "__init__"), None)
                if init is not None:
                    sigs.setdefault(n.name, []).append(params_of(init, True))
                else:
                    sigs.setdefault(n.name, []).append(None)  # inherited constructor: not canonicalised
                collect(n.body, n)

    def collect_nested(fn):
        for n in ast.walk(fn):
            if n is not fn and isinstance(n, (ast.FunctionDef, ast.AsyncFunctionDef)):
                sigs.setdefault(n.name, []).append(params_of(n, False))

    for t in trees:
        collect(t.body, None)
    sigs.pop("__init__", None)
    for nm_, ps_ in EXTERNAL_SIGNATURES.items():
        if nm_ not in sigs:
            sigs[nm_] = [list(ps_)]

    class C(ast.NodeTransformer):
        def visit_Call(self, n):
            self.generic_visit(n)
            nm = n.func.attr if isinstance(n.func, ast.Attribute) else (n.func.id if isinstance(n.func, ast.Name) else None)
            cands = sigs.get(nm)
            if not cands or any(c is None for c in cands) or any(c != cands[0] for c in cands):
                return n
            ps = cands[0]
            if any(isinstance(a, ast.Starred) for a in n.args) or any(k.arg is None for k in n.keywords) or len(n.args) > len(ps):
                return n
            kw = {k.arg: k for k in n.keywords}
            if any(k not in ps for k in kw) or any(p in kw for p in ps[: len(n.args)]):
                return n
            args = list(n.args)
            for p_ in ps[len(args):]:
                if p_ in kw:
                    args.append(kw.pop(p_).value)
                else:
                    break
            n.args = args
            n.keywords = [kw[p_] for p_ in ps if p_ in kw]
            return n

    for t in trees:
        C().visit(t)
        ast.fix_missing_locations(t)


def _normalise(tree: ast.Module) -> ast.Module:
    tree = _Normaliser().visit(tree)
    ast.fix_missing_locations(tree)
    return tree


# ---------------------------------------------------------------------------
# in-place mutation of module-level containers, directly or through a local alias
# ---------------------------------------------------------------------------

MUTATORS = ("append", "extend", "update", "pop", "clear", "insert", "setdefault", "add", "remove", "sort", "reverse", "discard", "popitem")


def module_container_mutations(prog: "Program", fi: "FunctionInfo"):
    """-> [(node, local name, module-level name, how)]: statements of fi that mutate a module-level list / dict / set
    in place, either under its own name or through a local bound to it by a plain copy  L = G  (may-alias; an
    intervening rebinding of L in the same block or at function level ends the alias)"""
    m = prog.modules[fi.module]
    mutable_globals = {k for k, v in m.constants.items() if isinstance(v, (ast.List, ast.Dict, ast.Set, ast.ListComp, ast.DictComp, ast.SetComp))
                       or (isinstance(v, ast.Call) and attr_chain(v.func) in ("list", "dict", "set", "defaultdict", "collections.defaultdict", "OrderedDict"))}
    if not mutable_globals:
        return []
    fn = fi.node
    stores = [x for x in walk_no_nested(fn) if isinstance(x, ast.Name) and isinstance(x.ctx, ast.Store)]
    local_names = {x.id for x in stores} | set(fi.params())
    alias = {}  # local -> [(lineno, global)]
    rebind = {}  # local -> [lineno] of non-alias bindings
    for s_ in walk_no_nested(fn):
        if isinstance(s_, ast.Assign) and len(s_.targets) == 1 and isinstance(s_.targets[0], ast.Name):
            t = s_.targets[0].id
            if isinstance(s_.value, ast.Name) and s_.value.id in mutable_globals and s_.value.id not in local_names:
                alias.setdefault(t, []).append((s_.lineno, s_.value.id))
            else:
                rebind.setdefault(t, []).append(s_.lineno)
    out = []

    def target_of(name: str, line: int):
        if name in mutable_globals and name not in local_names:
            return name
        best = None
        for a_line, g in alias.get(name, []):
            if a_line < line and not any(a_line < r < line for r in rebind.get(name, [])):
                best = g
        return best

    for n in walk_no_nested(fn):
        if isinstance(n, ast.Call) and isinstance(n.func, ast.Attribute) and isinstance(n.func.value, ast.Name) and n.func.attr in MUTATORS:
            g = target_of(n.func.value.id, n.lineno)
            if g:
                out.append((n, n.func.value.id, g, f".{n.func.attr}()"))
        if isinstance(n, (ast.Assign, ast.AugAssign, ast.Delete)):
            tg = n.targets if isinstance(n, (ast.Assign, ast.Delete)) else [n.target]
            for t in tg:
                if isinstance(t, ast.Subscript) and isinstance(t.value, ast.Name):
                    g = target_of(t.value.id, n.lineno)
                    if g:
                        out.append((n, t.value.id, g, "item assignment" if not isinstance(n, ast.Delete) else "del item"))
                if isinstance(n, ast.AugAssign) and isinstance(t, ast.Name):
                    g = target_of(t.id, n.lineno)
                    if g and (t.id != g or any(isinstance(x, ast.Global) and g in x.names for x in ast.walk(fn))):
                        out.append((n, t.id, g, "augmented assignment"))
    return out


# ---------------------------------------------------------------------------
# in-place mutation of a container parameter that may alias stored state at a call site
# ---------------------------------------------------------------------------

def _name_defs(fn: ast.AST, name: str):
    """[(value expr, position or None)] of every binding of `name` in fn: plain assignment, tuple unpacking (position), for-target"""
    out = []
    for s_ in walk_no_nested(fn):
        if isinstance(s_, ast.Assign):
            for t in s_.targets:
                if isinstance(t, ast.Name) and t.id == name:
                    out.append((s_.value, None))
                elif isinstance(t, (ast.Tuple, ast.List)):
                    for k_, e_ in enumerate(t.elts):
                        if isinstance(e_, ast.Name) and e_.id == name:
                            out.append((s_.value, k_))
        elif isinstance(s_, ast.For) and isinstance(s_.target, ast.Name) and s_.target.id == name:
            out.append((ast.Subscript(value=s_.iter, slice=ast.Constant(value=0), ctx=ast.Load()), None))  # an element of the iterable
    return out


MEMO_DECORATORS = ("lru_cache", "cache", "functools.lru_cache", "functools.cache", "cached_property", "functools.cached_property")


def memo_decorated(fi: "FunctionInfo") -> Optional[str]:
    """the caching decorator of a function (lru_cache, cache, ...), or None"""
    for d in getattr(fi.node, "decorator_list", []):
        c = attr_chain(d.func if isinstance(d, ast.Call) else d)
        if c in MEMO_DECORATORS:
            return c
    return None


def may_be_stored_state(prog: "Program", fi: "FunctionInfo", e: ast.expr, depth: int = 0, pos=None, _seen=None) -> Optional[str]:
    """does expression e (evaluated in fi) possibly denote an object that outlives the call - an attribute of an object,
    an element of such a container, a module-level container, or the result of a function that returns one of those?
    -> a short description of the stored object, or None.  Fresh objects (displays, comprehensions, constructor / numpy calls,
    copies, slices, arithmetic) are not stored state."""
    _seen = _seen if _seen is not None else set()
    if depth > 4:
        return None
    if isinstance(e, ast.Attribute):
        c = attr_chain(e)
        if c and not c.split(".")[0][:1].isupper():
            return c
        return None
    if isinstance(e, ast.Subscript):
        if isinstance(e.slice, ast.Slice):
            return None  # a slice of a list is a copy (numpy views are not tracked)
        inner = may_be_stored_state(prog, fi, e.value, depth, None, _seen)
        return f"{inner}[..]" if inner else None
    if isinstance(e, ast.Name):
        key = (fi.qualname, e.id)
        if key in _seen:
            return None
        _seen.add(key)
        m = prog.modules.get(fi.module)
        local_names = {x.id for x in walk_no_nested(fi.node) if isinstance(x, ast.Name) and isinstance(x.ctx, ast.Store)} | set(fi.params())
        if e.id not in local_names and m is not None and e.id in m.constants and isinstance(m.constants[e.id], (ast.List, ast.Dict, ast.Set)):
            return f"module-level {e.id}"
        for v, k_ in _name_defs(fi.node, e.id):
            r = may_be_stored_state(prog, fi, v, depth, k_, _seen)
            if r:
                return r
        return None
    if isinstance(e, ast.IfExp):
        return may_be_stored_state(prog, fi, e.body, depth, pos, _seen) or may_be_stored_state(prog, fi, e.orelse, depth, pos, _seen)
    if isinstance(e, ast.Tuple) and pos is not None and pos < len(e.elts):
        return may_be_stored_state(prog, fi, e.elts[pos], depth, None, _seen)
    if isinstance(e, ast.Call):
        c = attr_chain(e.func) or ""
        last = c.split(".")[-1]
        if last in ("copy", "deepcopy", "list", "dict", "set", "tuple", "sorted", "tolist", "array", "zeros", "zeros_like", "ones", "linspace", "arange"):
            return None
        # a function of the package that may return stored state
        cands = [f for q, f in prog.funcs.items() if f.name == last and (not c.startswith("self.") or f.cls is not None)]
        if len(cands) > 3:
            return None
        for g in cands:
            if memo_decorated(g):
                return f"the object {g.name}() keeps in its cache ({memo_decorated(g)})"
            for r_ in walk_no_nested(g.node):
                if isinstance(r_, ast.Return) and r_.value is not None:
                    rv = r_.value
                    if pos is not None and isinstance(rv, ast.Tuple) and pos < len(rv.elts):
                        rv = rv.elts[pos]
                    elif pos is not None and not isinstance(rv, ast.Name):
                        continue
                    got = may_be_stored_state(prog, g, rv, depth + 1, None, _seen)
                    if got:
                        return f"{got} (returned by {g.name})"
        return None
    return None


def param_container_mutations(fi: "FunctionInfo"):
    """[(node, param, how)]: item stores / mutator calls on a parameter of fi that is never rebound in fi"""
    ps = set(fi.params()) - {"self", "cls"}
    rebound = {x.id for x in walk_no_nested(fi.node) if isinstance(x, ast.Name) and isinstance(x.ctx, ast.Store)}
    out = []
    for n in walk_no_nested(fi.node):
        if isinstance(n, (ast.Assign, ast.AugAssign, ast.Delete)):
            tg = n.targets if isinstance(n, (ast.Assign, ast.Delete)) else [n.target]
            for t in tg:
                if isinstance(t, ast.Subscript) and isinstance(t.value, ast.Name) and t.value.id in ps and t.value.id not in rebound:
                    out.append((n, t.value.id, "item assignment"))
        if isinstance(n, ast.Call) and isinstance(n.func, ast.Attribute) and isinstance(n.func.value, ast.Name) and n.func.value.id in ps \
                and n.func.value.id not in rebound and n.func.attr in MUTATORS:
            out.append((n, n.func.value.id, f".{n.func.attr}()"))
    return out


def as_increment(stmt: ast.stmt):
    """x += v   |   x = x + v   |   x = v + x   ->  (name of x, v) ; anything else -> None  (plain names only)"""
    if isinstance(stmt, ast.AugAssign) and isinstance(stmt.op, ast.Add) and isinstance(stmt.target, ast.Name):
        return stmt.target.id, stmt.value
    if isinstance(stmt, ast.Assign) and len(stmt.targets) == 1 and isinstance(stmt.targets[0], ast.Name) and isinstance(stmt.value, ast.BinOp) and isinstance(stmt.value.op, ast.Add):
        t = stmt.targets[0].id
        l, r = stmt.value.left, stmt.value.right
        if isinstance(l, ast.Name) and l.id == t:
            return t, r
        if isinstance(r, ast.Name) and r.id == t:
            return t, l
    return None


def inline_single_defs(fn: ast.AST, expr: ast.expr, keep=(), depth: int = 4) -> ast.expr:
    """copy of expr in which every local that has exactly ONE binding in fn - a plain `name = <expression>` - is replaced by
    that expression (recursively): temporaries introduced or removed by a refactor do not change what a rule sees.
    Names in `keep`, parameters, loop / comprehension / with targets and names bound more than once stay."""
    import copy

    binds: Dict[str, list] = {}
    for n in ast.walk(fn):
        if isinstance(n, ast.Assign):
            for t in n.targets:
                for x in ast.walk(t):
                    if isinstance(x, ast.Name) and isinstance(x.ctx, ast.Store):
                        binds.setdefault(x.id, []).append(n if (len(n.targets) == 1 and t is x) else None)
        elif isinstance(n, (ast.AugAssign, ast.AnnAssign)) and isinstance(n.target, ast.Name):
            binds.setdefault(n.target.id, []).append(None)
        elif isinstance(n, (ast.For, ast.comprehension)):
            for x in ast.walk(n.target):
                if isinstance(x, ast.Name):
                    binds.setdefault(x.id, []).append(None)
        elif isinstance(n, ast.withitem) and n.optional_vars is not None:
            for x in ast.walk(n.optional_vars):
                if isinstance(x, ast.Name):
                    binds.setdefault(x.id, []).append(None)
        elif isinstance(n, ast.arg):
            binds.setdefault(n.arg, []).append(None)
    singles = {k: v[0].value for k, v in binds.items() if len(v) == 1 and v[0] is not None and k not in keep
               and not isinstance(v[0].value, (ast.Lambda, ast.ListComp, ast.DictComp, ast.SetComp, ast.GeneratorExp, ast.List, ast.Dict, ast.Set))}

    def sub(e, d):
        class T(ast.NodeTransformer):
            def visit_Name(self, n):
                if isinstance(n.ctx, ast.Load) and n.id in singles and d > 0:
                    return sub(copy.deepcopy(singles[n.id]), d - 1)
                return n

        return T().visit(e)

    return sub(copy.deepcopy(expr), depth)


def attr_alias_mutations(fi: "FunctionInfo"):
    """[(node, local, attribute chain, how)]: a local bound by a plain copy  L = self.a.b  (or <param>.a) that is then changed
    in place - mutator call, item store, or  L += .. / L *= ..  when L is used as a container (len(L), L[..], iteration) -
    with no rebinding of L in between.  The stored object changes, so the next call sees another value."""
    fn = fi.node
    ps = set(fi.params())
    alias, rebind = {}, {}
    for s_ in walk_no_nested(fn):
        if isinstance(s_, ast.Assign) and len(s_.targets) == 1 and isinstance(s_.targets[0], ast.Name):
            t = s_.targets[0].id
            c = attr_chain(s_.value) if isinstance(s_.value, ast.Attribute) else None
            if c and (c.startswith("self.") or c.split(".")[0] in ps):
                alias.setdefault(t, []).append((s_.lineno, c))
            else:
                rebind.setdefault(t, []).append(s_.lineno)
    if not alias:
        return []

    def container_use(name):
        for n in walk_no_nested(fn):
            if isinstance(n, ast.Call) and attr_chain(n.func) == "len" and len(n.args) == 1 and isinstance(n.args[0], ast.Name) and n.args[0].id == name:
                return True
            if isinstance(n, ast.Subscript) and isinstance(n.value, ast.Name) and n.value.id == name:
                return True
            if isinstance(n, (ast.For, ast.comprehension)) and isinstance(n.iter, ast.Name) and n.iter.id == name:
                return True
        return False

    def target_of(name, line):
        best = None
        for a_line, c in alias.get(name, []):
            if a_line < line and not any(a_line < r < line for r in rebind.get(name, [])):
                best = c
        return best

    out = []
    for n in walk_no_nested(fn):
        if isinstance(n, ast.Call) and isinstance(n.func, ast.Attribute) and isinstance(n.func.value, ast.Name) and n.func.attr in MUTATORS:
            c = target_of(n.func.value.id, n.lineno)
            if c:
                out.append((n, n.func.value.id, c, f".{n.func.attr}()"))
        if isinstance(n, (ast.Assign, ast.Delete)):
            for t in n.targets:
                if isinstance(t, ast.Subscript) and isinstance(t.value, ast.Name):
                    c = target_of(t.value.id, n.lineno)
                    if c:
                        out.append((n, t.value.id, c, "item assignment"))
        if isinstance(n, ast.AugAssign):
            t = n.target
            if isinstance(t, ast.Subscript) and isinstance(t.value, ast.Name):
                c = target_of(t.value.id, n.lineno)
                if c:
                    out.append((n, t.value.id, c, "item assignment"))
            if isinstance(t, ast.Name) and isinstance(n.op, (ast.Add, ast.Mult)):
                c = target_of(t.id, n.lineno)
                if c and container_use(t.id):
                    out.append((n, t.id, c, f"augmented assignment ({'+=' if isinstance(n.op, ast.Add) else '*='} on a list extends it in place)"))
    return out
