"""F11 witness with real loads: RowWise removal branch leaves selected_coordinates None.
Lot: 30 m x 30 m square, spacing 10..25 -> the sparse (max spacing) field has a handful of boreholes.
Step 1: measure max EFT at max height for N and N-1 boreholes of the sparse field (same ordering as the search).
Step 2: put max_eft between the two and run the real search."""
import sys, math
from ghedesigner.manager import GHEManager
from ghedesigner.enums import TimestepType
from ghedesigner.search_routines import RowWiseModifiedBisectionSearch
from ghedesigner.rowwise import field_optimization_fr, gen_shape
from math import sqrt

def mk(max_eft):
    g=GHEManager()
    g.set_single_u_tube_pipe(inner_diameter=0.03404, outer_diameter=0.04216, shank_spacing=0.01856, roughness=1.0e-6, conductivity=0.4, rho_cp=1542000.0)
    g.set_soil(conductivity=2.0, rho_cp=2343493.0, undisturbed_temp=18.3); g.set_grout(conductivity=1.0, rho_cp=3901000.0); g.set_fluid()
    g.set_borehole(height=96.0, buried_depth=2.0, diameter=0.140)
    g.set_simulation_parameters(num_months=240, max_eft=max_eft, min_eft=-50, max_height=135, min_height=60)
    g.set_ground_loads_from_hourly_list([-8000.0]*8760)   # constant heat rejection
    g.set_geometry_constraints_rowwise(perimeter_spacing_ratio=None, max_spacing=25, min_spacing=10, spacing_step=0.1, max_rotation=0, min_rotation=-90, rotate_step=45, property_boundary=[[5,5],[35,5],[35,35],[5,35]], no_go_boundaries=[])
    g.set_design(flow_rate=0.3, flow_type_str="borehole")
    return g

g=mk(35)
d=g._design
s=RowWiseModifiedBisectionSearch(d.V_flow,d.borehole,d.bhe_type,d.fluid,d.pipe,d.grout,d.soil,d.sim_params,d.hourly_extraction_ground_loads,d.geometric_constraints,method=d.method,flow_type=d.flow_type,search=False)
gc=d.geometric_constraints
pb,ng=gen_shape(gc.property_boundary, gc.no_go_boundaries)
lower,_=field_optimization_fr(gc.max_spacing, gc.rotate_step, pb, ng_zones=ng, rotate_start=gc.min_rotation, rotate_stop=gc.max_rotation)
upper,_=field_optimization_fr(gc.min_spacing, gc.rotate_step, pb, ng_zones=ng, rotate_start=gc.min_rotation, rotate_stop=gc.max_rotation)
N=len(lower); print("sparse field size", N, "dense field size", len(upper)); sys.stdout.flush()
def dist(t,o): return sqrt((t[0]-o[0])**2+(t[1]-o[1])**2)
start=[x for _,x in sorted(zip([dist(lower[0],o) for o in lower], [list(map(float,p)) for p in lower]), reverse=True)]
def max_eft_of(field):
    s.initialize_ghe(field, 135.0)
    mx,mn=s.ghe.simulate(method=TimestepType.HYBRID)
    return mx
mN=max_eft_of(start); mN1=max_eft_of(start[1:]); m1=max_eft_of([[0,0]])
print("max EFT at 135 m: N=%d -> %.4f ; N-1 -> %.4f ; 1 borehole -> %.4f"%(N,mN,mN1,m1)); sys.stdout.flush()
limit=(mN+mN1)/2
print("choose max_eft =",limit)
g=mk(limit)
try:
    g.find_design()
    print("design found:", g._search.ghe.nbh, g._search.ghe.bhe.b.H)
except Exception as e:
    import traceback; traceback.print_exc()
    print("RESULT:", type(e).__name__, e)
