"""ghverif: repository-specific static analysers for BETSRG/GHEDesigner.

Nothing in here imports or executes the code under analysis; every check
parses the sources found under the repository root at the time it runs.
"""

__all__ = ["model", "sym", "paths", "report"]
