"""findings, obligations, evidence files, known-findings handling"""
from __future__ import annotations

import hashlib
import json
import os
from dataclasses import dataclass, field
from typing import Any, Dict, List, Optional

VERIF_DIR = os.path.dirname(os.path.dirname(os.path.abspath(__file__)))
EVIDENCE_DIR = os.path.join(VERIF_DIR, "evidence")
REPLAY_DIR = os.path.join(EVIDENCE_DIR, "replay")
KNOWN_FILE = os.path.join(VERIF_DIR, "known_findings.json")


@dataclass
class Finding:
    prop: str
    rule: str
    key: str  # position-free identity: rule + function + normalised construct / path signature
    where: str  # file:line
    func: str
    message: str
    details: Dict[str, Any] = field(default_factory=dict)

    def digest(self) -> str:
        return hashlib.sha1(f"{self.prop}|{self.rule}|{self.key}".encode()).hexdigest()[:12]

    def as_dict(self) -> dict:
        return {
            "property": self.prop,
            "rule": self.rule,
            "key": self.key,
            "where": self.where,
            "function": self.func,
            "message": self.message,
            "details": self.details,
        }


@dataclass
class Obligation:
    rule: str
    desc: str
    ok: bool
    where: str = ""


class Result:
    def __init__(self, prop: str):
        self.prop = prop
        self.findings: List[Finding] = []
        self.obligations: List[Obligation] = []
        self.counts: Dict[str, int] = {}
        self.floors: Dict[str, int] = {}
        self.functions: List[str] = []
        self.samples: List[Any] = []
        self.notes: List[str] = []
        self.rules_run: List[str] = []

    # -- recording
    def ob(self, rule: str, desc: str, ok: bool, where: str = "") -> bool:
        self.obligations.append(Obligation(rule, desc, ok, where))
        return ok

    def violation(self, rule: str, key: str, where: str, func: str, message: str, **details):
        f = Finding(self.prop, rule, f"{rule}|{func}|{key}", where, func, message, details)
        if not any(x.key == f.key for x in self.findings):
            self.findings.append(f)
        return f

    def count(self, name: str, n: int = 1):
        self.counts[name] = self.counts.get(name, 0) + n

    def floor(self, name: str, n: int):
        self.floors[name] = n

    def analysed(self, qualname: str):
        if qualname not in self.functions:
            self.functions.append(qualname)

    def sample(self, s: Any):
        if len(self.samples) < 12:
            self.samples.append(s)

    def floor_failures(self) -> List[str]:
        return [f"{k}: {self.counts.get(k, 0)} < floor {v}" for k, v in self.floors.items() if self.counts.get(k, 0) < v]


def load_known() -> List[dict]:
    if not os.path.isfile(KNOWN_FILE):
        return []
    with open(KNOWN_FILE, encoding="utf-8") as f:
        return json.load(f).get("findings", [])


def write_replay(f: Finding) -> str:
    os.makedirs(REPLAY_DIR, exist_ok=True)
    path = os.path.join(REPLAY_DIR, f"{f.prop}-{f.digest()}.json")
    with open(path, "w", encoding="utf-8") as fh:
        json.dump(f.as_dict(), fh, indent=1, sort_keys=True)
    return path


def write_evidence(res: Result, tier: str, seed: int, wall_s: float, explanation: str, assumptions: List[str],
                   n_violations: int, extra: Optional[dict] = None) -> str:
    os.makedirs(EVIDENCE_DIR, exist_ok=True)
    rules = sorted({o.rule for o in res.obligations})
    nontrivial = len({(o.rule, o.desc) for o in res.obligations})
    cov = {
        "explanation": explanation,
        "obligations": len(res.obligations),
        "discharged": sum(1 for o in res.obligations if o.ok),
        "evaluations": max(1, len(res.obligations)),
        "distinct_nontrivial": nontrivial,
        "rule": "one evaluation = one rule instance (obligation) checked on a concrete construct of the parsed "
                "working tree; distinct = different (rule, construct/path) pairs; an instance is non-trivial because "
                "it is only created when its anchor pattern matched a real site",
        "samples": res.samples or [f"{o.rule}: {o.desc}" for o in res.obligations[:8]],
        "rules": rules,
        "functions_analysed": res.functions,
        "counts": res.counts,
        "floors": res.floors,
        "exhaustive": True,
        "notes": res.notes,
    }
    if extra:
        cov.update(extra)
    ev = {
        "property_id": res.prop,
        "tier": tier,
        "seed": seed,
        "level": "other",
        "coverage": cov,
        "assumptions": assumptions,
        "wall_s": round(wall_s, 3),
        "violations": n_violations,
    }
    path = os.path.join(EVIDENCE_DIR, f"{res.prop}.json")
    tmp = path + ".tmp"
    with open(tmp, "w", encoding="utf-8") as fh:
        json.dump(ev, fh, indent=1)
    os.replace(tmp, path)
    return path
