"""alpha-renaming of every function-local variable of the package (behaviour preserving): robustness probe for the rules.
usage: /venv/bin/python tools/rename_locals.py [Cxx ...]     prints, per check, whether the verdict is unchanged"""
import ast
import sys

sys.path.insert(0, "/verif")


class _Renamer(ast.NodeTransformer):
    def __init__(self, names, suffix):
        self.names, self.suffix = names, suffix

    def visit_Name(self, n):
        if n.id in self.names:
            return ast.copy_location(ast.Name(id=n.id + self.suffix, ctx=n.ctx), n)
        return n


def _locals_of(fn):
    a = fn.args
    params = {x.arg for x in a.args + a.kwonlyargs + a.posonlyargs}
    if a.vararg:
        params.add(a.vararg.arg)
    if a.kwarg:
        params.add(a.kwarg.arg)
    glob, loc, nested_params = set(), set(), set()
    for n in ast.walk(fn):
        if isinstance(n, (ast.Global, ast.Nonlocal)):
            glob |= set(n.names)
        if isinstance(n, ast.Name) and isinstance(n.ctx, ast.Store):
            loc.add(n.id)
        if n is not fn and isinstance(n, (ast.FunctionDef, ast.Lambda)):
            b = n.args
            for x in b.args + b.kwonlyargs + b.posonlyargs:
                nested_params.add(x.arg)
    return loc - params - glob - nested_params - {"_"}


def rename_module(src: str, suffix: str = "_x") -> str:
    tree = ast.parse(src)

    def do(node):
        for ch in ast.iter_child_nodes(node):
            if isinstance(ch, (ast.FunctionDef, ast.AsyncFunctionDef)):
                _Renamer(_locals_of(ch), suffix).visit(ch)
            else:
                do(ch)

    do(tree)
    return ast.unparse(tree) + "\n"


def rename_sources(sources: dict, suffix: str = "_x") -> dict:
    return {m: (s if m.startswith(("schema:", "file:")) else rename_module(s, suffix)) for m, s in sources.items()}


if __name__ == "__main__":
    from ghverif.cli import RULES, run_check
    from ghverif.model import AnalysisError, load_sources

    src = load_sources("/repo")
    out = rename_sources(src)
    for m, s in out.items():
        if not m.startswith(("schema:", "file:")):
            compile(s, m, "exec")
    for p in sys.argv[1:] or list(RULES):
        try:
            _, r0 = run_check(p, src, "quick")
            _, r1 = run_check(p, out, "quick")
            k0 = {f.key for f in r0.findings}
            k1 = {f.key for f in r1.findings}
            print(p, "ok" if k0 == k1 and not r1.floor_failures() else f"DIFF new={sorted(k1 - k0)[:3]} floors={r1.floor_failures()}")
        except AnalysisError as e:
            print(p, "ANALYSIS-ERROR", str(e)[:300])
        except Exception as e:  # noqa: BLE001
            import traceback
            print(p, "CRASH", type(e).__name__, str(e)[:200]); traceback.print_exc()
