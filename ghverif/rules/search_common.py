"""shared by C01 / C02 / C05: path analysis of the search classes in search_routines.py

calculate_excess(field, height) is modelled as a pure function EXC(field, height) of its two
arguments (it re-initialises the GHE with exactly these, see C13 / R13.6), so the sign tests the
searches make become assumptions on EXC atoms and the rules can ask which field / height a
decision was taken on.
"""
from __future__ import annotations

import ast
from dataclasses import dataclass, field
from typing import List, Optional

from .. import sym
from ..model import AnalysisError, Program, attr_chain, norm_stmt
from ..paths import Const, Engine, Hooks, Opaque, Seq, State, vkey, describe_trail
from ..sym import Rat

SR = "ghedesigner.search_routines"
MAXH = Rat.atom("self.sim_params.max_height")
MINH = Rat.atom("self.sim_params.min_height")


def exc(field_val, h) -> Rat:
    return sym._plain_call("EXC", [Rat.atom(f"F<{vkey(field_val)}>"), h if isinstance(h, Rat) else Rat.atom(f"H<{vkey(h)}>")])


class SearchHooks(Hooks):
    def __init__(self, opaque_names=()):
        self.opaque_names = set(opaque_names)

    def _right_name(self, eng):
        """local that holds the right end of the bisection interval of the analysed function (None if it has none)"""
        if not hasattr(self, "_rn"):
            try:
                self._rn = bisect_names(eng.fi.node)["right"]
            except AnalysisError:
                self._rn = None
        return self._rn

    def on_call(self, node, fname, args, kwargs, st, eng):
        if fname == "self.calculate_excess" and len(args) >= 2:
            e = exc(args[0], args[1])
            rn = self._right_name(eng)
            if rn is not None and rn in st.env and not any(ev.kind == "XR0" for ev in st.events):
                # the right end of the interval is what its local holds when the first candidate is evaluated (it may have been
                # given a default, a marker and then its value by then)
                st.emit("XR0", st.env.get(rn), node)
            spec = kwargs.get("field_specifier", args[2] if len(args) > 2 else None)
            st.emit("EVAL", (args[0], args[1], spec, e, _domain_index(node.args[0], st, eng)), node)
            return e
        if fname == "self.initialize_ghe" and len(args) >= 2:
            spec = kwargs.get("field_specifier", args[2] if len(args) > 2 else None)
            st.emit("INIT", (args[0], args[1], spec, _domain_index(node.args[0], st, eng)), node)
            return Const(None)
        if fname in ("self.ghe.compute_g_functions", "self.ghe.size"):
            st.emit("GHE", fname.split(".")[-1], node)
            return Const(None)
        if fname == "self.search":
            st.emit("SEARCH", None, node)
            return Seq([Rat.atom("SEARCH_KEY"), Rat.atom("SEARCH_COORDS")], "tuple")
        if fname == "print":
            return Const(None)
        return None

    def on_assign(self, key, val, stmt, st, eng):
        if isinstance(val, Opaque) and "[" not in key and "." not in key:
            # keep un-modelled locals symbolic under their own name so later uses stay comparable
            k = sum(1 for e in st.events if e.kind == "OPAQUE" and e.data[0] == key and e.node is stmt)
            st.env[key] = Rat.atom(f"{key}#{stmt.lineno}" + (f".{k}" if k else ""))  # fresh per execution of the statement
            st.emit("OPAQUE", (key, val.text), stmt)
        if key.startswith("self.calculated_temperatures["):
            idx = None
            for t in getattr(stmt, "targets", []):
                if isinstance(t, ast.Subscript) and attr_chain(t.value) == "self.calculated_temperatures":
                    idx = eng.eval(t.slice, st)
            st.emit("CT_STORE", (key, val, idx if isinstance(idx, Rat) else None), stmt)


def _domain_index(arg: ast.expr, st, eng):
    """index Rat if the argument is self.coordinates_domain[<idx>], else None"""
    if isinstance(arg, ast.Subscript) and attr_chain(arg.value) == "self.coordinates_domain" and not isinstance(arg.slice, ast.Slice):
        v = eng.eval(arg.slice, st)
        return v if isinstance(v, Rat) else None
    if isinstance(arg, ast.Name):
        v = st.env.get(arg.id)
        if isinstance(v, Rat):
            from ..paths import _single_atom

            a = _single_atom(v)
            if a and a.startswith("self.coordinates_domain["):
                return None
    return None


def seed(s: ast.stmt) -> bool:
    for n in ast.walk(s):
        if isinstance(n, ast.Call):
            c = attr_chain(n.func) or ""
            if c in ("self.calculate_excess", "self.initialize_ghe", "self.search") or c.startswith("self.ghe."):
                return True
        if isinstance(n, ast.Subscript) and attr_chain(n.value) == "self.calculated_temperatures" and isinstance(n.ctx, ast.Store):
            return True
    return False


@dataclass
class SearchPath:
    state: State
    exit_kind: str  # return | raise
    ret: object
    events: list

    def evals(self):
        return [e for e in self.events if e.kind == "EVAL"]

    def inits(self):
        """events that (re)build the live GHE: initialize_ghe(field, h) and calculate_excess(field, h)"""
        return [e for e in self.events if e.kind in ("INIT", "EVAL")]


def run_search(prog: Program, qual: str, loop_bound: int = 1, extra_seed=None) -> tuple:
    fi = prog.func(qual)
    eng = Engine(prog, fi, SearchHooks(), loop_bound=loop_bound, max_paths=200000)
    sd = seed if extra_seed is None else (lambda s: seed(s) or extra_seed(s))
    eng.slice(fi.node.body, sd)
    st = State()
    for p in fi.params():
        st.env[p] = Rat.atom(p)
    out = []
    for f in eng.run_function(st):
        if f.exit is None:
            out.append(SearchPath(f, "falls-off", None, f.events))
        elif f.exit[0] in ("return", "raise"):
            out.append(SearchPath(f, f.exit[0], f.exit[1], f.events))
    return fi, eng, out


def assumed(st: State, cond_key_part: str) -> Optional[bool]:
    """truth of the first trail entry whose key contains the text"""
    for k, tr, ln in st.trail:
        if cond_key_part in k:
            neg = k.startswith("not (")
            return (not tr) if False else (tr if not neg else False)
    return None


def facts_with(st: State, text: str):
    return [(k, tr) for k, tr, ln in st.trail if text in k]


# ---------------------------------------------------------------------------
# alternative shape of the final pick:  key = min|max(<feasible keys>, key=<criterion>)
# ---------------------------------------------------------------------------

def argopt_final_pick(fn: ast.FunctionDef):
    """recognise   <feasible> = {k: v for k, v in self.calculated_temperatures.items() if v <= 0}  (or a list of keys)
                   <key> = min|max(<feasible>, key=<criterion>)
    -> dict(node, func, filter_ok, criterion) or None.  criterion in {'size', 'excess', 'index', 'unknown'}"""
    from ..model import walk_no_nested

    defs = {}
    for s_ in walk_no_nested(fn):
        if isinstance(s_, ast.Assign) and len(s_.targets) == 1 and isinstance(s_.targets[0], ast.Name):
            defs.setdefault(s_.targets[0].id, []).append(s_)
    for s_ in walk_no_nested(fn):
        if not (isinstance(s_, ast.Assign) and isinstance(s_.value, ast.Call) and attr_chain(s_.value.func) in ("min", "max") and s_.value.args):
            continue
        call = s_.value
        src = call.args[0]
        comp = src
        if isinstance(src, ast.Name) and src.id in defs:
            comp = defs[src.id][-1].value
        if not isinstance(comp, (ast.DictComp, ast.ListComp, ast.GeneratorExp, ast.SetComp)):
            continue
        gens = comp.generators
        if len(gens) != 1 or "self.calculated_temperatures" not in ast.unparse(gens[0].iter):
            continue
        # names bound by the generator: (key, value) of .items(), or value of .values()
        tgt = gens[0].target
        names = [e.id for e in tgt.elts] if isinstance(tgt, ast.Tuple) else [tgt.id]
        val_name = names[-1] if ".items()" in ast.unparse(gens[0].iter) or ".values()" in ast.unparse(gens[0].iter) else None
        filter_ok = False
        for t in gens[0].ifs:
            if isinstance(t, ast.Compare) and len(t.ops) == 1:
                l, op, r = t.left, t.ops[0], t.comparators[0]
                z = lambda x: isinstance(x, ast.Constant) and isinstance(x.value, (int, float)) and x.value == 0  # noqa: E731
                lhs = ast.unparse(l)
                if (isinstance(op, (ast.Lt, ast.LtE)) and z(r) and (lhs == val_name or lhs.startswith("self.calculated_temperatures["))) or \
                        (isinstance(op, (ast.Gt, ast.GtE)) and z(l) and (ast.unparse(r) == val_name or ast.unparse(r).startswith("self.calculated_temperatures["))):
                    filter_ok = True
        kw = {k.arg: k.value for k in call.keywords}
        crit = "index" if "key" not in kw else "unknown"
        if "key" in kw:
            ktxt = ast.unparse(kw["key"])
            if "len(self.coordinates_domain[" in ktxt:
                crit = "size"
            elif ktxt.endswith(".get") or "calculated_temperatures" in ktxt or "abs(" in ktxt:
                crit = "excess"
        return {"node": s_, "func": attr_chain(call.func), "filter_ok": filter_ok, "criterion": crit, "target": s_.targets[0].id if isinstance(s_.targets[0], ast.Name) else None}
    return None


def concrete_predicate(fn: ast.FunctionDef, values: list):
    """the value of a function that is a single  return <comparisons / and / or / not over its parameters and constants>  at the
    given constant arguments - None when the function is not of that form"""
    body = [s_ for s_ in fn.body if not (isinstance(s_, ast.Expr) and isinstance(s_.value, ast.Constant))]
    ps = [a.arg for a in fn.args.args]
    if len(body) != 1 or not isinstance(body[0], ast.Return) or body[0].value is None or len(values) != len(ps):
        return None
    env = dict(zip(ps, values))

    class _No(Exception):
        pass

    def ev(node):
        if isinstance(node, ast.BoolOp):
            vs = [ev(v) for v in node.values]
            return all(vs) if isinstance(node.op, ast.And) else any(vs)
        if isinstance(node, ast.UnaryOp) and isinstance(node.op, ast.Not):
            return not ev(node.operand)
        if isinstance(node, ast.UnaryOp) and isinstance(node.op, ast.USub):
            return -ev(node.operand)
        if isinstance(node, ast.Compare):
            left = ev(node.left)
            okc = True
            for op, r in zip(node.ops, node.comparators):
                rv = ev(r)
                table = {ast.Lt: left < rv, ast.LtE: left <= rv, ast.Gt: left > rv, ast.GtE: left >= rv, ast.Eq: left == rv, ast.NotEq: left != rv}
                if type(op) not in table:
                    raise _No()
                okc = okc and table[type(op)]
                left = rv
            return okc
        if isinstance(node, ast.Name) and node.id in env:
            return env[node.id]
        if isinstance(node, ast.Constant) and isinstance(node.value, (int, float, bool)):
            return node.value
        if isinstance(node, ast.BinOp) and isinstance(node.op, ast.Mult):
            return ev(node.left) * ev(node.right)
        raise _No()

    try:
        return bool(ev(body[0].value)) if isinstance(body[0].value, (ast.BoolOp, ast.Compare, ast.UnaryOp)) else None
    except _No:
        return None


def reordered_points(v: ast.expr) -> Optional[str]:
    """v is  [p for _, p in sorted(zip(<keys>, POINTS), ...)]  - the list POINTS (a name) reordered, nothing dropped: -> POINTS"""
    good = (isinstance(v, ast.ListComp) and len(v.generators) == 1 and not v.generators[0].ifs and isinstance(v.elt, ast.Name)
            and isinstance(v.generators[0].target, ast.Tuple) and len(v.generators[0].target.elts) == 2
            and isinstance(v.generators[0].target.elts[1], ast.Name) and v.generators[0].target.elts[1].id == v.elt.id
            and isinstance(v.generators[0].iter, ast.Call) and attr_chain(v.generators[0].iter.func) == "sorted" and v.generators[0].iter.args
            and isinstance(v.generators[0].iter.args[0], ast.Call) and attr_chain(v.generators[0].iter.args[0].func) == "zip" and len(v.generators[0].iter.args[0].args) == 2
            and isinstance(v.generators[0].iter.args[0].args[1], ast.Name))
    return v.generators[0].iter.args[0].args[1].id if good else None


def permutation_helpers(prog: Program, fi) -> dict:
    """the functions - nested in `fi` or at module level of its module, under whatever name - that return their points argument
    reordered:  [p for _, p in sorted(zip(<keys>, <points parameter>), ...)]  on every return.
    -> {name as called: (FunctionDef, index of the points parameter)}"""
    from ..model import walk_no_nested

    out = {}
    cands = [n for n in ast.walk(fi.node) if isinstance(n, ast.FunctionDef) and n is not fi.node]
    mod = prog.modules.get(fi.module)
    if mod is not None:
        cands += [f.node for f in mod.functions.values()]
    for fn in cands:
        params = [a.arg for a in fn.args.args]
        rets = [r for r in walk_no_nested(fn) if isinstance(r, ast.Return) and r.value is not None]
        idx = None
        ok = bool(rets)
        for r in rets:
            v = r.value
            pts = reordered_points(v)
            if pts is None or pts not in params:
                ok = False
                break
            k = params.index(pts)
            if idx is not None and idx != k:
                ok = False
                break
            idx = k
        if ok and idx is not None:
            out[fn.name] = (fn, idx)
    return out


def expand_locals(fn: ast.FunctionDef, e: ast.expr, before: int, depth: int = 5) -> ast.expr:
    """e with every local name replaced by the value of its latest plain assignment (name = expr, at function level, not in a
    nested def) that precedes line `before` - applied repeatedly: the expression in terms of attributes, parameters and
    calls only.  A name whose latest assignment is not of that form (tuple target, augmented, loop variable) stays."""
    from ..model import walk_no_nested

    defs = {}
    for s_ in walk_no_nested(fn):
        if isinstance(s_, ast.Assign) and len(s_.targets) == 1 and isinstance(s_.targets[0], ast.Name):
            defs.setdefault(s_.targets[0].id, []).append(s_)
    other = {}
    for s_ in walk_no_nested(fn):
        for t in ast.walk(s_) if isinstance(s_, (ast.AugAssign, ast.For, ast.With)) else ():
            if isinstance(t, ast.Name) and isinstance(t.ctx, ast.Store):
                other.setdefault(t.id, []).append(s_.lineno)

    def latest(name, line):
        c = [d for d in defs.get(name, []) if d.lineno < line]
        if not c:
            return None
        d = max(c, key=lambda d_: d_.lineno)
        if any(d.lineno < l_ < line for l_ in other.get(name, [])):
            return None
        return d

    import copy as _copy

    def go(x, line, k):
        if k <= 0:
            return x

        class R(ast.NodeTransformer):
            def visit_Name(self, n):
                if isinstance(n.ctx, ast.Load):
                    d = latest(n.id, line)
                    if d is not None and not any(isinstance(y, ast.Name) and y.id == n.id for y in ast.walk(d.value)):
                        return go(_copy.deepcopy(d.value), d.lineno, k - 1)
                return n

            def visit_Lambda(self, n):
                return n

        return R().visit(x)

    return go(_copy.deepcopy(e), before, depth)


def dict_argopt(fn: ast.FunctionDef, dchain: str):
    """the statement that picks a KEY of the dictionary `dchain` by the minimum / maximum of its VALUES, however it is spelled:
         vals = list(D.values()); keys = list(D.keys()); m = min(vals); i = vals.index(m); k = keys[i]      (also in one line)
         k = min(D, key=D.get)        k = min(D.keys(), key=lambda x: D[x])
    -> dict(node, target, func, keys_src, index_src, opt_src) with the three sources as expanded text (all should be D's), or None"""
    from ..model import walk_no_nested

    best = None
    for s_ in sorted((x for x in walk_no_nested(fn) if isinstance(x, ast.Assign) and len(x.targets) == 1 and isinstance(x.targets[0], ast.Name)), key=lambda x: x.lineno):
        ex = expand_locals(fn, s_.value, s_.lineno + 1)
        rec = None
        if isinstance(ex, ast.Subscript) and isinstance(ex.slice, ast.Call) and isinstance(ex.slice.func, ast.Attribute) and ex.slice.func.attr == "index" and len(ex.slice.args) == 1:
            inner = ex.slice.args[0]
            if isinstance(inner, ast.Call) and attr_chain(inner.func) in ("min", "max") and len(inner.args) == 1 and not inner.keywords:
                rec = {"func": attr_chain(inner.func), "keys_src": ast.unparse(ex.value), "index_src": ast.unparse(ex.slice.func.value), "opt_src": ast.unparse(inner.args[0])}
        elif isinstance(ex, ast.Call) and attr_chain(ex.func) in ("min", "max") and len(ex.args) == 1 and [k.arg for k in ex.keywords] == ["key"]:
            src, key = ast.unparse(ex.args[0]), ex.keywords[0].value
            ktxt = ast.unparse(key)
            vs = None
            if ktxt.endswith(".get"):
                vs = ktxt[:-4]
            elif isinstance(key, ast.Lambda) and len(key.args.args) == 1 and isinstance(key.body, ast.Subscript) and ast.unparse(key.body.slice) == key.args.args[0].arg:
                vs = ast.unparse(key.body.value)
            if vs is not None:
                ks = src[:-7] if src.endswith(".keys()") else (src[5:-8] if src.startswith("list(") and src.endswith(".keys())") else src)
                rec = {"func": attr_chain(ex.func), "keys_src": f"list({ks}.keys())", "index_src": f"list({vs}.values())", "opt_src": f"list({vs}.values())"}
        if rec is not None and any(dchain in rec[k] for k in ("keys_src", "index_src", "opt_src")):
            rec.update(node=s_, target=s_.targets[0].id)
            best = rec
            break
    return best


# ---------------------------------------------------------------------------
# RowWise search: the local names that carry the selection, derived from the code (no local name is assumed)
# ---------------------------------------------------------------------------

FIELD_GENERATORS = ("field_optimization_fr", "field_optimization_wp_space_fr")


def rowwise_names(fn: ast.FunctionDef):
    """-> (final, via, extra)
    final: locals initialised with None that are returned as the first element (the coordinates the constructor
           publishes as self.selected_coordinates)
    via:   None-initialised locals copied into a final name (accumulators, e.g. the best field of the sweep)
    extra: further locals whose definitions the slice must keep (everything returned, everything a field generator binds)"""
    from ..model import walk_no_nested

    none_init, copies, returned0, extra = set(), {}, set(), set()
    for n in walk_no_nested(fn):
        if isinstance(n, ast.Assign) and len(n.targets) == 1:
            t, v = n.targets[0], n.value
            if isinstance(t, ast.Name) and isinstance(v, ast.Constant) and v.value is None:
                none_init.add(t.id)
            if isinstance(t, ast.Name) and isinstance(v, ast.Name):
                copies.setdefault(t.id, set()).add(v.id)
            if isinstance(v, ast.Call) and attr_chain(v.func) in FIELD_GENERATORS:
                for x in ast.walk(t):
                    if isinstance(x, ast.Name):
                        extra.add(x.id)
        if isinstance(n, ast.Return) and n.value is not None:
            elts = n.value.elts if isinstance(n.value, ast.Tuple) else [n.value]
            if elts and isinstance(elts[0], ast.Name):
                returned0.add(elts[0].id)
            for e in elts:
                if isinstance(e, ast.Name):
                    extra.add(e.id)
    final = returned0 & none_init
    via, work = set(), list(final)
    while work:
        x = work.pop()
        for y in copies.get(x, ()):  # x = y
            if y in none_init and y not in via and y not in final:
                via.add(y)
                work.append(y)
    if not final:
        raise AnalysisError(f"{fn.name}: no None-initialised local is returned as the selected coordinates")
    return final, via, extra | final | via


# ---------------------------------------------------------------------------
# integer bisection: the locals that play the roles (left end, right end, midpoint, reference sign, counter)
# ---------------------------------------------------------------------------

def _half_sum_names(e: ast.expr):
    """ceil|floor|int|round((A + B) / 2)  or  (A + B) // 2   ->  (A, B)"""
    if isinstance(e, ast.Call) and attr_chain(e.func) in ("ceil", "floor", "int", "round", "math.ceil", "math.floor", "np.ceil", "np.floor") and len(e.args) == 1:
        e = e.args[0]
    if isinstance(e, ast.BinOp) and isinstance(e.op, (ast.Div, ast.FloorDiv)) and isinstance(e.right, ast.Constant) and e.right.value == 2 \
            and isinstance(e.left, ast.BinOp) and isinstance(e.left.op, ast.Add) and isinstance(e.left.left, ast.Name) and isinstance(e.left.right, ast.Name):
        return e.left.left.id, e.left.right.id
    return None


_BISECT_CACHE: dict = {}


def bisect_names(fn: ast.FunctionDef) -> dict:
    """-> {'loop', 'left', 'right', 'mid', 'ref_sign', 'counter'} read off the code: the midpoint is the target of
    ceil((A + B) / 2) inside the while loop, the left end is the one of A / B that starts as an integer constant,
    the reference sign is the local defined as sign(..) before the loop that the loop compares against"""
    from ..model import walk_no_nested

    if id(fn) in _BISECT_CACHE:
        return _BISECT_CACHE[id(fn)]
    out = None
    for loop in [n for n in walk_no_nested(fn) if isinstance(n, ast.While) or (isinstance(n, ast.For) and isinstance(n.iter, ast.Call) and attr_chain(n.iter.func) == "range")]:
        for s_ in ast.walk(loop):
            if isinstance(s_, ast.Assign) and len(s_.targets) == 1 and isinstance(s_.targets[0], ast.Name):
                ab = _half_sum_names(s_.value)
                if ab:
                    out = {"loop": loop, "mid": s_.targets[0].id, "ends": ab}
                    break
        if out:
            break
    if out is None:
        raise AnalysisError(f"{fn.name}: integer bisection loop (midpoint = ceil((l + r) / 2)) not found")
    loop = out["loop"]
    const_init = set()
    sign_defs = set()
    for s_ in walk_no_nested(fn):
        if isinstance(s_, ast.Assign) and len(s_.targets) == 1 and isinstance(s_.targets[0], ast.Name) and s_.lineno < loop.lineno:
            if isinstance(s_.value, ast.Constant) and isinstance(s_.value.value, int) and not isinstance(s_.value.value, bool):
                const_init.add(s_.targets[0].id)
            if isinstance(s_.value, ast.Call) and attr_chain(s_.value.func) == "sign":
                sign_defs.add(s_.targets[0].id)
    a, b = out["ends"]
    left = [x for x in (a, b) if x in const_init]
    if len(left) != 1:
        raise AnalysisError(f"{fn.name}: cannot tell the left end of the bisection interval ({a}, {b})")
    out["left"] = left[0]
    out["right"] = b if left[0] == a else a
    ref = None
    for c in ast.walk(loop):
        if isinstance(c, ast.Compare) and len(c.ops) == 1 and isinstance(c.ops[0], (ast.Eq, ast.NotEq)):
            for x in (c.left, c.comparators[0]):
                if isinstance(x, ast.Name) and x.id in sign_defs:
                    ref = x.id
    out["ref_sign"] = ref
    if isinstance(loop, ast.While):
        t = loop.test
        out["counter"] = t.left.id if isinstance(t, ast.Compare) and isinstance(t.left, ast.Name) else None
    else:
        # for _ in range(max_iter): the loop variable, or a local the body counts up by one
        incs = [s_.target.id for s_ in loop.body if isinstance(s_, ast.AugAssign) and isinstance(s_.op, ast.Add) and isinstance(s_.target, ast.Name)
                and isinstance(s_.value, ast.Constant) and s_.value.value == 1]
        out["counter"] = incs[0] if incs else (loop.target.id if isinstance(loop.target, ast.Name) and loop.target.id != "_" else None)
    _BISECT_CACHE[id(fn)] = out
    return out


def height_closures(fn: ast.FunctionDef, hchain: str = "self.bhe.b.H"):
    """closures nested in GHE.size that write the trial height from one of their parameters (the sizing objective):
    {closure name: index of that parameter}.  A call of such a closure is, for the analyses of size(), a write of the
    height followed by a simulation, and its value is the excess at that height."""
    out = {}
    for n in fn.body:
        if isinstance(n, ast.FunctionDef):
            ps = [a.arg for a in n.args.args]
            for s_ in ast.walk(n):
                if isinstance(s_, ast.Assign) and any(attr_chain(t) == hchain for t in s_.targets) and isinstance(s_.value, ast.Name) and s_.value.id in ps:
                    out[n.name] = ps.index(s_.value.id)
    return out


# ---------------------------------------------------------------------------
def sweep_start_is_feasible_end(prog: Program, fi) -> tuple:
    """the reason for which the row-wise sweep may accept its FIRST candidate without a test: the sweep starts at the spacing of
    the bracket end the bisection knows to be feasible.  Checked on the syntax tree:
      * the list the sweep iterates is filled by  while cur <= lim: LIST.append(cur); cur += step  and cur starts as a plain
        copy of one local F;
      * every assignment  F = V  in the function sits under a test that establishes  T < 0  or  T <= 0  for a local
        T = self.calculate_excess(FIELD, ...) whose FIELD comes from a field generator called with spacing V.
    -> (ok, description)"""
    fn = fi.node
    gens = {}
    for name in FIELD_GENERATORS:
        q = f"ghedesigner.rowwise.{name}"
        if prog.has_func(q):
            ps = prog.func(q).params()
            gens[name] = next((i for i, p_ in enumerate(ps) if p_ in ("space_start", "spacing", "target_spacing")), None)
    # a local that holds a generator chosen earlier ( gen = field_optimization_fr / gen = partial(field_optimization_wp_space_fr, ratio) ):
    # calling it is calling the generator, the spacing standing as many positions earlier as the partial binds - provided
    # every binding of that local agrees on the position
    held = {}
    for s in ast.walk(fn):
        if isinstance(s, ast.Assign) and len(s.targets) == 1 and isinstance(s.targets[0], ast.Name):
            v = s.value
            pos = None
            if isinstance(v, ast.Name) and v.id in gens and gens[v.id] is not None:
                pos = gens[v.id]
            elif isinstance(v, ast.Call) and attr_chain(v.func) in ("partial", "functools.partial") and v.args and isinstance(v.args[0], ast.Name) \
                    and v.args[0].id in gens and gens[v.args[0].id] is not None and not any(isinstance(a, ast.Starred) for a in v.args) \
                    and not any(k.arg in ("space_start", "spacing", "target_spacing") or k.arg is None for k in v.keywords):
                pos = gens[v.args[0].id] - (len(v.args) - 1)
                if pos < 0:
                    pos = None
            held.setdefault(s.targets[0].id, set()).add(pos)
    for name, poss in held.items():
        if name not in gens and len(poss) == 1 and None not in poss:
            gens[name] = next(iter(poss))
    field_spacing = {}   # field local -> set of spacing expressions (text) it was generated with
    excess_of = {}       # excess local -> field local
    for s in ast.walk(fn):
        if isinstance(s, ast.Assign) and len(s.targets) == 1 and isinstance(s.value, ast.Call):
            cn = attr_chain(s.value.func)
            if cn in gens and gens[cn] is not None and len(s.value.args) > gens[cn]:
                t = s.targets[0]
                f0 = t.elts[0] if isinstance(t, ast.Tuple) and t.elts else t
                if isinstance(f0, ast.Name):
                    field_spacing.setdefault(f0.id, set()).add(ast.unparse(s.value.args[gens[cn]]))
            if cn == "self.calculate_excess" and s.value.args and isinstance(s.value.args[0], ast.Name) and isinstance(s.targets[0], ast.Name):
                excess_of[s.targets[0].id] = s.value.args[0].id

    def nonpositive_names(test) -> set:
        out = set()
        parts = test.values if isinstance(test, ast.BoolOp) and isinstance(test.op, ast.And) else [test]
        for p_ in parts:
            if isinstance(p_, ast.Compare):
                terms = [p_.left] + p_.comparators
                for a, op, b in zip(terms, p_.ops, terms[1:]):
                    if isinstance(a, ast.Name) and isinstance(b, ast.Constant) and b.value == 0 and isinstance(op, (ast.Lt, ast.LtE)):
                        out.add(a.id)
                    if isinstance(b, ast.Name) and isinstance(a, ast.Constant) and a.value == 0 and isinstance(op, (ast.Gt, ast.GtE)):
                        out.add(b.id)
        return out

    def positive_names(test) -> set:
        """names T for which a SINGLE comparison test says T > 0 (its failing therefore says T <= 0)"""
        out = set()
        if isinstance(test, ast.Compare) and len(test.ops) == 1:
            a, op, b = test.left, test.ops[0], test.comparators[0]
            if isinstance(a, ast.Name) and isinstance(b, ast.Constant) and b.value == 0 and isinstance(op, ast.Gt):
                out.add(a.id)
            if isinstance(b, ast.Name) and isinstance(a, ast.Constant) and a.value == 0 and isinstance(op, ast.Lt):
                out.add(b.id)
        return out

    def guards_of(stmt):
        """names known to be <= 0 where stmt runs: from the tests of the ifs whose body contains it, and - the load-time
        normalisation writes  if T <= 0: A else: B  as  if 0 < T: B else: A  - from the failed tests of those whose else does"""
        out = set()
        for n in ast.walk(fn):
            if isinstance(n, ast.If):
                if any(stmt is x for b_ in n.body for x in ast.walk(b_)):
                    out |= nonpositive_names(n.test)
                elif any(stmt is x for b_ in n.orelse for x in ast.walk(b_)):
                    out |= positive_names(n.test)
        return out

    # the sweep list
    start = None
    for w in ast.walk(fn):
        if isinstance(w, ast.While) and isinstance(w.test, ast.Compare) and isinstance(w.test.left, ast.Name):
            cur = w.test.left.id
            apps = [c for c in ast.walk(w) if isinstance(c, ast.Call) and isinstance(c.func, ast.Attribute) and c.func.attr == "append" and len(c.args) == 1 and isinstance(c.args[0], ast.Name) and c.args[0].id == cur]
            if not apps:
                continue
            inits = [s for s in ast.walk(fn) if isinstance(s, ast.Assign) and len(s.targets) == 1 and isinstance(s.targets[0], ast.Name) and s.targets[0].id == cur and s.lineno < w.lineno]
            if len(inits) == 1 and isinstance(inits[0].value, ast.Name):
                start = inits[0].value.id
            else:
                return False, f"the sweep's first spacing '{cur}' does not start as a plain copy of one local ({[ast.unparse(s.value)[:30] for s in inits]})"
    if start is None:
        return False, "the list of sweep spacings (while cur <= lim: list.append(cur)) was not found"
    assigns = [s for s in ast.walk(fn) if isinstance(s, ast.Assign) and len(s.targets) == 1 and isinstance(s.targets[0], ast.Name) and s.targets[0].id == start]
    if not assigns:
        return False, f"'{start}' is never assigned"
    for s in assigns:
        v = ast.unparse(s.value)
        ok = False
        for T in guards_of(s):
            fld = excess_of.get(T)
            if fld is not None and v in field_spacing.get(fld, ()):
                ok = True
        if not ok:
            return False, f"'{norm_stmt(s)}' is not under a test that found the field generated at {v} to meet the limits (excess <= 0)"
    return True, f"the sweep starts at '{start}', which is only ever set to a spacing whose field was found to meet the limits"
