"""Memoised returns: a function that hands back a stored result  `return STORE[key]`  is a pure function of its arguments
only if the key depends on every parameter the result depends on.  memo_bypass() finds such returns and says which
parameters the key leaves out (flow-insensitive dependence of the key's names on the parameters, through all local
assignments, including assignments under a branch whose test reads a parameter)."""
from __future__ import annotations

import ast
from typing import Dict, List, Set, Tuple

from .model import Program, attr_chain, walk_no_nested


def _param_deps(fn: ast.FunctionDef) -> Dict[str, Set[str]]:
    params = [a.arg for a in fn.args.posonlyargs + fn.args.args + fn.args.kwonlyargs]
    deps: Dict[str, Set[str]] = {p: {p} for p in params}

    def names(e) -> Set[str]:
        return {x.id for x in ast.walk(e) if isinstance(x, ast.Name) and isinstance(x.ctx, ast.Load)}

    def visit(body, ctrl: Set[str], changed: List[bool]):
        for s in body:
            if isinstance(s, (ast.Assign, ast.AugAssign, ast.AnnAssign)):
                val = s.value
                tg = s.targets if isinstance(s, ast.Assign) else [s.target]
                src = set(ctrl)
                if val is not None:
                    for n in names(val):
                        src |= deps.get(n, set())
                for t in tg:
                    for x in ast.walk(t):
                        if isinstance(x, ast.Name) and isinstance(x.ctx, ast.Store):
                            old = deps.get(x.id, set())
                            new = old | src
                            if new != old:
                                deps[x.id] = new
                                changed[0] = True
            elif isinstance(s, (ast.If, ast.While)):
                c2 = set(ctrl)
                for n in names(s.test):
                    c2 |= deps.get(n, set())
                visit(s.body, c2, changed)
                visit(s.orelse, c2, changed)
            elif isinstance(s, ast.For):
                c2 = set(ctrl)
                src = set()
                for n in names(s.iter):
                    src |= deps.get(n, set())
                for x in ast.walk(s.target):
                    if isinstance(x, ast.Name):
                        old = deps.get(x.id, set())
                        if (old | src | ctrl) != old:
                            deps[x.id] = old | src | ctrl
                            changed[0] = True
                visit(s.body, c2 | src, changed)
                visit(s.orelse, c2, changed)
            elif isinstance(s, (ast.With, ast.Try)):
                visit(s.body, ctrl, changed)
                for h in getattr(s, "handlers", []) or []:
                    visit(h.body, ctrl, changed)
                visit(getattr(s, "orelse", []) or [], ctrl, changed)
                visit(getattr(s, "finalbody", []) or [], ctrl, changed)

    for _ in range(8):
        ch = [False]
        visit(fn.body, set(), ch)
        if not ch[0]:
            break
    return deps


def memo_bypass(prog: Program, fi, ignore: Tuple[str, ...] = ("self", "cls", "disp", "verbose")):
    """-> [(return node, store text, key text, parameters the key does not depend on)] for every  return STORE[key] /
    return STORE.get(key)  where STORE is a module-level name or an attribute chain (not a local built in this call)"""
    fn = fi.node
    locals_ = {x.id for x in walk_no_nested(fn) if isinstance(x, ast.Name) and isinstance(x.ctx, ast.Store)}
    params = [a.arg for a in fn.args.posonlyargs + fn.args.args + fn.args.kwonlyargs]
    deps = None
    out = []
    for r in walk_no_nested(fn):
        if not (isinstance(r, ast.Return) and r.value is not None):
            continue
        v = r.value
        store = key = None
        if isinstance(v, ast.Subscript):
            store, key = v.value, v.slice
        elif isinstance(v, ast.Call) and isinstance(v.func, ast.Attribute) and v.func.attr == "get" and v.args:
            store, key = v.func.value, v.args[0]
        if store is None:
            continue
        ch = attr_chain(store)
        if ch is None:
            continue
        head = ch.split(".")[0]
        if head in locals_ or head in params and "." not in ch:
            continue  # a container of this call
        if "." not in ch and head not in prog.modules[fi.module].constants and head not in prog.modules[fi.module].imports:
            continue
        if deps is None:
            deps = _param_deps(fn)
        kd: Set[str] = set()
        for x in ast.walk(key):
            if isinstance(x, ast.Name):
                kd |= deps.get(x.id, set())
        missing = [p for p in params if p not in kd and p not in ignore]
        out.append((r, ch, ast.unparse(key), missing))
    return out
