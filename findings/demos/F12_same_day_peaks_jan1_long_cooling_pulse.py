"""F12 candidate: same-day peaks on January 1st with a long cooling pulse (> 26 h): month energy of January"""
import sys, warnings
import numpy as np
sys.path.insert(0, '/verif/findings/demos')
from F4_heating_only_month_energy import mk
warnings.simplefilter("ignore")
loads = [-1000.0] * 8760            # small constant rejection all year (W, negative = rejection)
for h in list(range(0, 24)) + list(range(8760 - 24, 8760)):
    loads[h] = -10000.0              # Dec 31 and Jan 1 at peak rejection
for h in (10, 11, 12):
    loads[h] = 5000.0                # three hours of extraction on Jan 1: January's heating peak, same day
h = mk(loads, months=12)
print("Jan: cl day", h.monthly_peak_cl_day[1], "hl day", h.monthly_peak_hl_day[1], "cl duration", round(h.monthly_peak_cl_duration[1], 2), "hl duration", round(h.monthly_peak_hl_duration[1], 2))
rej = np.array(h.hourly_rejection_loads); ext = np.array(h.hourly_extraction_loads)
want = rej[:744].sum() - ext[:744].sum()
load, hour = h.load, h.hour
end = 744.0
got = 0.0
for k in range(2, len(hour)):
    if hour[k] > end + 1e-9:
        break
    got += load[k] * (hour[k] - hour[k - 1])
print("breakpoints of January:", [round(float(x), 3) for x in hour[1:8]])
print("January energy: expected %.3f kWh, hybrid sequence %.3f kWh, error %.3f (%.2f %%)" % (want, got, got - want, 100 * (got - want) / want))
sys.exit(0 if abs(got - want) < 1e-6 * abs(want) else 1)
