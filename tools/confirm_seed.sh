#!/bin/sh
# usage: tools/confirm_seed.sh <seed dir with patch.diff + demo.py> <tag> [nworkers]
# scratch worktree under /tmp: demo must fail with the patch and pass without; the full pinned suite must pass with it
D="$1"; TAG="$2"; NW="${3:-8}"
WT=/tmp/cs_$TAG
OUT=/tmp/seed_confirm; mkdir -p $OUT
export OMP_NUM_THREADS=1 OPENBLAS_NUM_THREADS=1 MKL_NUM_THREADS=1
git -C /repo worktree remove --force $WT 2>/dev/null
git -C /repo worktree add -q --detach $WT HEAD || exit 9
cd $WT
PYTHONPATH=$WT timeout 900 /venv/bin/python "$D/demo.py" > $OUT/$TAG.demo_orig.log 2>&1; RC_ORIG=$?
git apply "$D/patch.diff" || { echo "{\"tag\": \"$TAG\", \"error\": \"patch does not apply\"}" > $OUT/$TAG.json; git -C /repo worktree remove --force $WT; exit 9; }
PYTHONPATH=$WT timeout 900 /venv/bin/python "$D/demo.py" > $OUT/$TAG.demo_mut.log 2>&1; RC_MUT=$?
PYTHONPATH=$WT timeout 5400 /venv/bin/python -m pytest -q -p no:cacheprovider --timeout=900 --continue-on-collection-errors -n $NW --junitxml=$OUT/$TAG.junit.xml > $OUT/$TAG.tests.log 2>&1
/venv/bin/python - <<PY > $OUT/$TAG.json
import xml.etree.ElementTree as ET, json
base=set(json.load(open('/root/.vp/BASELINE.json'))['stable_pass'])
ok=set()
try:
    for tc in ET.parse('$OUT/$TAG.junit.xml').iter('testcase'):
        if not any(c.tag in ('failure','error','skipped') for c in tc): ok.add(tc.get('classname')+'::'+tc.get('name'))
except Exception as e:
    print(json.dumps({"tag":"$TAG","error":str(e)})); raise SystemExit
print(json.dumps({"tag":"$TAG","demo_rc_original":$RC_ORIG,"demo_rc_mutated":$RC_MUT,"baseline_tests":len(base),"baseline_passing_with_patch":len(base&ok),"baseline_failing_with_patch":sorted(base-ok)}))
PY
cd /tmp; git -C /repo worktree remove --force $WT
cat $OUT/$TAG.json
