"""C17 - input files written by the tool are schema-valid and round-trip.

Fully structural (tables extracted from writer, loader, schemas and enums, then compared):
  K1  every key a schema requires is written unconditionally, with a value that cannot be None
      (a value that is optional by the API must be omitted when absent, not required, and read with .get)
  K2  every written key is a property of the section's schema
  K3  every key the loader subscripts is written unconditionally; every key it reads with .get is written
      conditionally and is not required
  K4  sections expanded with ** match the setter's parameter names exactly
  K5  round trip: composing writer, loader, setter and constructor returns every attribute to itself
      (normal forms; inverse pairs such as *2 and /2, radians and degrees cancel; positional binding of the
      GeometricConstraints* constructors is followed)
  K6  every enum member is handled by the writer, the loader dispatch, the validator's schema map, the
      schema enum / const and set_design
  K7  the sections written = required by file_structure.schema.json = subscripted by the loader
  K10 schema bounds fit the physical kind the schema annotates: Centigrade / Watts / Degrees properties are not bounded below by 0
  K9  every key the writer emits is consumed by the loader (subscript, .get, or ** expansion of the section)
  K8  names are mapped to enum members by equality (or membership in a collection), never by `name in <string>`:
      a name that contains another member's name would be written to the file as that member

Not decided: float round trip of degrees -> radians -> degrees; "running it produces the same design" (C13).
"""
from __future__ import annotations

import ast

from .. import sym
from ..model import AnalysisError, Program, attr_chain, bind_args, norm_stmt, visible_nodes
from ..paths import Engine, Hooks, Opaque, Seq, State, Const
from ..report import Result
from ..selftest import Variant
from ..sym import Rat

PROP = "C17"
TITLE = "Input files written by the tool are schema-valid and round-trip"
EXPLANATION = (
    "Table extraction (E4): dict literals and later key stores of every to_input() and of write_input_file (with the "
    "branch condition each key is written under), JSON-schema properties / required / enum / const, loader "
    "subscripts and .get() uses, ** expansions, enum comparison chains; set comparison over 6 geometry methods x 4 pipe "
    "arrangements.  Round trip by composing normal forms of writer value, setter body and constructor body."
)
ASSUMPTIONS = ["json.dumps / json.loads round-trip numbers, strings, lists and booleans", "jsonschema implements the schemas"]

MGR = "ghedesigner.manager"
WRITER = f"{MGR}.GHEManager.write_input_file"
WORKER = f"{MGR}._run_manager_from_cli_worker"
VAL = "ghedesigner.validate"
GEO = "ghedesigner.geometry"

GEOM_CLASSES = {
    "NEARSQUARE": ("GeometricConstraintsNearSquare", "geometric_near_square.schema.json", "set_geometry_constraints_near_square"),
    "RECTANGLE": ("GeometricConstraintsRectangle", "geometric_rectangle.schema.json", "set_geometry_constraints_rectangle"),
    "BIRECTANGLE": ("GeometricConstraintsBiRectangle", "geometric_bi_rectangle.schema.json", "set_geometry_constraints_bi_rectangle"),
    "BIZONEDRECTANGLE": ("GeometricConstraintsBiZoned", "geometric_bi_zoned_rectangle.schema.json", "set_geometry_constraints_bi_zoned_rectangle"),
    "BIRECTANGLECONSTRAINED": ("GeometricConstraintsBiRectangleConstrained", "geometric_bi_rectangle_constrained.schema.json", "set_geometry_constraints_bi_rectangle_constrained"),
    "ROWWISE": ("GeometricConstraintsRowWise", "geometric_rowwise.schema.json", "set_geometry_constraints_rowwise"),
}


# ---------------------------------------------------------------------------
# table extraction
# ---------------------------------------------------------------------------

def returned_dict(fi) -> ast.Dict:
    rets = [n for n in ast.walk(fi.node) if isinstance(n, ast.Return)]
    if len(rets) != 1 or not isinstance(rets[0].value, ast.Dict):
        raise AnalysisError(f"{fi.qualname}: expected a single 'return {{...}}'")
    return rets[0].value


def to_input_table(fi):
    """key -> (value expr, conditional?) for 'return {...}' or 'd = {...}; [if c:] d[k] = v; return d'"""
    rets = [n for n in ast.walk(fi.node) if isinstance(n, ast.Return)]
    if len(rets) != 1:
        raise AnalysisError(f"{fi.qualname}: expected a single return")
    v = rets[0].value
    if isinstance(v, ast.Dict):
        return {k: (x, False) for k, x in dict_keys(v).items()}
    if isinstance(v, ast.Name):
        ks = KeyStoreCollector()
        ks.visit(fi.node)
        init = ks.inits.get(v.id)
        if isinstance(init, ast.Dict):
            tab = {k: (x, False) for k, x in dict_keys(init).items()}
            for dn, key, val, guards, node in ks.stores:
                if dn == v.id:
                    tab[key] = (val, bool(guards))
            return tab
    raise AnalysisError(f"{fi.qualname}: to_input shape not understood")


def dict_keys(d: ast.Dict):
    out = {}
    for k, v in zip(d.keys, d.values):
        if not (isinstance(k, ast.Constant) and isinstance(k.value, str)):
            raise AnalysisError(f"non-literal key in a to_input dict: {ast.unparse(d)[:60]}")
        out[k.value] = v
    return out


def conditional_expr_none_guard(v: ast.expr) -> bool:
    return False


class KeyStoreCollector(ast.NodeVisitor):
    """d['key'] = value stores in a function, with the stack of enclosing if-tests"""

    def __init__(self):
        self.stack = []
        self.stores = []  # (dict name, key, value, [(test, polarity)], node)
        self.inits = {}  # dict name -> ast.Dict | ast.Call

    def visit_If(self, n):
        self.stack.append((n.test, True))
        for s in n.body:
            self.visit(s)
        self.stack[-1] = (n.test, False)
        for s in n.orelse:
            self.visit(s)
        self.stack.pop()

    def visit_Assign(self, n):
        for t in n.targets:
            if isinstance(t, ast.Subscript) and isinstance(t.value, ast.Name) and isinstance(t.slice, ast.Constant) and isinstance(t.slice.value, str):
                self.stores.append((t.value.id, t.slice.value, n.value, list(self.stack), n))
            if isinstance(t, ast.Name) and not self.stack:
                self.inits[t.id] = n.value


_INPUTS_CACHE: dict = {}


def _inputs_name(lfi) -> str:
    """the loader's local that holds the parsed input file: the target of  <x> = loads(...) / json.load(s)(...)"""
    if id(lfi.node) not in _INPUTS_CACHE:
        nm = None
        for s_ in ast.walk(lfi.node):
            if isinstance(s_, ast.Assign) and len(s_.targets) == 1 and isinstance(s_.targets[0], ast.Name) and isinstance(s_.value, ast.Call) \
                    and attr_chain(s_.value.func) in ("loads", "load", "json.loads", "json.load"):
                nm = s_.targets[0].id
                break
        if nm is None:
            raise AnalysisError(f"{lfi.qualname}: the parsed input file (x = loads(...)) was not found")
        _INPUTS_CACHE[id(lfi.node)] = nm
    return _INPUTS_CACHE[id(lfi.node)]


def _name_to_member_table(node: ast.expr, enum: str) -> int:
    """number of members if `node` maps the NAME of each listed member of `enum` to that member, else 0:
    {E.A.name: E.A, E.B.name: E.B}   |   {m.name: m for m in (E.A, E.B)}"""
    if attr_chain(node) == f"{enum}.__members__":
        return 99  # the enum's own table of every member by name
    if isinstance(node, ast.Dict) and node.keys:
        n = 0
        for k, v in zip(node.keys, node.values):
            kc, vc = (attr_chain(k) if k is not None else None), attr_chain(v)
            if not (kc and vc and vc.startswith(enum + ".") and kc == vc + ".name"):
                return 0
            n += 1
        return n
    if isinstance(node, ast.DictComp) and len(node.generators) == 1 and not node.generators[0].ifs and isinstance(node.generators[0].target, ast.Name):
        g = node.generators[0]
        v = g.target.id
        if attr_chain(node.key) == f"{v}.name" and isinstance(node.value, ast.Name) and node.value.id == v and isinstance(g.iter, (ast.Tuple, ast.List)) \
                and all((attr_chain(e) or "").startswith(enum + ".") for e in g.iter.elts):
            return len(g.iter.elts)
    return 0


def _enum_local_from_string(fn: ast.FunctionDef, local: str, param: str, enum: str, consts=None) -> bool:
    """every binding of `local` in fn is `<enum>.<M>` inside the branch taken when `param == <enum>.<M>.name` (same M), >= 2 members;
    or its one binding looks `param` up in a table from member names to members (TABLE.get(param) / TABLE[param], the table
    a literal or a comprehension over listed members, local or at module level), with `None` as the only other outcome"""
    binds = [s_ for s_ in ast.walk(fn) if isinstance(s_, ast.Assign) and any(isinstance(t_, ast.Name) and t_.id == local for t_ in s_.targets)]
    if len(binds) == 1:
        v = binds[0].value
        tab = None
        if isinstance(v, ast.Call) and isinstance(v.func, ast.Attribute) and v.func.attr == "get" and len(v.args) in (1, 2) and ast.unparse(v.args[0]) == param \
                and (len(v.args) == 1 or (isinstance(v.args[1], ast.Constant) and v.args[1].value is None)):
            tab = v.func.value
        elif isinstance(v, ast.Subscript) and ast.unparse(v.slice) == param:
            tab = v.value
        if isinstance(v, ast.Subscript) and attr_chain(v.value) == enum:
            return True  # Enum[name]
        if isinstance(tab, ast.Name):
            local_defs = [s_ for s_ in ast.walk(fn) if isinstance(s_, ast.Assign) and any(isinstance(t_, ast.Name) and t_.id == tab.id for t_ in s_.targets)]
            if len(local_defs) == 1:
                tab = local_defs[0].value
            elif not local_defs and consts and tab.id in consts:
                tab = consts[tab.id]
        if tab is not None and _name_to_member_table(tab, enum) >= 2:
            return True
    members = 0

    def walk(stmts, guard_members):
        nonlocal members
        ok = True
        for s_ in stmts:
            if isinstance(s_, ast.If):
                t = s_.test
                m = None
                if isinstance(t, ast.Compare) and len(t.ops) == 1 and isinstance(t.ops[0], ast.Eq):
                    l, r = ast.unparse(t.left), ast.unparse(t.comparators[0])
                    for a, b in ((l, r), (r, l)):
                        if a == param and b.startswith(enum + ".") and b.endswith(".name"):
                            m = b[len(enum) + 1:-5]
                ok = walk(s_.body, guard_members + ([m] if m else [])) and ok
                ok = walk(s_.orelse, guard_members) and ok
            elif isinstance(s_, ast.Assign) and any(isinstance(t_, ast.Name) and t_.id == local for t_ in s_.targets):
                v = attr_chain(s_.value) or ""
                if v.startswith(enum + ".") and guard_members and v == f"{enum}.{guard_members[-1]}":
                    members += 1
                else:
                    ok = False
            elif isinstance(s_, (ast.For, ast.While, ast.With, ast.Try)):
                for fld in ("body", "orelse", "finalbody"):
                    ok = walk(getattr(s_, fld, []) or [], guard_members) and ok
        return ok

    return walk(fn.body, []) and members >= 2


LOSSY_CALLS = ("round", "int", "floor", "ceil", "math.floor", "math.ceil", "np.round", "np.around", "numpy.round", "format", "str")


def _written_value(res, prog, e_, val, key, label, fi_, qual):
    """evaluate a value written into the input file; a lossy transformation (round, int, ...) is a round-trip violation, a value
    that is not understood fails closed unless it is structural (lists / strings / names of enum members)
    -> Rat or None (skip)"""
    for n_ in ast.walk(val):
        if isinstance(n_, ast.Call) and attr_chain(n_.func) in LOSSY_CALLS:
            res.ob("K5", f"[{label}] '{key}' is written without loss", False, prog.loc(fi_, val))
            res.violation("K5", f"{label}|{key}|lossy|{attr_chain(n_.func)}", prog.loc(fi_, val), qual,
                          f"[{label}] '{key}' is written as {ast.unparse(val)[:80]}: {attr_chain(n_.func)}() loses information, so reading the file back does not restore the configured value")
            return None
    w_ = e_.eval(val, State())
    if isinstance(w_, Rat):
        return w_
    if isinstance(val, (ast.List, ast.Tuple, ast.Dict, ast.Constant, ast.JoinedStr)) or (isinstance(val, ast.Attribute) and val.attr in ("name", "value")) \
            or isinstance(val, ast.Attribute) or isinstance(val, ast.Name) or isinstance(val, ast.Subscript):
        return None  # plain references (lists of coordinates, enum names, nested tables): covered by K1-K4
    raise AnalysisError(f"{qual}: value written for '{key}' not understood: {ast.unparse(val)[:80]}")


def schema_props(prog: Program, name: str):
    s = prog.schemas.get(name)
    if s is None:
        raise AnalysisError(f"schema {name} missing")
    return set(s.get("properties", {})), set(s.get("required", [])), s.get("properties", {})


def enum_members_in(prog: Program, node: ast.AST, enum_name: str):
    out = set()
    for n in ast.walk(node):
        c = attr_chain(n) if isinstance(n, ast.Attribute) else None
        if c and c.startswith(enum_name + "."):
            out.add(c.split(".")[1])
    return out


# ---------------------------------------------------------------------------
def check(prog: Program, tier: str) -> Result:
    res = Result(PROP)
    wfi = prog.func(WRITER)
    lfi = prog.func(WORKER)
    res.analysed(WRITER)
    res.analysed(WORKER)

    # ---------------- writer tables
    ks = KeyStoreCollector()
    ks.visit(wfi.node)
    top = None
    for name, v in ks.inits.items():
        if isinstance(v, ast.Dict) and "version" in [k.value for k in v.keys if isinstance(k, ast.Constant)]:
            top = (name, dict_keys(v))
    if top is None:
        raise AnalysisError(f"{WRITER}: top-level dictionary of the input file not found")
    topname, sections = top
    fs_props, fs_req, _ = schema_props(prog, "file_structure.schema.json")

    # K7
    loader_sections = set()
    for n in ast.walk(lfi.node):
        if isinstance(n, ast.Subscript) and isinstance(n.value, ast.Name) and n.value.id == _inputs_name(lfi) and isinstance(n.slice, ast.Constant):
            loader_sections.add(n.slice.value)
    ok = set(sections) == fs_req
    res.ob("K7", f"sections written {sorted(sections)} = required by file_structure.schema.json", ok, prog.loc(wfi, wfi.node))
    if not ok:
        res.violation("K7", f"sections|written-vs-required|{sorted(set(sections) ^ fs_req)}", prog.loc(wfi, wfi.node), WRITER,
                      f"sections written and sections required by file_structure.schema.json differ: {sorted(set(sections) ^ fs_req)}")
    ok = loader_sections == set(sections)
    res.ob("K7", f"sections read by the loader {sorted(loader_sections)} = sections written", ok, prog.loc(lfi, lfi.node))
    if not ok:
        res.violation("K7", f"sections|loader|{sorted(loader_sections ^ set(sections))}", prog.loc(lfi, lfi.node), WORKER,
                      f"the loader reads sections {sorted(loader_sections - set(sections))} that are not written / ignores {sorted(set(sections) - loader_sections)}")

    # section tables: key -> (value expr, conditional?, source function)
    tables = {}

    def from_to_input(cls_q: str):
        m = prog.method(cls_q, "to_input")
        if m is None:
            raise AnalysisError(f"{cls_q}.to_input not found")
        res.analysed(m.qualname)
        return m, {k: (v, c, m) for k, (v, c) in to_input_table(m).items()}

    sec_source = {}
    for sec, v in sections.items():
        if isinstance(v, ast.Call) and isinstance(v.func, ast.Attribute) and v.func.attr == "to_input":
            sec_source[sec] = attr_chain(v.func.value)
        elif isinstance(v, ast.Name):
            init = ks.inits.get(v.id)
            if isinstance(init, ast.Call) and isinstance(init.func, ast.Attribute) and init.func.attr == "to_input":
                sec_source[sec] = (attr_chain(init.func.value), v.id)
            elif isinstance(init, ast.Dict):
                sec_source[sec] = ("<literal>", v.id)
            elif init is None:
                sec_source[sec] = ("<scalar>", v)
            else:
                raise AnalysisError(f"{WRITER}: origin of section '{sec}' not understood")
        elif isinstance(v, ast.Dict):
            sec_source[sec] = ("<inline>", v)
    owner_cls = {
        "self._fluid": "ghedesigner.media.GHEFluid", "self._grout": "ghedesigner.media.Grout", "self._soil": "ghedesigner.media.Soil",
        "self._borehole": "ghedesigner.borehole.GHEBorehole", "self._simulation_parameters": "ghedesigner.simulation.SimulationParameters",
        "self._design": "ghedesigner.design.DesignBase",
    }

    def extra_stores(dname):
        out = {}
        for dn, key, val, guards, node in ks.stores:
            if dn == dname:
                out.setdefault(key, []).append((val, guards, node))
        return out

    def section_table(sec, geom_cls=None, pipe_member=None):
        src = sec_source[sec]
        tab = {}
        if isinstance(src, str):
            _, tab = from_to_input(owner_cls[src])
        elif src[0] == "<inline>":
            tab = {k: (v, False, wfi) for k, v in dict_keys(src[1]).items()}
        else:
            holder, dname = src
            if holder == "<literal>":
                tab = {k: (v, False, wfi) for k, v in dict_keys(ks.inits[dname]).items()}
            elif holder == "self._geometric_constraints":
                _, tab = from_to_input(f"{GEO}.{geom_cls}")
            else:
                _, tab = from_to_input(owner_cls[holder])
            for key, lst in extra_stores(dname).items():
                for val, guards, node in lst:
                    cond = False
                    skip = False
                    for test, pol in guards:
                        mem = enum_members_in(prog, test, "BHPipeType")
                        if mem and pipe_member is not None:
                            holds = _pipe_test_holds(test, pipe_member)
                            if holds is None:
                                raise AnalysisError(f"{WRITER}: pipe-type test not understood: {ast.unparse(test)}")
                            if holds != pol:
                                skip = True
                        elif mem:
                            cond = True
                        else:
                            cond = True
                    if not skip:
                        tab[key] = (val, cond, wfi)
        return tab

    # ---------------- per section checks
    def check_section(sec, schema_name, tab, variant=""):
        props, req, pdefs = schema_props(prog, schema_name)
        uncond = {k for k, (v, c, f) in tab.items() if not c}
        cond = {k for k, (v, c, f) in tab.items() if c}
        miss = sorted(req - uncond)
        res.ob("K1", f"[{sec}{variant}] required keys of {schema_name} are written unconditionally", not miss, f"ghedesigner/schemas/{schema_name}")
        for k in miss:
            res.violation("K1", f"{sec}{variant}|required-not-written|{k}", f"ghedesigner/schemas/{schema_name}:1", WRITER,
                          f"'{k}' is required by {schema_name} but the writer " + ("writes it only conditionally" if k in cond else "never writes it") +
                          f" for [{sec}{variant}]: the written file fails the tool's own validation")
        extra = sorted(set(tab) - props)
        res.ob("K2", f"[{sec}{variant}] written keys are properties of {schema_name}", not extra, f"ghedesigner/schemas/{schema_name}")
        for k in extra:
            f = tab[k][2]
            res.violation("K2", f"{sec}{variant}|not-in-schema|{k}", prog.loc(f, tab[k][0]), f.qualname,
                          f"the writer emits '{k}' in [{sec}{variant}] but {schema_name} does not describe it")
        return props, req, pdefs, uncond, cond

    pipe_variants = {"SINGLEUTUBE": "pipe_single_double_u_tube.schema.json", "DOUBLEUTUBEPARALLEL": "pipe_single_double_u_tube.schema.json",
                     "DOUBLEUTUBESERIES": "pipe_single_double_u_tube.schema.json", "COAXIAL": "pipe_coaxial.schema.json"}
    simple = {"fluid": "fluid.schema.json", "grout": "grout.schema.json", "soil": "soil.schema.json", "borehole": "borehole.schema.json",
              "simulation": "simulation.schema.json", "design": "design.schema.json", "loads": "loads.schema.json"}
    sec_tabs = {}
    for sec, schema_name in simple.items():
        tab = section_table(sec)
        sec_tabs[(sec, "")] = (tab, schema_name)
        check_section(sec, schema_name, tab)
    for mem, schema_name in pipe_variants.items():
        tab = section_table("pipe", pipe_member=mem)
        sec_tabs[("pipe", mem)] = (tab, schema_name)
        check_section("pipe", schema_name, tab, f":{mem}")
    for mem, (cls, schema_name, setter) in GEOM_CLASSES.items():
        tab = section_table("geometric_constraints", geom_cls=cls)
        sec_tabs[("geometric_constraints", mem)] = (tab, schema_name)
        check_section("geometric_constraints", schema_name, tab, f":{mem}")
    res.count("section_variants", len(sec_tabs))
    res.floor("section_variants", 17)

    _check_optional_values(prog, res, sec_tabs)
    _check_shapes(prog, res)
    _check_loader(prog, res, lfi, sec_tabs)
    _check_roundtrip(prog, res, sec_tabs)
    _check_enums(prog, res, wfi, lfi)
    # K10 schema bounds fit the physical kind the schema itself annotates (format): a signed quantity must not be bounded below
    #     by zero - the API accepts sub-zero temperatures / extraction loads / rotations, writes them, and the file would be refused
    SIGNED = {"Centigrade": (-273.15, None), "Watts": (None, None), "Degrees": (-90.0, 90.0)}
    n_signed = 0
    for sname, sch in sorted(prog.schemas.items()):
        for key, pdef in (sch.get("properties") or {}).items():
            if not isinstance(pdef, dict) or pdef.get("format") not in SIGNED:
                continue
            n_signed += 1
            lo_need, hi_need = SIGNED[pdef["format"]]
            lo = pdef.get("minimum", pdef.get("exclusiveMinimum") if not isinstance(pdef.get("exclusiveMinimum"), bool) else None)
            hi = pdef.get("maximum", pdef.get("exclusiveMaximum") if not isinstance(pdef.get("exclusiveMaximum"), bool) else None)
            sub = pdef.get("items") if isinstance(pdef.get("items"), dict) else {}
            lo = lo if lo is not None else sub.get("minimum")
            hi = hi if hi is not None else sub.get("maximum")
            ok = (lo is None or (lo_need is not None and lo <= lo_need)) and (hi is None or (hi_need is not None and hi >= hi_need))
            res.ob("K10", f"{sname}: '{key}' ({pdef['format']}) is not bounded more tightly than its physical range (minimum {lo}, maximum {hi})", ok, f"ghedesigner/schemas/{sname}")
            if not ok:
                res.violation("K10", f"{sname}|{key}|bounds|{lo}|{hi}", f"ghedesigner/schemas/{sname}:1", "schemas",
                              f"{sname} bounds '{key}' ({pdef['format']}) to [{lo}, {hi}]: the API accepts and writes values outside it (sub-zero temperatures are ordinary for antifreeze mixtures, "
                              "extraction loads are negative) and the tool then refuses its own file")
    res.count("signed_schema_properties", n_signed)
    res.floor("signed_schema_properties", 6)
    # K8 names are mapped to enum members by equality with the member's name, never as substrings
    from ..memo import substring_tests

    n_sub = 0
    for f_, n_, rtxt in substring_tests(prog):
        if f_.module.endswith((".media", ".geometry", ".simulation", ".enums", ".borehole", ".design", ".borehole_heat_exchangers")) or (f_.module.endswith(".manager") and f_.cls):
            n_sub += 1
            res.ob("K8", f"{f_.qualname}: '{ast.unparse(n_)[:60]}' compares names exactly", False, prog.loc(f_, n_))
            res.violation("K8", f"substring|{f_.qualname}|{ast.unparse(n_)[:60]}", prog.loc(f_, n_), f_.qualname,
                          f"'{ast.unparse(n_)[:80]}' is a substring test ({rtxt[:40]} is a string): a name that contains another member's name is mapped to that member, "
                          "so the file that is written names something else than what was configured")
    res.ob("K8", "configuration names are mapped to enum members by equality or membership in a collection", n_sub == 0, "ghedesigner/media.py")
    return res


def _pipe_test_holds(test: ast.expr, member: str):
    """truth of a test on self.pipe_type for a given BHPipeType member (== member, in [members])"""
    if isinstance(test, ast.Compare) and len(test.ops) == 1 and attr_chain(test.left) == "self.pipe_type":
        r = test.comparators[0]
        if isinstance(test.ops[0], ast.Eq):
            c = attr_chain(r)
            return c == f"BHPipeType.{member}" if c else None
        if isinstance(test.ops[0], ast.In) and isinstance(r, (ast.List, ast.Tuple, ast.Set)):
            return any(attr_chain(e) == f"BHPipeType.{member}" for e in r.elts)
    return None


# ---------------------------------------------------------------------------
def _optional_setter_params(prog: Program):
    """(setter name, param) whose annotation admits None or whose default is None"""
    out = set()
    cls = prog.cls(f"{MGR}.GHEManager")
    for name, m in cls.methods.items():
        if not name.startswith("set_"):
            continue
        a = m.node.args
        dfl = m.defaults()
        for p in a.args + a.kwonlyargs:
            ann = ast.unparse(p.annotation) if p.annotation is not None else ""
            d = dfl.get(p.arg)
            if "None" in ann or "Optional" in ann or (isinstance(d, ast.Constant) and d.value is None):
                out.add((name, p.arg))
    return out


def _array_depth(schema_prop) -> int:
    d = 0
    while isinstance(schema_prop, dict) and schema_prop.get("type") == "array":
        d += 1
        schema_prop = schema_prop.get("items")
    return d


def _check_shapes(prog: Program, res: Result):
    """K11 (sibling agreement): where a geometry class writes two attributes under keys of the same nested-array shape (lists of
    polygons) and its constructor accepts the flat spelling for one of them - it wraps a single polygon into a list, so that
    what is written has the schema's depth - it must do so for the other one too.  The constructor itself says which spellings the
    API accepts; an attribute that is stored as given is written with one level missing when the flat spelling is used."""
    n = 0
    for mem, (cls, schema_name, setter) in sorted(GEOM_CLASSES.items()):
        cq = f"{GEO}.{cls}"
        ti = prog.method(cq, "to_input")
        init = prog.method(cq, "__init__")
        if ti is None or init is None:
            continue
        props = prog.schemas[schema_name].get("properties", {})
        tab = to_input_table(ti)
        by_depth = {}
        for key, (val, cond) in tab.items():
            d = _array_depth(props.get(key))
            src = attr_chain(val) if isinstance(val, ast.Attribute) else None
            if d >= 3 and src and src.startswith("self."):
                by_depth.setdefault(d, []).append((key, src, val))
        for d, lst in by_depth.items():
            treat = {}
            for key, src, val in lst:
                def wraps_param(v, depth=0):
                    """does the value contain [param] as one of its alternatives (conditional expression), directly or through a local"""
                    if isinstance(v, ast.List) and len(v.elts) == 1 and isinstance(v.elts[0], ast.Name):
                        return True
                    if isinstance(v, ast.IfExp):
                        return wraps_param(v.body, depth) or wraps_param(v.orelse, depth)
                    if isinstance(v, ast.Name) and depth < 3:
                        return any(isinstance(a2, ast.Assign) and any(isinstance(t2, ast.Name) and t2.id == v.id for t2 in a2.targets) and wraps_param(a2.value, depth + 1) for a2 in ast.walk(init.node))
                    return False

                wraps = [a for a in ast.walk(init.node) if isinstance(a, ast.Assign) and any(attr_chain(t) == src for t in a.targets) and wraps_param(a.value)]
                conditional = [a for a in wraps if "isinstance" in ast.unparse(init.node)]
                treat[key] = bool(conditional)
            if any(treat.values()):
                for key, src, val in lst:
                    n += 1
                    res.ob("K11", f"[geometric_constraints:{mem}] '{key}' (depth {d} in {schema_name}): a single polygon given flat is wrapped into a list, as for its sibling keys", treat[key], prog.loc(init, init.node))
                    if not treat[key]:
                        sib = next(k for k, v in treat.items() if v)
                        res.violation("K11", f"{mem}|shape|{key}", prog.loc(ti, val), cq,
                                      f"{cls} accepts a single polygon for '{sib}' (it wraps it into a list) but stores '{key}' as given: the flat spelling the API accepts is written with one "
                                      f"nesting level missing, and {schema_name} (depth {d}) rejects the file the tool wrote")
    res.count("nested_shape_keys", n)
    res.floor("nested_shape_keys", 2)


def _check_optional_values(prog: Program, res: Result, sec_tabs):
    """K1 (second half): a value that may be None by the API is never written under a required key"""
    opt = _optional_setter_params(prog)
    res.count("optional_api_values", len(opt))
    mgr = prog.cls(f"{MGR}.GHEManager")
    for setter, param in sorted(opt):
        m = mgr.methods[setter]
        # follow the parameter into a constructor call and on to the attribute it is stored in
        for call in [n for n in ast.walk(m.node) if isinstance(n, ast.Call)]:
            cn = attr_chain(call.func)
            r = prog.resolve_name(m.module, cn) if cn and "." not in cn else None
            if not (r and r[0] == "class"):
                continue
            init = prog.method(r[1].qualname, "__init__")
            if init is None:
                continue
            b = bind_args(init, call)
            for cparam, arg in b.items():
                if isinstance(arg, ast.Name) and arg.id == param:
                    attrs = [attr_chain(s.targets[0]) for s in ast.walk(init.node)
                             if isinstance(s, ast.Assign) and len(s.targets) == 1 and isinstance(s.value, ast.Name) and s.value.id == cparam and attr_chain(s.targets[0])]
                    for (sec, var), (tab, schema_name) in sec_tabs.items():
                        props, req, pdefs = schema_props(prog, schema_name)
                        for key, (val, cond, f) in tab.items():
                            src = attr_chain(val) if isinstance(val, ast.Attribute) else None
                            owner_ok = f.cls == r[1].name or (src or "").split(".")[-1] in [a.split(".")[-1] for a in attrs if a]
                            if src and attrs and src.split(".")[-1] == attrs[0].split(".")[-1] and (f.cls == r[1].name or f.qualname == WRITER):
                                nullable = "null" in str(pdefs.get(key, {}).get("type", ""))
                                ok = cond or (key not in req and nullable) or nullable
                                res.ob("K1", f"[{sec}:{var}] '{key}' may be None by the API ({setter}({param})): written only when present, or schema admits null", ok, prog.loc(f, val))
                                if not ok:
                                    res.violation("K1", f"{sec}:{var}|optional-written-unconditionally|{key}", prog.loc(f, val), f.qualname,
                                                  f"{setter}() accepts {param}=None, but '{key}' is written unconditionally"
                                                  + (f" and {schema_name} requires it" if key in req else "")
                                                  + f" with type {pdefs.get(key, {}).get('type')}: a configuration the API accepts produces a file (null) that fails validation")


# ---------------------------------------------------------------------------
def _check_loader(prog: Program, res: Result, lfi, sec_tabs):
    # names bound to sections in the loader
    sec_of = {}
    for n in ast.walk(lfi.node):
        if isinstance(n, ast.Assign) and len(n.targets) == 1 and isinstance(n.targets[0], ast.Name):
            v = n.value
            if isinstance(v, ast.Subscript) and isinstance(v.value, ast.Name) and v.value.id == _inputs_name(lfi) and isinstance(v.slice, ast.Constant):
                sec_of[n.targets[0].id] = v.slice.value
            if (isinstance(v, ast.Subscript) and isinstance(v.value, ast.Subscript) and isinstance(v.value.value, ast.Name) and v.value.value.id == _inputs_name(lfi)
                    and isinstance(v.value.slice, ast.Constant) and isinstance(v.slice, ast.Constant)):
                sec_of[n.targets[0].id] = (v.value.slice.value, v.slice.value)
    # reads with the enum branch they are under
    class V(ast.NodeVisitor):
        def __init__(self):
            self.stack = []
            self.reads = []  # (section, key, kind, [(test,pol)], node)
            self.kw = []  # (section, call)

        def visit_If(self, n):
            self.visit(n.test)
            self.stack.append((n.test, True))
            for s in n.body:
                self.visit(s)
            self.stack[-1] = (n.test, False)
            for s in n.orelse:
                self.visit(s)
            self.stack.pop()

        def visit_Subscript(self, n):
            if isinstance(n.value, ast.Name) and n.value.id in sec_of and isinstance(sec_of[n.value.id], str) and isinstance(n.slice, ast.Constant):
                self.reads.append((sec_of[n.value.id], n.slice.value, "sub", list(self.stack), n))
            self.generic_visit(n)

        def visit_Call(self, n):
            if isinstance(n.func, ast.Attribute) and n.func.attr == "get" and isinstance(n.func.value, ast.Name) and n.func.value.id in sec_of and n.args and isinstance(n.args[0], ast.Constant):
                self.reads.append((sec_of[n.func.value.id], n.args[0].value, "get", list(self.stack), n))
            for k in n.keywords:
                if k.arg is None and isinstance(k.value, ast.Name) and k.value.id in sec_of:
                    self.kw.append((sec_of[k.value.id], n))
            self.generic_visit(n)

    v = V()
    v.visit(lfi.node)
    res.count("loader_key_reads", len(v.reads))
    res.floor("loader_key_reads", 40)

    def variants_for(sec, guards):
        """which (sec, variant) tables a read under these guards applies to"""
        allv = [k for k in sec_tabs if k[0] == sec]
        sel = allv
        for test, pol in guards:
            for enum, attr in (("BHPipeType", "pipe"), ("DesignGeomType", "geometric_constraints")):
                if sec != attr:
                    continue
                mem = enum_members_in(prog, test, enum)
                if mem:
                    if isinstance(test, ast.Compare) and isinstance(test.ops[0], ast.Eq) and len(mem) == 1:
                        m = next(iter(mem))
                        sel = [k for k in sel if (k[1] == m) == pol]
                    elif isinstance(test, ast.Compare) and len(test.ops) == 1 and isinstance(test.ops[0], (ast.In, ast.NotIn)) and isinstance(test.comparators[0], (ast.List, ast.Tuple, ast.Set)):
                        want = pol == isinstance(test.ops[0], ast.In)
                        sel = [k for k in sel if (k[1] in mem) == want]
                elif isinstance(test, ast.Compare) and len(test.ops) == 1 and isinstance(test.ops[0], (ast.In, ast.NotIn)) and isinstance(test.comparators[0], ast.Name):
                    # membership in a table bound once in the loader (a dict of setters keyed by the enum members, a tuple of members)
                    nm = test.comparators[0].id
                    ds = [a for a in ast.walk(lfi.node) if isinstance(a, ast.Assign) and any(isinstance(t, ast.Name) and t.id == nm for t in a.targets)]
                    if len(ds) == 1 and isinstance(ds[0].value, (ast.Dict, ast.List, ast.Tuple, ast.Set)):
                        keys = ds[0].value.keys if isinstance(ds[0].value, ast.Dict) else ds[0].value.elts
                        mem2 = {attr_chain(k_).split(".")[1] for k_ in keys if k_ is not None and (attr_chain(k_) or "").startswith(enum + ".")}
                        if mem2 and len(mem2) == len(keys):
                            want = pol == isinstance(test.ops[0], ast.In)
                            sel = [k for k in sel if (k[1] in mem2) == want]
        return sel

    # a key the writer leaves out stands for "not set" (None / False): the loader's fall-back for a missing key must be that, not a
    # value of its own - otherwise a configuration without the key comes back with one
    for sec, key, kind, guards, node in v.reads:
        if kind != "get" or len(node.args) < 2:
            continue
        d_ = node.args[1]
        falsy = isinstance(d_, ast.Constant) and not d_.value
        res.ob("K3", f"[{sec}] loader .get('{key}', {ast.unparse(d_)[:20]}) falls back on 'not set'", falsy, prog.loc(lfi, node))
        if not falsy:
            res.violation("K3", f"{sec}|get-default|{key}|{ast.unparse(d_)[:30]}", prog.loc(lfi, node), WORKER,
                          f"the loader reads [{sec}].get('{key}', {ast.unparse(d_)[:40]}): the writer leaves '{key}' out exactly when it is not set, so a configuration without it is loaded with "
                          f"{ast.unparse(d_)[:40]} instead - another configuration (it is written back with the key, and runs another design)")
    # a key of a section that has no variants (design, simulation, borehole, ...) is written whatever the geometry / pipe choice is:
    # the loader must read it whatever that choice is - a read that only happens under a test on ANOTHER section drops a written value
    name_of_sec = {v_: k_ for k_, v_ in sec_of.items() if isinstance(v_, str)}
    for sec, key, kind, guards, node in v.reads:
        if sec in ("pipe", "geometric_constraints") or not guards:
            continue
        foreign = []
        for test, pol in guards:
            ifn = next((n_ for n_ in ast.walk(lfi.node) if isinstance(n_, ast.If) and n_.test is test), None)
            other = (ifn.orelse if pol else ifn.body) if ifn is not None else []
            if other and isinstance(other[-1], (ast.Return, ast.Raise)):
                continue  # the other branch leaves the function: every run that goes on passes through this read
            names = {x.id for x in ast.walk(test) if isinstance(x, ast.Name)}
            others = {sec_of[n_] for n_ in names if n_ in sec_of and isinstance(sec_of[n_], str) and sec_of[n_] != sec}
            enums = any((attr_chain(x) or "").startswith(("DesignGeomType.", "BHPipeType.")) for x in ast.walk(test) if isinstance(x, ast.Attribute))
            if others or enums:
                foreign.append(ast.unparse(test)[:80])
        res.ob("K3", f"[{sec}] loader reads '{key}' whatever the geometry / pipe choice is", not foreign, prog.loc(lfi, node))
        if foreign:
            res.violation("K3", f"{sec}|read-under-foreign-guard|{key}", prog.loc(lfi, node), WORKER,
                          f"the loader reads [{sec}]['{key}'] only when '{foreign[0]}' holds, but the writer emits it for every configuration: a written value is silently dropped on loading "
                          "(the design that is run differs from the one that was configured, and writing it again loses the key)")
    for sec, key, kind, guards, node in v.reads:
        for tk in variants_for(sec, guards):
            tab, schema_name = sec_tabs[tk]
            props, req, pdefs = schema_props(prog, schema_name)
            ent = tab.get(key)
            label = f"[{tk[0]}{':' + tk[1] if tk[1] else ''}]"
            if kind == "sub":
                ok = ent is not None and not ent[1]
                res.ob("K3", f"{label} loader subscript '{key}' is written unconditionally", ok, prog.loc(lfi, node))
                if not ok:
                    res.violation("K3", f"{tk[0]}:{tk[1]}|loader-subscript|{key}", prog.loc(lfi, node), WORKER,
                                  f"the loader reads {label}['{key}'] unconditionally but the writer " + ("writes it only conditionally" if ent else "never writes it") +
                                  ": reading back a written file raises KeyError")
            else:
                ok = ent is None or ent[1]
                ok2 = key not in req
                res.ob("K3", f"{label} loader .get('{key}') <-> conditional write <-> not required", ok and ok2, prog.loc(lfi, node))
                if not ok:
                    res.violation("K3", f"{tk[0]}:{tk[1]}|get-vs-unconditional|{key}", prog.loc(lfi, node), WORKER,
                                  f"the loader treats {label}['{key}'] as optional but the writer always writes it (possibly as null)")
                if not ok2:
                    res.violation("K3", f"{tk[0]}:{tk[1]}|get-vs-required|{key}", prog.loc(lfi, node), WORKER,
                                  f"the loader treats {label}['{key}'] as optional but {schema_name} requires it")
    # conditional writes must be read with .get
    for tk, (tab, schema_name) in sec_tabs.items():
        for key, (val, cond, f) in tab.items():
            if cond:
                kinds = {k for s, ky, k, g, n in v.reads if s == tk[0] and ky == key}
                ok = kinds == {"get"}
                res.ob("K3", f"[{tk[0]}] conditionally written '{key}' is read with .get", ok, prog.loc(f, val))
                if not ok:
                    res.violation("K3", f"{tk[0]}|conditional-not-get|{key}", prog.loc(f, val), WORKER,
                                  f"'{key}' is written only under a condition but the loader " + ("subscripts it" if "sub" in kinds else "never reads it"))
    # K4: ** sections
    mgr = prog.cls(f"{MGR}.GHEManager")
    for sec, call in v.kw:
        meth = call.func.attr if isinstance(call.func, ast.Attribute) else None
        m = mgr.methods.get(meth)
        if m is None:
            raise AnalysisError(f"{WORKER}: ** expansion into an unknown setter {ast.unparse(call.func)}")
        params = [p for p in m.params() if p not in ("self",)]
        explicit = {k_ for k_ in bind_args(m, call)}
        tab, schema_name = sec_tabs[(sec, "")]
        want = set(tab)
        free = set(params) - explicit
        ok = want <= free and not any(p not in want and p not in m.defaults() for p in free)
        res.ob("K4", f"[{sec}] keys {sorted(want)} match the parameters of {meth}({', '.join(params)})", ok, prog.loc(lfi, call))
        if not ok:
            res.violation("K4", f"{sec}|kwargs|{sorted(want ^ free)}", prog.loc(lfi, call), WORKER,
                          f"{meth}(**{sec}) receives keys {sorted(want)} but accepts {sorted(free)}: TypeError or silently defaulted value when a written file is read back")
        props, req, _ = schema_props(prog, schema_name)
        extra = sorted(props - set(params))
        res.ob("K4", f"[{sec}] every schema property is a parameter of {meth}", not extra, f"ghedesigner/schemas/{schema_name}")
        for k in extra:
            res.violation("K4", f"{sec}|schema-prop-not-param|{k}", f"ghedesigner/schemas/{schema_name}:1", WORKER,
                          f"{schema_name} allows '{k}' but {meth}(**{sec}) has no such parameter (a valid file raises TypeError)")
    res.count("kwargs_sections", len(v.kw))
    # K9: every key the writer emits is consumed by the loader - read by subscript / .get, or covered by a ** expansion of its
    # section.  A written value the loader does not pass on is replaced by the setter's default when the file is read back.
    expanded = {sec for sec, _ in v.kw}
    n_k9 = 0
    for tk, (tab, schema_name) in sorted(sec_tabs.items()):
        sec = tk[0]
        if sec in expanded:
            n_k9 += len(tab)
            continue
        read_keys = {ky for s_, ky, k_, g_, n_ in v.reads if s_ == sec and tk in variants_for(sec, g_)}
        for n_ in ast.walk(lfi.node):  # inputs['sec']['key'] read without a section local
            if isinstance(n_, ast.Subscript) and isinstance(n_.slice, ast.Constant) and isinstance(n_.value, ast.Subscript) and isinstance(n_.value.slice, ast.Constant) \
                    and n_.value.slice.value == sec and isinstance(n_.value.value, ast.Name) and n_.value.value.id == _inputs_name(lfi):
                read_keys.add(n_.slice.value)
        for key, (val, cond, f) in sorted(tab.items()):
            if key == "method" or key == "arrangement":
                continue  # dispatch keys: read by the loader's own branches (K6 / K3)
            n_k9 += 1
            ok = key in read_keys
            res.ob("K9", f"[{sec}{':' + tk[1] if tk[1] else ''}] written key '{key}' is read back by the loader", ok, prog.loc(f, val))
            if not ok:
                res.violation("K9", f"{sec}:{tk[1]}|written-not-read|{key}", prog.loc(f, val), WORKER,
                              f"the writer emits [{sec}]['{key}'] but the loader never reads it: when the file is read back the setter's default takes the place of the configured value "
                              "(the reconstructed configuration, the rewritten file and the design differ)")
    res.count("written_keys", n_k9)
    res.floor("written_keys", 30)


# ---------------------------------------------------------------------------
def _run_init(prog: Program, init, env: dict, depth: int = 0):
    """run one __init__ with the given parameter environment -> list of final states"""

    class H(Hooks):
        def on_call(self, node, fname, args, kwargs, st, eng):
            if isinstance(node.func, ast.Attribute) and node.func.attr == "__init__" and depth < 6:
                base = None
                explicit_self = False
                if isinstance(node.func.value, ast.Call) and attr_chain(node.func.value.func) == "super":
                    for c in prog.mro(f"{init.module}.{init.cls}")[1:]:
                        if "__init__" in c.methods:
                            base = c.methods["__init__"]
                            break
                elif attr_chain(node.func.value):
                    r = prog.resolve_name(init.module, attr_chain(node.func.value))
                    if r and r[0] == "class":
                        base = r[1].methods.get("__init__")
                        explicit_self = True
                if base is not None and base is not init:
                    pos = [p for p in base.params() if p != "self"]
                    argn = node.args[1:] if (explicit_self and node.args and isinstance(node.args[0], ast.Name) and node.args[0].id == "self") else node.args
                    sub_env = {p: eng.eval(a, st) for p, a in zip(pos, argn)}
                    sub_env.update({k.arg: eng.eval(k.value, st) for k in node.keywords if k.arg})
                    fins = _run_init(prog, base, sub_env, depth + 1)
                    if fins:
                        for k, v in fins[0].env.items():
                            if k.startswith("self."):
                                st.env[k] = v
                    return Const(None)
            return None

    eng = Engine(prog, init, H())
    st = State()
    st.env.update(env)
    return eng.run_function(st)


def _ctor_env(prog: Program, cls_q: str):
    """attribute -> Rat over constructor parameter atoms P:<name> (super().__init__ followed)"""
    init = prog.method(cls_q, "__init__")
    if init is None:
        return None, {}
    env = {p: Rat.atom(f"P:{p}") for p in init.params() if p != "self"}
    fin = _run_init(prog, init, env)
    out = {}
    keys = set.intersection(*[{k for k in f.env if k.startswith("self.")} for f in fin]) if fin else set()
    for k in keys:
        vals = [f.env[k] for f in fin]
        if all(isinstance(x, Rat) for x in vals) and all(x.equals(vals[0]) for x in vals):
            out[k] = vals[0]
        else:
            out[k] = None  # set on every path, but not by one closed form (e.g. normalised in an if / else)
    return init, out


def _check_roundtrip(prog: Program, res: Result, sec_tabs):
    """K5 for the geometry classes, borehole, soil / grout, pipe (u-tube), simulation"""
    mgr = prog.cls(f"{MGR}.GHEManager")
    lfi = prog.func(WORKER)
    n_rt = 0

    def setter_ctor_args(setter_name, cls_name):
        m = mgr.methods[setter_name]
        res.analysed(m.qualname)
        eng = Engine(prog, m, Hooks())
        st = State()
        for p in m.params():
            if p != "self":
                st.env[p] = Rat.atom(f"K:{p}")
        fin = [f for f in eng.run_function(st)]
        calls = [n for n in ast.walk(m.node) if isinstance(n, ast.Call) and attr_chain(n.func) == cls_name]
        if len(calls) != 1:
            raise AnalysisError(f"{m.qualname}: constructor call {cls_name}(...) not found")
        init = prog.method(prog.resolve_name(m.module, cls_name)[1].qualname, "__init__")
        b = bind_args(init, calls[0])
        f0 = fin[0]
        return m, {p: eng.eval(a, f0) for p, a in b.items()}

    def loader_binding(setter_name):
        """setter param -> key read by the loader for that call"""
        out = {}
        for n in ast.walk(lfi.node):
            if isinstance(n, ast.Call) and isinstance(n.func, ast.Attribute) and n.func.attr == setter_name:
                sm = mgr.methods.get(setter_name)
                bound = bind_args(sm, n) if sm is not None else {k.arg: k.value for k in n.keywords if k.arg}
                for karg, kval in bound.items():
                    if isinstance(kval, ast.Subscript) and isinstance(kval.slice, ast.Constant):
                        out[karg] = (ast.unparse(kval.value), kval.slice.value)
                    elif isinstance(kval, ast.Call) and isinstance(kval.func, ast.Attribute) and kval.func.attr == "get" and kval.args and isinstance(kval.args[0], ast.Constant):
                        out[karg] = (ast.unparse(kval.func.value), kval.args[0].value)  # section.get("key") written at the call
                    elif isinstance(kval, ast.Name):
                        # local bound from .get
                        for s in ast.walk(lfi.node):
                            if isinstance(s, ast.Assign) and len(s.targets) == 1 and isinstance(s.targets[0], ast.Name) and s.targets[0].id == kval.id \
                                    and isinstance(s.value, ast.Call) and isinstance(s.value.func, ast.Attribute) and s.value.func.attr == "get" and s.value.args:
                                out[karg] = (ast.unparse(s.value.func.value), s.value.args[0].value)
        return out

    for mem, (cls, schema_name, setter) in sorted(GEOM_CLASSES.items()):
        cls_q = f"{GEO}.{cls}"
        init, attrs = _ctor_env(prog, cls_q)
        m, ctor_args = setter_ctor_args(setter, cls)
        lb = loader_binding(setter)
        tab, _ = sec_tabs[("geometric_constraints", mem)]
        ti = prog.method(cls_q, "to_input")
        e = Engine(prog, ti, Hooks())
        for key, (val, cond, f) in sorted(tab.items()):
            if f is not ti:
                continue  # max_height / min_height are added by the manager from the simulation parameters
            if key == "method":
                continue
            w = _written_value(res, prog, e, val, key, f"geometric_constraints:{mem}", ti, ti.qualname)
            if w is None:
                continue
            # which setter parameter does the loader feed from this key?
            params = [p for p, (sec, k) in lb.items() if k == key]
            if len(params) != 1:
                res.violation("K5", f"{mem}|{key}|loader-binding", prog.loc(lfi, lfi.node), WORKER,
                              f"[geometric_constraints:{mem}] the written key '{key}' is fed to {len(params)} parameters of {setter}")
                continue
            p = params[0]
            # compose: key value -> setter param -> ctor args -> attributes
            new_attrs = {}
            for a, expr in attrs.items():
                if expr is None:
                    new_attrs[a] = None
                    continue
                sub = {}
                for cp, cv in ctor_args.items():
                    if isinstance(cv, Rat):
                        sub[f"P:{cp}"] = cv
                new_attrs[a] = expr.subs(sub)
            # written value in terms of old attributes; loader gives K:p = w(old attrs)
            src_atoms = [a for a in w.atoms() if a.startswith("self.")]
            if len(src_atoms) != 1:
                continue
            a_old = src_atoms[0]
            if a_old not in new_attrs:
                res.violation("K5", f"{mem}|{key}|attr-missing", prog.loc(ti, val), ti.qualname, f"'{key}' is written from {a_old}, which the constructor does not set")
                continue
            if new_attrs[a_old] is None:
                res.notes.append(f"K5 not analysed for [{mem}] '{key}': {a_old} is normalised by a branch in the constructor")
                continue
            got = new_attrs[a_old].subs({f"K:{p}": w})
            # any other K: atoms must not remain (the attribute must depend on this key only)
            n_rt += 1
            ok = got.equals(Rat.atom(a_old))
            res.ob("K5", f"[geometric_constraints:{mem}] '{key}' -> {setter}({p}) -> {cls}.{a_old.split('.')[-1]} returns to itself (got {got.key()[:80]})", ok, prog.loc(ti, val))
            if not ok:
                res.violation("K5", f"{mem}|{key}|{got.key()[:80]}", prog.loc(ti, val), ti.qualname,
                              f"round trip of '{key}': written from {a_old}, read back through {setter}({p}) it becomes {got.key()[:160]} "
                              f"(constructor argument order, unit conversion or key mix-up)")
    # borehole, soil, grout, simulation through the same machinery
    simple = [
        ("borehole", "ghedesigner.borehole.GHEBorehole", "set_borehole", "GHEBorehole", None),
        ("soil", "ghedesigner.media.Soil", "set_soil", "Soil", None),
        ("grout", "ghedesigner.media.Grout", "set_grout", "Grout", None),
        ("simulation", "ghedesigner.simulation.SimulationParameters", "set_simulation_parameters", "SimulationParameters", None),
    ]
    for sec, cls_q, setter, cname, _ in simple:
        tab, _sn = sec_tabs[(sec, "")]
        init, attrs = _ctor_env(prog, cls_q)
        if cls_q.endswith("GHEBorehole"):
            # pygfunction's Borehole stores (H, D, r_b, x, y): external base, positional contract
            attrs = {"self.H": Rat.atom("P:height"), "self.D": Rat.atom("P:buried_depth"), "self.r_b": Rat.atom("P:radius")}
        m, ctor_args = setter_ctor_args(setter, cname)
        ti = prog.method(cls_q, "to_input")
        e = Engine(prog, ti, Hooks())
        lb = loader_binding(setter)
        if sec in ("soil", "grout"):
            lb = {p: (sec, p) for p in m.params() if p != "self"}  # ** expansion: key = parameter name (K4)
        for key, (val, cond, f) in sorted(tab.items()):
            if f is not ti:
                continue
            w = _written_value(res, prog, e, val, key, sec, ti, ti.qualname)
            if w is None:
                continue
            params = [p for p, (s_, k) in lb.items() if k == key]
            if len(params) != 1:
                res.violation("K5", f"{sec}|{key}|loader-binding", prog.loc(lfi, lfi.node), WORKER, f"[{sec}] the written key '{key}' is fed to {len(params)} parameters of {setter}")
                continue
            p = params[0]
            src_atoms = [a for a in w.atoms() if a.startswith("self.")]
            if len(src_atoms) != 1 or attrs.get(src_atoms[0]) is None:
                continue
            a_old = src_atoms[0]
            sub = {f"P:{cp}": cv for cp, cv in ctor_args.items() if isinstance(cv, Rat)}
            got = attrs[a_old].subs(sub).subs({f"K:{p}": w})
            n_rt += 1
            ok = got.equals(Rat.atom(a_old))
            res.ob("K5", f"[{sec}] '{key}' -> {setter}({p}) -> {cname}.{a_old.split('.')[-1]} returns to itself (got {got.key()[:80]})", ok, prog.loc(ti, val))
            if not ok:
                res.violation("K5", f"{sec}|{key}|{got.key()[:80]}", prog.loc(ti, val), ti.qualname,
                              f"round trip of '{key}': written from {a_old}, read back through {setter}({p}) it becomes {got.key()[:160]}")
    # pipe (u-tube arrangements): written in write_input_file from self._pipe.*
    wfi = prog.func(WRITER)
    ew = Engine(prog, wfi, Hooks())
    for mem, setter in (("SINGLEUTUBE", "set_single_u_tube_pipe"), ("DOUBLEUTUBEPARALLEL", "set_double_u_tube_pipe_parallel"), ("DOUBLEUTUBESERIES", "set_double_u_tube_pipe_series"), ("COAXIAL", "set_coaxial_pipe")):
        tab, _sn = sec_tabs[("pipe", mem)]
        init, attrs = _ctor_env(prog, "ghedesigner.media.Pipe")
        m, ctor_args = setter_ctor_args(setter, "Pipe")
        lb = loader_binding(setter)
        for key, (val, cond, f) in sorted(tab.items()):
            if key == "arrangement":
                continue
            w = _written_value(res, prog, ew, val, key, f"pipe:{mem}", wfi, WRITER)
            if w is None:
                continue
            params = [p for p, (s_, k) in lb.items() if k == key]
            if len(params) != 1:
                res.violation("K5", f"pipe:{mem}|{key}|loader-binding", prog.loc(lfi, lfi.node), WORKER, f"[pipe:{mem}] the written key '{key}' is fed to {len(params)} parameters of {setter}")
                continue
            p = params[0]
            src = [a for a in w.atoms() if a.startswith("self._pipe.")]
            if len(src) != 1:
                continue
            a_old = src[0]  # e.g. self._pipe.r_in  or self._pipe.r_in[0]
            base_attr = "self." + a_old[len("self._pipe."):].split("[")[0]
            if attrs.get(base_attr) is None:
                continue
            newv = attrs[base_attr].subs({f"P:{cp}": cv for cp, cv in ctor_args.items() if isinstance(cv, Rat)})
            # list-valued constructor arguments (coaxial): pick the element
            if "[" in a_old:
                idx = int(a_old.split("[")[1].rstrip("]"))
                cparam = next((cp for cp in ctor_args if attrs[base_attr].equals(Rat.atom(f"P:{cp}"))), None)
                cv = ctor_args.get(cparam)
                if isinstance(cv, Seq) and idx < len(cv.items) and isinstance(cv.items[idx], Rat):
                    newv = cv.items[idx]
                else:
                    continue
            got = newv.subs({f"K:{p}": w})
            n_rt += 1
            ok = got.equals(Rat.atom(a_old))
            res.ob("K5", f"[pipe:{mem}] '{key}' -> {setter}({p}) -> Pipe.{a_old[len('self._pipe.'):]} returns to itself (got {got.key()[:80]})", ok, prog.loc(wfi, val))
            if not ok:
                res.violation("K5", f"pipe:{mem}|{key}|{got.key()[:80]}", prog.loc(wfi, val), WRITER,
                              f"round trip of '{key}' [{mem}]: written from {a_old}, read back through {setter}({p}) it becomes {got.key()[:160]}")
    # keys the manager adds from the simulation parameters (max/min height, max/min eft, cap, continue flag)
    spq = "ghedesigner.simulation.SimulationParameters"
    _, sp_attrs = _ctor_env(prog, spq)
    m, sp_args = setter_ctor_args("set_simulation_parameters", "SimulationParameters")
    lb = loader_binding("set_simulation_parameters")
    ks = KeyStoreCollector()
    ks.visit(wfi.node)
    sec_of_dict = {}
    for sec_name, vnode in dict_keys(next(v for v in ks.inits.values() if isinstance(v, ast.Dict) and any(isinstance(k, ast.Constant) and k.value == "version" for k in v.keys))).items():
        if isinstance(vnode, ast.Name):
            sec_of_dict[vnode.id] = sec_name
    props_var = {}
    for n in ast.walk(lfi.node):
        if isinstance(n, ast.Assign) and len(n.targets) == 1 and isinstance(n.targets[0], ast.Name) and isinstance(n.value, ast.Subscript) \
                and isinstance(n.value.value, ast.Name) and n.value.value.id == _inputs_name(lfi) and isinstance(n.value.slice, ast.Constant):
            props_var[n.targets[0].id] = n.value.slice.value
    n_mgr = 0
    for dname, key, val, guards, node in ks.stores:
        src = attr_chain(val) if isinstance(val, ast.Attribute) else None
        if not src or not src.startswith("self._simulation_parameters."):
            continue
        sec = sec_of_dict.get(dname)
        attr = "self." + src.split(".")[-1]
        params = [p for p, (var, k) in lb.items() if k == key and props_var.get(var) == sec]
        n_mgr += 1
        n_rt += 1
        if guards:
            # an optional key: it may be left out only in the states in which the loader's default restores the attribute,
            # i.e. the guard tests the written attribute itself (against None / True) and the default is that value
            absent_value = "?"
            okg = True
            why = ""
            for test, pol in guards:
                form = None
                if pol and isinstance(test, ast.Compare) and len(test.ops) == 1 and attr_chain(test.left) == src and isinstance(test.comparators[0], ast.Constant):
                    cv = test.comparators[0].value
                    if isinstance(test.ops[0], ast.IsNot) and cv is None:
                        form = "None"
                    elif isinstance(test.ops[0], (ast.Is, ast.Eq)) and cv is True:
                        form = "False"
                    elif isinstance(test.ops[0], (ast.IsNot, ast.NotEq)) and cv is False:
                        form = "False"
                elif pol and attr_chain(test) == src:
                    form = "False"
                if form is None:
                    okg = False
                    why = f"it is written only under '{ast.unparse(test)[:70]}'{'' if pol else ' being false'}, which is not a test of {src} itself"
                else:
                    absent_value = form
            dflt = None
            for n_ in ast.walk(lfi.node):
                if isinstance(n_, ast.Call) and isinstance(n_.func, ast.Attribute) and n_.func.attr == "get" and n_.args and isinstance(n_.args[0], ast.Constant) and n_.args[0].value == key \
                        and props_var.get(ast.unparse(n_.func.value)) == sec:
                    dflt = ast.unparse(n_.args[1]) if len(n_.args) > 1 else "None"
            if okg and dflt is not None and dflt != absent_value:
                okg = False
                why = f"it is left out when {src} is {absent_value}, but the loader then supplies {dflt}"
            res.ob("K5", f"[{sec}] optional key '{key}' is left out exactly when {src} has the loader's default ({dflt})", okg, prog.loc(wfi, node))
            if not okg:
                res.violation("K5", f"{sec}|{key}|optional-guard", prog.loc(wfi, node), WRITER,
                              f"round trip of the optional key '{key}': {why}; in the other states the value is lost when the file is read back")
        if len(params) != 1:
            res.ob("K5", f"[{sec}] manager key '{key}' is fed to exactly one parameter of set_simulation_parameters", False, prog.loc(wfi, node))
            res.violation("K5", f"{sec}|{key}|loader-binding|{params}", prog.loc(lfi, lfi.node), WORKER,
                          f"[{sec}] '{key}' (written from {src}) is read back into {params or 'no parameter'} of set_simulation_parameters from section '{sec}'")
            continue
        p = params[0]
        expr = sp_attrs.get(attr)
        if expr is None:
            continue
        got = expr.subs({f"P:{cp}": cv for cp, cv in sp_args.items() if isinstance(cv, Rat)})
        ok = got.equals(Rat.atom(f"K:{p}"))
        res.ob("K5", f"[{sec}] '{key}' <- {src} returns through set_simulation_parameters({p}) to SimulationParameters.{attr[5:]} (got {got.key()[:50]})", ok, prog.loc(wfi, node))
        if not ok:
            res.violation("K5", f"{sec}|{key}|{got.key()[:60]}", prog.loc(wfi, node), WRITER,
                          f"round trip of '{key}': written from {src}, but reading the file back puts {got.key()[:80]} into that attribute "
                          f"(key / parameter / constructor argument mix-up)")
    res.count("manager_added_keys", n_mgr)
    res.floor("manager_added_keys", 6)
    # fluid and design sections
    for sec, cls_q, setter, cname in (("fluid", "ghedesigner.media.GHEFluid", "set_fluid", "GHEFluid"),):
        tab, _sn = sec_tabs[(sec, "")]
        m = mgr.methods[setter]
        calls = [n for n in ast.walk(m.node) if isinstance(n, ast.Call) and attr_chain(n.func) == cname]
        init = prog.method(cls_q, "__init__")
        if len(calls) != 1:
            raise AnalysisError(f"{m.qualname}: constructor call {cname}(...) not found")
        b = bind_args(init, calls[0])
        ti = prog.method(cls_q, "to_input")
        stored = {}
        for n in ast.walk(init.node):
            if isinstance(n, ast.Assign) and len(n.targets) == 1 and attr_chain(n.targets[0]) and isinstance(n.value, ast.Name):
                stored[attr_chain(n.targets[0])] = n.value.id
        for key, (val, cond, f) in sorted(tab.items()):
            src = attr_chain(val) if isinstance(val, ast.Attribute) else None
            if key == "fluid_name":
                okf = src == "self.fluid_type.name" and "fluid_str" in b and ast.unparse(b["fluid_str"]) == "fluid_name"
                n_rt += 1
                res.ob("K5", "[fluid] 'fluid_name' is the name of the FluidType member selected from the fluid_name argument", okf, prog.loc(ti, val))
                if not okf:
                    res.violation("K5", f"fluid|fluid_name|{src}", prog.loc(ti, val), ti.qualname, f"'fluid_name' is written from {src} and read back into {ast.unparse(b.get('fluid_str')) if 'fluid_str' in b else '?'}")
                continue
            cparam = stored.get(src)
            sparam = ast.unparse(b[cparam]) if cparam in b else None
            n_rt += 1
            ok = sparam == key
            res.ob("K5", f"[fluid] '{key}' <- {src} returns through set_fluid({sparam}) -> GHEFluid({cparam})", ok, prog.loc(ti, val))
            if not ok:
                res.violation("K5", f"fluid|{key}|{sparam}", prog.loc(ti, val), ti.qualname, f"round trip of '{key}': written from {src} (constructor parameter {cparam}), which set_fluid fills from '{sparam}'")
    dti = prog.method("ghedesigner.design.DesignBase", "to_input")
    dtab = {k: v for k, (v, c) in to_input_table(dti).items()}
    dinit = prog.method("ghedesigner.design.DesignBase", "__init__")
    stored = {attr_chain(n.targets[0]): n.value.id for n in ast.walk(dinit.node) if isinstance(n, ast.Assign) and len(n.targets) == 1 and attr_chain(n.targets[0]) and isinstance(n.value, ast.Name)}
    sd = mgr.methods["set_design"]
    lbd = loader_binding("set_design")
    for key, val in sorted(dtab.items()):
        src = attr_chain(val)
        base = src[:-5] if src and src.endswith(".name") else src
        cparam = stored.get(base)
        n_rt += 1
        # every Design*(...) call in set_design passes flow_rate positionally first and flow_type=flow_type
        okc = True
        for c in [n for n in ast.walk(sd.node) if isinstance(n, ast.Call) and (attr_chain(n.func) or "").startswith("Design")]:
            r = prog.resolve_name(sd.module, attr_chain(c.func))
            if not (r and r[0] == "class"):
                continue
            bi = bind_args(prog.method(r[1].qualname, "__init__"), c)
            got_arg = bi.get(cparam)
            if cparam == "v_flow":
                if got_arg is None or ast.unparse(got_arg) != "flow_rate":
                    okc = False
            elif cparam == "flow_type":
                # a local that is FlowConfigType.<M> exactly when the string parameter equals FlowConfigType.<M>.name
                if not (isinstance(got_arg, ast.Name) and _enum_local_from_string(sd.node, got_arg.id, "flow_type_str", "FlowConfigType", prog.modules[sd.module].constants)):
                    okc = False
            else:
                okc = False
        sparam = {"v_flow": "flow_rate", "flow_type": "flow_type_str"}.get(cparam)
        okl = sparam in lbd and lbd[sparam][1] == key
        res.ob("K5", f"[design] '{key}' <- {src} returns through set_design({sparam}) -> Design*({cparam})", okc and okl, prog.loc(dti, val))
        if not (okc and okl):
            res.violation("K5", f"design|{key}|{cparam}", prog.loc(dti, val), dti.qualname, f"round trip of '{key}': written from {src}; the loader feeds set_design({sparam}) from {lbd.get(sparam)}, constructors receive {cparam} wrongly" )
    # optional keys of every to_input(): left out exactly when their own attribute is None (what the loader's .get() restores)
    n_opt = 0
    for fq, f_ in sorted(prog.funcs.items()):
        if f_.name != "to_input":
            continue
        ks_ = KeyStoreCollector()
        ks_.visit(f_.node)
        for dname, key, val, guards, node in ks_.stores:
            if not guards:
                continue
            n_opt += 1
            src = attr_chain(val)
            okg = src is not None and all(
                pol and isinstance(t_, ast.Compare) and len(t_.ops) == 1 and isinstance(t_.ops[0], ast.IsNot) and attr_chain(t_.left) == src
                and isinstance(t_.comparators[0], ast.Constant) and t_.comparators[0].value is None for t_, pol in guards)
            res.ob("K5", f"{f_.cls.split('.')[-1] if f_.cls else ''}.to_input: optional key '{key}' is left out exactly when {src} is None", okg, prog.loc(f_, node))
            if not okg:
                res.violation("K5", f"to_input|{f_.qualname}|{key}|optional-guard", prog.loc(f_, node), f_.qualname,
                              f"the optional key '{key}' is written under {[ast.unparse(t_)[:50] for t_, _ in guards]}, which is not 'its own attribute is not None': in other states the value is lost on the way through the file")
    res.count("optional_to_input_keys", n_opt)
    res.count("roundtrip_keys", n_rt)
    res.floor("roundtrip_keys", 50)


# ---------------------------------------------------------------------------
def _check_enums(prog: Program, res: Result, wfi, lfi):
    EN = "ghedesigner.enums"
    mgr = prog.cls(f"{MGR}.GHEManager")

    def cmp_members(fi, enum):
        # the function's own nodes and those of the module-level tables it refers to (NAMES = {m.name: m for m in (A, B, ..)})
        out = set()
        for n_ in visible_nodes(prog, fi):
            c = attr_chain(n_) if isinstance(n_, ast.Attribute) else None
            if c and c.startswith(enum + "."):
                out.add(c.split(".")[1])
            if c == f"{enum}.__members__" or (isinstance(n_, ast.Subscript) and attr_chain(n_.value) == enum) or (isinstance(n_, (ast.For, ast.comprehension)) and attr_chain(n_.iter) == enum):
                out |= set(prog.enum_members(f"{EN}.{enum}"))  # looked up by name in the enum itself / iterated: every member
        return out

    def dict_key_members(fi, enum):
        out = set()
        # dictionaries written in the function, and module-level dictionaries the function refers to by name
        mod_consts = prog.modules[fi.module].constants
        local_stores = {x.id for x in ast.walk(fi.node) if isinstance(x, ast.Name) and isinstance(x.ctx, ast.Store)}
        nodes = list(ast.walk(fi.node)) + [y for x in ast.walk(fi.node) if isinstance(x, ast.Name) and isinstance(x.ctx, ast.Load) and x.id in mod_consts and x.id not in local_stores
                                           for y in ast.walk(mod_consts[x.id])]
        for n in nodes:
            if isinstance(n, ast.Dict):
                for k in n.keys:
                    c = attr_chain(k) if isinstance(k, ast.Attribute) else None
                    if c and c.startswith(enum + "."):
                        out.add(c.split(".")[1])
            # the same map after the load-time expansion of `x = TABLE.get(k)` into `if k == E.A: x = .. elif ..`
            if isinstance(n, ast.Compare) and len(n.ops) == 1 and isinstance(n.ops[0], ast.Eq):
                c = attr_chain(n.comparators[0]) if isinstance(n.comparators[0], ast.Attribute) else None
                if c and c.startswith(enum + ".") and (c.count(".") == 1 or c.endswith((".name", ".value"))):
                    out.add(c.split(".")[1])
            # ... or written as a membership test:  k in (E.A.name, E.B.name)  - the collection given in place or held in a local /
            # module-level name that is bound once
            if isinstance(n, ast.Compare) and len(n.ops) == 1 and isinstance(n.ops[0], (ast.In, ast.NotIn)):
                coll = n.comparators[0]
                if isinstance(coll, ast.Name):
                    binds = [a_.value for a_ in ast.walk(fi.node) if isinstance(a_, ast.Assign) and len(a_.targets) == 1 and isinstance(a_.targets[0], ast.Name) and a_.targets[0].id == coll.id]
                    coll = binds[0] if len(binds) == 1 else (mod_consts.get(coll.id) if not binds else None)
                if isinstance(coll, (ast.Tuple, ast.List, ast.Set)):
                    for e_ in coll.elts:
                        c = attr_chain(e_) if isinstance(e_, ast.Attribute) else None
                        if c and c.startswith(enum + ".") and (c.count(".") == 1 or c.endswith((".name", ".value"))):
                            out.add(c.split(".")[1])
        return out

    def expect(rule_desc, members, got, where_fi, enum):
        miss = sorted(set(members) - got)
        res.ob("K6", f"{rule_desc}: handles every {enum} member", not miss, prog.loc(where_fi, where_fi.node))
        for m in miss:
            res.violation("K6", f"{enum}|{rule_desc}|{m}", prog.loc(where_fi, where_fi.node), where_fi.qualname,
                          f"{enum}.{m} is not handled by {rule_desc}")

    geom = prog.enum_members(f"{EN}.DesignGeomType")
    pipe = prog.enum_members(f"{EN}.BHPipeType")
    fluid = prog.enum_members(f"{EN}.FluidType")
    flow = prog.enum_members(f"{EN}.FlowConfigType")
    ts = prog.enum_members(f"{EN}.TimestepType")
    res.count("enum_members", len(geom) + len(pipe) + len(fluid) + len(flow) + len(ts))
    res.floor("enum_members", 19)
    vg = prog.func(f"{VAL}.validate_geometric")
    vp = prog.func(f"{VAL}.validate_pipe")
    expect("validate_geometric schema map", geom, dict_key_members(vg, "DesignGeomType"), vg, "DesignGeomType")
    expect("validate_pipe schema map", pipe, dict_key_members(vp, "BHPipeType"), vp, "BHPipeType")
    expect("set_design_geometry_type", geom, cmp_members(mgr.methods["set_design_geometry_type"], "DesignGeomType"), mgr.methods["set_design_geometry_type"], "DesignGeomType")
    expect("set_design dispatch", geom, cmp_members(mgr.methods["set_design"], "DesignGeomType"), mgr.methods["set_design"], "DesignGeomType")
    expect("loader geometry dispatch", geom, cmp_members(lfi, "DesignGeomType"), lfi, "DesignGeomType")
    expect("set_pipe_type", pipe, cmp_members(mgr.methods["set_pipe_type"], "BHPipeType"), mgr.methods["set_pipe_type"], "BHPipeType")
    expect("loader pipe dispatch", pipe, cmp_members(lfi, "BHPipeType"), lfi, "BHPipeType")
    expect("write_input_file pipe branches", pipe, cmp_members(wfi, "BHPipeType"), wfi, "BHPipeType")
    gb = prog.func("ghedesigner.borehole_heat_exchangers.get_bhe_object")
    expect("get_bhe_object", pipe, cmp_members(gb, "BHPipeType"), gb, "BHPipeType")
    gf = prog.func("ghedesigner.media.GHEFluid.__init__")
    expect("GHEFluid name dispatch", fluid, cmp_members(gf, "FluidType"), gf, "FluidType")
    expect("GHEFluid fluid_map", fluid, dict_key_members(gf, "FluidType"), gf, "FluidType")
    expect("set_design flow type", flow, cmp_members(mgr.methods["set_design"], "FlowConfigType"), mgr.methods["set_design"], "FlowConfigType")
    # schema enum / const
    def schema_enum(name, key):
        p = prog.schemas[name]["properties"][key]
        return set(p.get("enum", [p["const"]] if "const" in p else []))

    for (schema, key, members, enum) in (
        ("fluid.schema.json", "fluid_name", fluid, "FluidType"),
        ("design.schema.json", "flow_type", flow, "FlowConfigType"),
        ("simulation.schema.json", "timestep", ts, "TimestepType"),
    ):
        got = schema_enum(schema, key)
        ok = got == set(members)
        res.ob("K6", f"{schema} '{key}' enum = {enum} members", ok, f"ghedesigner/schemas/{schema}")
        if not ok:
            res.violation("K6", f"{enum}|schema-enum|{sorted(got ^ set(members))}", f"ghedesigner/schemas/{schema}:1", "schemas",
                          f"{schema} '{key}' allows {sorted(got)} but {enum} has {sorted(members)}")
    pipe_allowed = schema_enum("pipe_single_double_u_tube.schema.json", "arrangement") | schema_enum("pipe_coaxial.schema.json", "arrangement")
    ok = pipe_allowed == set(pipe)
    res.ob("K6", "pipe schemas' arrangement enum/const = BHPipeType members", ok, "ghedesigner/schemas/")
    if not ok:
        res.violation("K6", f"BHPipeType|schema-enum|{sorted(pipe_allowed ^ set(pipe))}", "ghedesigner/schemas/pipe_single_double_u_tube.schema.json:1", "schemas",
                      f"the pipe schemas allow {sorted(pipe_allowed)} but BHPipeType has {sorted(pipe)}")
    # each geometry class writes its own method constant, and the schema the validator maps it to expects it
    vmap = {}

    for n in visible_nodes(prog, vg):
        if isinstance(n, ast.Dict):
            for k, v in zip(n.keys, n.values):
                c = attr_chain(k) if isinstance(k, ast.Attribute) else None
                if c and c.startswith("DesignGeomType.") and isinstance(v, ast.Constant):
                    vmap[c.split(".")[1]] = v.value
    for mem, (cls, schema_name, setter) in GEOM_CLASSES.items():
        ti = prog.method(f"{GEO}.{cls}", "to_input")
        d = {k: v for k, (v, c) in to_input_table(ti).items()}
        mv = attr_chain(d["method"]) if "method" in d and isinstance(d["method"], ast.Attribute) else None
        ok = mv == f"DesignGeomType.{mem}.name"
        res.ob("K6", f"{cls}.to_input writes method = {mem}", ok, prog.loc(ti, d.get("method", ti.node)))
        if not ok:
            res.violation("K6", f"method-constant|{cls}|{mv}", prog.loc(ti, d.get("method", ti.node)), ti.qualname, f"{cls}.to_input writes method {mv} instead of DesignGeomType.{mem}.name")
        ok = vmap.get(mem) == schema_name and prog.schemas[schema_name]["properties"]["method"].get("const") == mem
        res.ob("K6", f"validator maps {mem} to {schema_name}, whose method const is {mem}", ok, prog.loc(vg, vg.node))
        if not ok:
            res.violation("K6", f"schema-map|{mem}|{vmap.get(mem)}", prog.loc(vg, vg.node), vg.qualname,
                          f"{mem} is validated against {vmap.get(mem)} (method const {prog.schemas.get(vmap.get(mem), {}).get('properties', {}).get('method', {}).get('const')})")
        # the constructor stamps the same type the manager dispatches on
        init, attrs = None, None
        ci = prog.method(f"{GEO}.{cls}", "__init__")
        stamps = [attr_chain(s.value) for s in ast.walk(ci.node) if isinstance(s, ast.Assign) and any(attr_chain(t) == "self.type" for t in s.targets) and isinstance(s.value, ast.Attribute)]
        ok = stamps and stamps[-1] == f"DesignGeomType.{mem}"
        res.ob("K6", f"{cls}.__init__ stamps type = {mem}", bool(ok), prog.loc(ci, ci.node))
        if not ok:
            res.violation("K6", f"type-stamp|{cls}|{stamps}", prog.loc(ci, ci.node), ci.qualname, f"{cls} stamps type {stamps} instead of DesignGeomType.{mem}")


VARIANTS = [
    Variant("loader forwards max_boreholes only for the rectangle / near-square methods (seeded C17_k)", "break",
            [(MGR, "    max_bh = design_props.get(\"max_boreholes\", None)\n", "    max_bh = None\n    if str(constraint_props[\"method\"]).upper() in (DesignGeomType.RECTANGLE.name, DesignGeomType.NEARSQUARE.name):\n        max_bh = design_props.get(\"max_boreholes\", None)\n")], "K3"),
    Variant("loader substitutes 0.8 for a missing perimeter spacing ratio (seeded C17_l)", "break",
            [(MGR, "        perimeter_spacing_ratio = constraint_props.get(\"perimeter_spacing_ratio\", None)", "        perimeter_spacing_ratio = constraint_props.get(\"perimeter_spacing_ratio\", 0.8)")], "K3"),
    Variant("loader reads the optional ratio without naming the default", "benign",
            [(MGR, "        perimeter_spacing_ratio = constraint_props.get(\"perimeter_spacing_ratio\", None)", "        perimeter_spacing_ratio = constraint_props.get(\"perimeter_spacing_ratio\")")]),
    Variant("a single no-go polygon is no longer wrapped into a list by the constrained geometry (seeded C17_i)", "break",
            [(GEO, "        if len(no_go_boundaries) > 0 and isinstance(no_go_boundaries[0][0], (int, float)):\n            self.no_go_boundaries = [no_go_boundaries]\n        else:\n            self.no_go_boundaries = no_go_boundaries",
              "        self.no_go_boundaries = no_go_boundaries")], "K11"),
    Variant("design schema: max_eft / min_eft bounded below by 0 (seeded C17_h)", "break",
            [("schema:design.schema.json", '    "min_eft": {\n      "type": "number",\n', '    "min_eft": {\n      "type": "number",\n      "minimum": 0,\n')], "K10"),
    Variant("the loader passes the fluid section key by key and leaves the temperature out (seeded C17_g)", "break",
            [(MGR, "    ghe.set_fluid(**fluid_props, throw=False)\n", "    ghe.set_fluid(fluid_name=fluid_props[\"fluid_name\"], concentration_percent=fluid_props[\"concentration_percent\"], throw=False)\n")], "K9"),
    Variant("the loader passes the fluid section key by key, all three keys", "benign",
            [(MGR, "    ghe.set_fluid(**fluid_props, throw=False)\n", "    ghe.set_fluid(fluid_name=fluid_props[\"fluid_name\"], concentration_percent=fluid_props[\"concentration_percent\"], temperature=fluid_props[\"temperature\"], throw=False)\n")]),
    Variant("fluid name looked up by substring: METHYLALCOHOL becomes ETHYLALCOHOL (seeded C17_e)", "break",
            [("ghedesigner.media", '        if fluid_str == FluidType.ETHYLALCOHOL.name:\n            self.fluid_type = FluidType.ETHYLALCOHOL\n        elif fluid_str == FluidType.ETHYLENEGLYCOL.name:\n            self.fluid_type = FluidType.ETHYLENEGLYCOL\n        elif fluid_str == FluidType.METHYLALCOHOL.name:\n            self.fluid_type = FluidType.METHYLALCOHOL\n        elif fluid_str == FluidType.PROPYLENEGLYCOL.name:\n            self.fluid_type = FluidType.PROPYLENEGLYCOL\n        elif fluid_str == FluidType.WATER.name:\n            self.fluid_type = FluidType.WATER\n        else:\n', "        for fluid_type in FluidType:\n            if fluid_type.name in fluid_str:\n                self.fluid_type = fluid_type\n                break\n        else:\n")], "K8"),
    Variant("fluid name looked up in a loop over the enum, by equality", "benign",
            [("ghedesigner.media", '        if fluid_str == FluidType.ETHYLALCOHOL.name:\n            self.fluid_type = FluidType.ETHYLALCOHOL\n        elif fluid_str == FluidType.ETHYLENEGLYCOL.name:\n            self.fluid_type = FluidType.ETHYLENEGLYCOL\n        elif fluid_str == FluidType.METHYLALCOHOL.name:\n            self.fluid_type = FluidType.METHYLALCOHOL\n        elif fluid_str == FluidType.PROPYLENEGLYCOL.name:\n            self.fluid_type = FluidType.PROPYLENEGLYCOL\n        elif fluid_str == FluidType.WATER.name:\n            self.fluid_type = FluidType.WATER\n        else:\n', "        for fluid_type in FluidType:\n            if fluid_type.name == fluid_str:\n                self.fluid_type = fluid_type\n                break\n        else:\n")]),
    Variant("coaxial conductivities exchanged when the file is written (seeded C17_f)", "break",
            [("ghedesigner.manager", "            d_pipe['conductivity_inner'] = self._pipe.k[0]\n            d_pipe['conductivity_outer'] = self._pipe.k[1]", "            d_pipe['conductivity_inner'] = self._pipe.k[1]\n            d_pipe['conductivity_outer'] = self._pipe.k[0]")], "K5"),
    Variant("rowwise rotations rounded to two decimals when written (seeded C17_c)", "break",
            [(GEO, "            'max_rotation': self.max_rotation * RAD_TO_DEG,", "            'max_rotation': round(self.max_rotation * RAD_TO_DEG, 2),")], "K5"),
    Variant("continue_if_design_unmet written only when max_boreholes is set (seeded C17)", "break",
            [(MGR, """        if self._simulation_parameters.continue_if_design_unmet is True:
            d_des['continue_if_design_unmet'] = self._simulation_parameters.continue_if_design_unmet""", """            if self._simulation_parameters.continue_if_design_unmet is True:
                d_des['continue_if_design_unmet'] = self._simulation_parameters.continue_if_design_unmet""")], "K5"),
    Variant("continue_if_design_unmet guarded by plain truthiness", "benign",
            [(MGR, "        if self._simulation_parameters.continue_if_design_unmet is True:", "        if self._simulation_parameters.continue_if_design_unmet:")]),
    Variant("rectangle to_input drops b_min", "break", [(GEO, "            'b_min': self.b_min,\n            'b_max': self.b_max_x,", "            'b_max': self.b_max_x,")], "K1"),
    Variant("loader reads constraint_props['bmin']", "break",
            [(MGR, "            b_min=constraint_props[\"b_min\"],\n            b_max=constraint_props[\"b_max\"],", "            b_min=constraint_props[\"bmin\"],\n            b_max=constraint_props[\"b_max\"],")], "K3"),
    Variant("rectangle setter passes (length, width) to a (width, length) constructor", "break",
            [(MGR, "        self._geometric_constraints = GeometricConstraintsRectangle(width, length, b_min, b_max)", "        self._geometric_constraints = GeometricConstraintsRectangle(length, width, b_min, b_max)")], "K5"),
    Variant("rowwise writes max_rotation in radians", "break", [(GEO, "            'max_rotation': self.max_rotation * RAD_TO_DEG,", "            'max_rotation': self.max_rotation,")], "K5"),
    Variant("new pipe arrangement without schema / loader support", "break",
            [("ghedesigner.enums", "class BHPipeType(Enum):\n    COAXIAL = auto()", "class BHPipeType(Enum):\n    TRIPLEUTUBE = auto()\n    COAXIAL = auto()")], "K6"),
    Variant("writer emits outer_diameter from the inner radius", "break",
            [(MGR, "            d_pipe['outer_diameter'] = self._pipe.r_out * 2.0", "            d_pipe['outer_diameter'] = self._pipe.r_in * 2.0")], "K5"),
    Variant("soil to_input renames undisturbed_temp", "break", [("ghedesigner.media", "'undisturbed_temp': self.ugt}", "'undisturbed_temperature': self.ugt}")], "K"),
    Variant("max_boreholes always written", "break",
            [(MGR, "        if self._simulation_parameters.max_boreholes is not None:\n            d_des['max_boreholes'] = self._simulation_parameters.max_boreholes",
              "        d_des['max_boreholes'] = self._simulation_parameters.max_boreholes")], "K"),
    Variant("borehole diameter written as radius", "break", [("ghedesigner.borehole", "'diameter': self.r_b * 2.0}", "'diameter': self.r_b}")], "K5"),
    Variant("rowwise perimeter ratio written unconditionally again (repaired defect F10 returns)", "break",
            [(GEO, "        d = {\n            'min_spacing': self.min_spacing,", "        d = {\n            'perimeter_spacing_ratio': self.perimeter_spacing_ratio,\n            'min_spacing': self.min_spacing,"),
             (GEO, "        if self.perimeter_spacing_ratio is not None:\n            d['perimeter_spacing_ratio'] = self.perimeter_spacing_ratio\n", "")], "K"),
    Variant("loader feeds max_eft from the min_eft key", "break",
            [(MGR, "        max_eft=design_props[\"max_eft\"],\n        min_eft=design_props[\"min_eft\"],", "        max_eft=design_props[\"min_eft\"],\n        min_eft=design_props[\"max_eft\"],")], "K5"),
    Variant("writer emits min_height from max_height", "break", [(MGR, "        d_geo['min_height'] = self._simulation_parameters.min_height", "        d_geo['min_height'] = self._simulation_parameters.max_height")], "K5"),
    Variant("set_simulation_parameters swaps the height bounds into the constructor", "break",
            [(MGR, "            1, num_months, max_eft, min_eft, max_height, min_height, max_boreholes, continue_if_design_unmet", "            1, num_months, max_eft, min_eft, min_height, max_height, max_boreholes, continue_if_design_unmet")], "K5"),
    Variant("fluid temperature written from the concentration", "break", [("ghedesigner.media", "            'temperature': self.temperature,", "            'temperature': self.concentration_percent,")], "K5"),
    Variant("key order of a to_input dict changed", "benign",
            [(GEO, "        return {'length': self.length, 'b': self.b, 'method': DesignGeomType.NEARSQUARE.name}", "        return {'method': DesignGeomType.NEARSQUARE.name, 'b': self.b, 'length': self.length}")]),
    Variant("diameter written as 2 * r instead of r * 2.0", "benign", [("ghedesigner.borehole", "'diameter': self.r_b * 2.0}", "'diameter': 2 * self.r_b}")]),
]
