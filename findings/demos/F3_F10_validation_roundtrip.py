import json, tempfile
from pathlib import Path
from ghedesigner.manager import GHEManager
from ghedesigner.validate import validate_input_file
from ghedesigner.output import OutputManager
import calendar
# F10
g=GHEManager()
g.set_single_u_tube_pipe(inner_diameter=0.03404, outer_diameter=0.04216, shank_spacing=0.01856, roughness=1.0e-6, conductivity=0.4, rho_cp=1542000.0)
g.set_soil(conductivity=2.0, rho_cp=2343493.0, undisturbed_temp=18.3); g.set_grout(conductivity=1.0, rho_cp=3901000.0); g.set_fluid()
g.set_borehole(height=96.0, buried_depth=2.0, diameter=0.140)
g.set_simulation_parameters(num_months=240, max_eft=35, min_eft=5, max_height=135, min_height=60)
g.set_ground_loads_from_hourly_list([1.0]*8760)
g.set_geometry_constraints_rowwise(perimeter_spacing_ratio=None, max_spacing=12, min_spacing=10, spacing_step=0.1, max_rotation=90, min_rotation=-90, rotate_step=0.5, property_boundary=[[0,0],[100,0],[100,100],[0,100]], no_go_boundaries=[[[10,10],[20,10],[20,20],[10,20]]])
g.set_design(flow_rate=0.5, flow_type_str="borehole")
p=Path("/tmp/tri/rw.json"); g.write_input_file(p)
print("rowwise None ratio: validate ->", validate_input_file(p))
d=json.loads(p.read_text()); print({k:d['geometric_constraints'][k] for k in ('perimeter_spacing_ratio','min_rotation','max_rotation')})
# F3 loads
d=json.load(open('/repo/demos/find_design_near_square_single_u_tube.json')); d['loads']['ground_loads']=d['loads']['ground_loads'][:10]
Path('/tmp/tri/short.json').write_text(json.dumps(d)); print("10 loads: validate ->", validate_input_file(Path('/tmp/tri/short.json')))
# C19 conversions
bad=0
h=0
for m in range(1,13):
    for dd in range(1,calendar.monthrange(2019,m)[1]+1):
        for hh in range(1,25):
            if OutputManager.ghe_time_convert(h)!=(m,dd,hh): bad+=1
            h+=1
print("ghe_time_convert mismatches", bad, "of", h)
import numpy as np
ends=np.cumsum([0]+[calendar.monthrange(2019,m)[1]*24 for m in range(1,13)])
prev=-1; nonmono=0; endbad=0
for t in np.arange(0, 8760*3+0.01, 0.25):
    v=OutputManager.hours_to_month(t)
    if v<prev-1e-12: nonmono+=1
    prev=v
for y in range(3):
    for m in range(13):
        t=y*8760+ends[m]; v=OutputManager.hours_to_month(t)
        if abs(v-(12*y+m))>1e-9: endbad+=1; print("end",t,v,12*y+m)
print("nonmono",nonmono,"endbad",endbad)
import glob
for f in glob.glob('/repo/demos/*.json'):
    d=json.load(open(f)); print(Path(f).name, len(d['loads']['ground_loads']))
