#!/bin/sh
# usage: tools/regress_seeds.sh [dir with <id>/patch.diff ...]   (default /verif/seeded)
# every stored seeded change against every check (scratch copies, 8 at a time): one line per seed with the checks that report it
D="${1:-/verif/seeded}"
ls -d "$D"/C*/ | xargs -P 8 -I{} sh -c 't=$(basename {}); [ -f {}/patch.diff ] || exit 0; r=$(/verif/tools/try_seed.sh {}/patch.diff | awk "\$2!=\"rc=0\"{printf \"%s(%s) \", \$1, \$2}"); echo "$t: ${r:-NOT REPORTED}"' | sort
