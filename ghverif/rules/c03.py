"""C03 - rectangular-family candidate fields stay on the land and respect spacing.

Decided (structure of domains.py / coordinates.py / design.py):
  R03.0  the swap block is a swap: one alias gets the longer side, the other the shorter, every further alias follows one
         of the two axes, the transpose flag is set exactly where the long alias takes the y parameter
  R03.1  canonical-frame discipline: in a generator that aliases its parameters with the two-branch swap
         idiom (long side first), a raw parameter that was aliased never flows - after the swap - into a
         spacing or into an argument of a coordinate generator.  Mixed frames put boreholes outside
         [0,length] x [0,width] exactly when length < width.
  R03.2  transpose must-pass-through: a field produced by a coordinate generator is `canonical`;
         transpose_coordinates() under the transpose flag makes it `oriented`; on every path whatever is
         appended / extended into the returned domain is oriented when the flag is set and canonical when it
         is not (directly, or returned by a callee that received the flag)
  R03.3  counts and spacings: every count range ends at floor(L / b_min + 1) for the side L it counts, the
         spacing derived from a count n is L / (n - 1) for the same L; rectangle's second count is
         floor(L2 / b + 1); near-square uses n = floor(length / b) + 1 and n x n / n x (n+1) grids at spacing b
  R03.4  extents: per generator call and axis, the spacing is side / (N - 1) of that axis' own side and every count on that
         axis is provably <= N (N itself, a loop variable ranging below it, 1, or the floor count of a shared spacing)
  R03.6  no domain / coordinate generator hands back a stored result under a key that leaves out one of its
         parameters (ghverif/memo.py: dependence of the key on the parameters through all local assignments)
  R03.5  primitives: rectangle() places (x0 + i*sx, y0 + j*sy) for i < nx, j < ny; transpose_coordinates swaps
         the two components of every point

Not decided: pairwise distance >= b_min for every pair, absence of coincident points, non-decreasing counts
(inequalities over reals / loop index algebra - solver territory); interior spacing of zoned rectangles.
"""
from __future__ import annotations

import ast

from .. import sym
from ..model import AnalysisError, Program, as_increment, attr_chain, bind_args, inline_single_defs, norm_stmt, walk_no_nested
from ..paths import Engine, Hooks, Opaque, Seq, State, Const, describe_trail
from ..report import Result
from ..selftest import Variant
from ..sym import Rat

PROP = "C03"
TITLE = "Rectangular-family candidate fields stay on the land and respect spacing"
EXPLANATION = (
    "Typestate and taint analysis of the domain generators: swap-idiom functions are found structurally; raw aliased "
    "parameters are tainted after the swap and must not reach coordinate generators; along every enumerated path a "
    "field is canonical until transposed under the flag, and only correctly oriented fields may enter the returned "
    "domain; count ranges and spacings are compared as normal forms (floor(L/b_min + 1), L/(n-1))."
)
ASSUMPTIONS = ["callees that receive transpose=<flag> orient their own output (they are checked by the same rule)"]

DOM = "ghedesigner.domains"
COORD = "ghedesigner.coordinates"
GENERATORS = {"rectangle", "open_rectangle", "c_shape", "lop_u", "l_shape", "zoned_rectangle"}
DOMAIN_FUNCS = {"rectangular", "bi_rectangular", "bi_rectangle_nested", "zoned_rectangle_domain", "bi_rectangle_zoned_nested"}


def find_swap(fn: ast.FunctionDef):
    """-> (if-node, {alias: (raw_if_true, raw_if_false)}, transpose flag name or None) or None"""
    params = {a.arg for a in fn.args.args}
    for s in fn.body:
        if isinstance(s, ast.If) and isinstance(s.test, ast.Compare) and len(s.test.ops) == 1 and isinstance(s.test.ops[0], (ast.GtE, ast.Gt, ast.Lt, ast.LtE)):
            l, r = s.test.left, s.test.comparators[0]
            if not (isinstance(l, ast.Name) and isinstance(r, ast.Name) and l.id in params and r.id in params):
                continue

            def assigns(block):
                out = {}
                for st in block:
                    if isinstance(st, ast.Assign) and len(st.targets) == 1 and isinstance(st.targets[0], ast.Name):
                        out[st.targets[0].id] = st.value
                    else:
                        return None
                return out

            a, b = assigns(s.body), assigns(s.orelse)
            if a is None or b is None or set(a) != set(b) or not a:
                continue
            aliases, flag = {}, None
            for k in a:
                va, vb = a[k], b[k]
                if isinstance(va, ast.Name) and isinstance(vb, ast.Name) and va.id in params and vb.id in params:
                    if k == "_" or va.id == vb.id:
                        continue  # a discarded value, or the same value on both sides: not a participant of the swap
                    aliases[k] = (va.id, vb.id)
                elif isinstance(va, ast.Constant) and isinstance(vb, ast.Constant) and {va.value, vb.value} == {True, False} and k != "_":
                    flag = k
            if aliases:
                return s, aliases, flag
    return None


def check(prog: Program, tier: str) -> Result:
    res = Result(PROP)
    mod = prog.module(DOM)
    swap_funcs = []
    for name, fi in sorted(mod.functions.items()):
        sw = find_swap(fi.node)
        if sw:
            swap_funcs.append((fi, sw))
    res.count("swap_idiom_functions", len(swap_funcs))
    res.floor("swap_idiom_functions", 4)

    # ---------------- R03.0 the swap block itself: long side first, every alias follows one of the two sides, flag = swapped
    for fi, (swap_if, aliases, flag) in swap_funcs:
        t = swap_if.test
        A, B = t.left.id, t.comparators[0].id
        a_larger_in_true = isinstance(t.ops[0], (ast.Gt, ast.GtE))

        def axis(nm):
            return "x" if nm.endswith("_x") else ("y" if nm.endswith("_y") else None)

        def partner(nm):
            return nm[:-1] + ("y" if nm.endswith("x") else "x") if axis(nm) else None

        okpair = all(axis(rt) and partner(rt) == rf for rt, rf in aliases.values()) and partner(A) == B
        long_alias = [k for k, (rt, rf) in aliases.items() if (rt, rf) == ((A, B) if a_larger_in_true else (B, A))]
        short_alias = [k for k, (rt, rf) in aliases.items() if (rt, rf) == ((B, A) if a_larger_in_true else (A, B))]
        ok = okpair and len(long_alias) == 1 and len(short_alias) == 1
        # an alias "goes with" the long side if it takes the same axis as the long alias in both branches
        if ok:
            la = aliases[long_alias[0]]
            for k, (rt, rf) in aliases.items():
                with_long = axis(rt) == axis(la[0]) and axis(rf) == axis(la[1])
                with_short = axis(rt) == axis(la[1]) and axis(rf) == axis(la[0])
                ok = ok and (with_long or with_short)
        res.ob("R03.0", f"{fi.name}: the swap block gives one alias the longer of ({A}, {B}) and the other the shorter, and every other alias follows one of the two axes ({aliases})", ok, prog.loc(fi, swap_if))
        if not ok:
            res.violation("R03.0", f"swap-block|{fi.name}|{sorted(aliases.items())}", prog.loc(fi, swap_if), fi.qualname,
                          f"the long-side-first swap of {fi.name} is not a swap: {aliases} under '{ast.unparse(t)}' - an alias takes the same parameter in both branches or mixes the axes, "
                          "so the candidate grid is laid out for a different rectangle than the land")
        if flag is not None and ok:
            # the flag must be True exactly where the long alias takes the y parameter (the grid is built x-long and transposed back)
            fl = {}
            for blk, key in ((swap_if.body, True), (swap_if.orelse, False)):
                for st_ in blk:
                    if isinstance(st_, ast.Assign) and isinstance(st_.targets[0], ast.Name) and st_.targets[0].id == flag:
                        fl[key] = st_.value.value
            la = aliases[long_alias[0]]
            okf = fl.get(True) == (axis(la[0]) == "y") and fl.get(False) == (axis(la[1]) == "y")
            res.ob("R03.0", f"{fi.name}: {flag} is True exactly in the branch where the long alias takes the y parameter", okf, prog.loc(fi, swap_if))
            if not okf:
                res.violation("R03.0", f"swap-flag|{fi.name}|{fl}", prog.loc(fi, swap_if), fi.qualname,
                              f"{flag} is {fl} while the long side is ({la[0]} | {la[1]}): fields are transposed when they should not be (or the reverse) and leave the land when length != width")

    # ---------------- R03.1 taint
    for fi, (swap_if, aliases, flag) in swap_funcs:
        res.analysed(fi.qualname)
        raw = {r for pair in aliases.values() for r in pair}
        tainted = set(raw)
        stmts = [s for s in walk_no_nested(fi.node) if isinstance(s, ast.stmt) and not any(s is x for x in ast.walk(swap_if))]
        changed = True
        while changed:
            changed = False
            for s in stmts:
                tg, val = [], None
                if isinstance(s, ast.Assign):
                    tg, val = s.targets, s.value
                elif isinstance(s, ast.AugAssign):
                    tg, val = [s.target], s.value
                if val is None:
                    continue
                reads = {n.id for n in ast.walk(val) if isinstance(n, ast.Name)}
                # a value built from BOTH members of an aliased pair symmetrically (max/min/sum) is frame independent
                if reads & tainted:
                    for t in tg:
                        for n in ast.walk(t):
                            if isinstance(n, ast.Name) and n.id not in tainted:
                                tainted.add(n.id)
                                changed = True
        n_sinks = 0
        reached = {}  # tainted variable -> [(call, node)]
        for n in walk_no_nested(fi.node):
            if any(n is x for x in ast.walk(swap_if)):
                continue
            if isinstance(n, ast.Call):
                cn = attr_chain(n.func)
                if cn in GENERATORS or cn in DOMAIN_FUNCS:
                    n_sinks += 1
                    for a in list(n.args) + [k.value for k in n.keywords if k.arg != "transpose" and k.arg != "disp"]:
                        for u in sorted({x.id for x in ast.walk(a) if isinstance(x, ast.Name)} & tainted):
                            reached.setdefault(u, []).append((cn, n))
        for u, sites in sorted(reached.items()):
            defs = [s for s in stmts if isinstance(s, (ast.Assign, ast.AugAssign)) and any(isinstance(x, ast.Name) and x.id == u for t in (s.targets if isinstance(s, ast.Assign) else [s.target]) for x in ast.walk(t))]
            at = defs[0] if defs else sites[0][1]
            org = sorted(_origin([u], raw, stmts)) or [u]
            res.violation("R03.1", f"{u}<-{org}|{norm_stmt(at) if defs else 'parameter'}", prog.loc(fi, at), fi.qualname,
                          f"'{u}' carries the raw parameter(s) {org} past the long-side-first swap and reaches "
                          f"{sorted({c for c, _ in sites})} ({len(sites)} call sites): canonical and user frames are mixed "
                          f"(wrong fields when length < width)",
                          definition=norm_stmt(at) if defs else u, sinks=[f"{prog.loc(fi, n)} {norm_stmt(n)[:80]}" for _, n in sites][:8])
        res.count("generator_call_sites", n_sinks)
        bad = [f for f in res.findings if f.rule == "R03.1" and f.func == fi.qualname]
        res.ob("R03.1", f"{fi.name}: no raw swapped parameter reaches a coordinate generator ({n_sinks} call sites, aliases {sorted(aliases)})", not bad, prog.loc(fi, swap_if))
    res.floor("generator_call_sites", 10)

    # ---------------- R03.2 typestate
    for fname in sorted(DOMAIN_FUNCS):
        fi = prog.func(f"{DOM}.{fname}")
        _check_transpose(prog, res, fi)

    _check_counts(prog, res)
    _check_extents(prog, res)
    _check_primitives(prog, res)
    _check_shapes(prog, res)
    _check_memo(prog, res)
    return res


def _check_memo(prog: Program, res: Result):
    """R03.6: the domain / coordinate generators are pure functions of their arguments: none hands back a stored result under a
    key that leaves out one of its parameters (a candidate list built for another b_min / land would be returned)"""
    from ..memo import memo_bypass

    n = 0
    for modn in (DOM, COORD):
        for name, fi in sorted(prog.module(modn).functions.items()):
            n += 1
            for r, store, key, missing in memo_bypass(prog, fi):
                ok = not missing
                res.ob("R03.6", f"{fi.name}: 'return {store}[{key[:40]}]' - the key depends on every parameter", ok, prog.loc(fi, r))
                if not ok:
                    res.violation("R03.6", f"memo|{fi.name}|{store}|{missing}", prog.loc(fi, r), fi.qualname,
                                  f"{fi.name}() returns the stored {store}[{key[:60]}] although the key does not depend on {missing}: "
                                  "candidate fields built for other values of those parameters are handed back (spacing below b_min, fields off the land)")
    res.ob("R03.6", f"no generator of {DOM.split('.')[-1]} / {COORD.split('.')[-1]} returns a stored result under an incomplete key ({n} functions)", not any(f.rule == "R03.6" for f in res.findings), "ghedesigner/")



def _origin(names, raw, stmts):
    out = set(n for n in names if n in raw)
    for s in stmts:
        if isinstance(s, ast.Assign) and any(isinstance(t, ast.Name) and t.id in names for t in s.targets):
            out |= {n.id for n in ast.walk(s.value) if isinstance(n, ast.Name)} & raw
    return out


# ---------------------------------------------------------------------------
class _Field(Opaque):
    def __init__(self, state: str, src: str, node=None):
        super().__init__(f"field:{state}:{src}", node)
        self.state = state  # 'canonical' | 'oriented' | 'by-callee' | 'canonical-list'
        self.src = src


class _THooks(Hooks):
    def __init__(self, flag: str, sinks: set):
        self.flag = flag
        self.sinks = sinks

    def on_call(self, node, fname, args, kwargs, st, eng):
        if fname in GENERATORS:
            return _Field("canonical", fname, node)
        if fname == "transpose_coordinates" and len(args) == 1:
            a = args[0]
            if isinstance(a, _Field):
                if a.state == "canonical":
                    return _Field("oriented", a.src, node)
                return _Field("double-transposed", a.src, node)
            return Opaque("transpose_coordinates(?)", node)
        if fname in DOMAIN_FUNCS:
            callee_ = eng.prog.funcs.get(f"{DOM}.{fname}")
            kw = bind_args(callee_, node) if callee_ is not None else {k.arg: k.value for k in node.keywords}
            t = kw.get("transpose")
            if t is not None and isinstance(t, ast.Name) and t.id == self.flag:
                f = _Field("by-callee", fname, node)
            elif t is not None and isinstance(t, ast.Constant) and t.value is False:
                f = _Field("canonical-list", fname, node)
            elif t is None:
                callee = eng.prog.funcs.get(f"{DOM}.{fname}")
                has_param = callee is not None and "transpose" in callee.params()
                f = _Field("canonical-list" if has_param else "self-oriented", fname, node)
            else:
                f = _Field("unknown-flag", fname, node)
            return Seq([f, Opaque("descriptors")], "tuple")
        if isinstance(node.func, ast.Attribute) and node.func.attr in ("append", "extend") and isinstance(node.func.value, ast.Name) and node.func.value.id in self.sinks and len(args) == 1:
            fv = st.facts.get(self.flag)
            ev = st.env.get(self.flag)
            if fv is None and isinstance(ev, Const) and isinstance(ev.value, bool):
                fv = ev.value  # the flag is a local fixed by the swap block on this path
            st.emit("SINK", (node.func.value.id, args[0], fv, node.func.attr), node)
            return Const(None)
        return None


def _check_transpose(prog: Program, res: Result, fi):
    fn = fi.node
    sw = find_swap(fn)
    flag = None
    if sw and sw[2]:
        flag = sw[2]
    elif "transpose" in fi.params():
        flag = "transpose"
    if flag is None:
        return
    res.analysed(fi.qualname)
    # returned domain lists
    rets = [n for n in ast.walk(fn) if isinstance(n, ast.Return)]
    sinks = set()
    for r in rets:
        v = r.value
        first = v.elts[0] if isinstance(v, ast.Tuple) and v.elts else v
        if isinstance(first, ast.Name):
            sinks.add(first.id)
    if not sinks:
        raise AnalysisError(f"{fi.qualname}: returned domain list not identified")
    # local lists that are appended / extended into a sink are sinks too
    changed = True
    while changed:
        changed = False
        for n in ast.walk(fn):
            if (isinstance(n, ast.Call) and isinstance(n.func, ast.Attribute) and n.func.attr in ("append", "extend")
                    and isinstance(n.func.value, ast.Name) and n.func.value.id in sinks and len(n.args) == 1 and isinstance(n.args[0], ast.Name)):
                nm = n.args[0].id
                is_list = any(isinstance(s, ast.Assign) and any(isinstance(t, ast.Name) and t.id == nm for t in s.targets) and isinstance(s.value, ast.List) and not s.value.elts
                              for s in ast.walk(fn))
                if is_list and nm not in sinks:
                    sinks.add(nm)
                    changed = True
    hooks = _THooks(flag, sinks)
    eng = Engine(prog, fi, hooks, loop_bound=1, max_paths=60000)

    def seed(s):
        for n in ast.walk(s):
            if isinstance(n, ast.Call):
                c = attr_chain(n.func)
                if c in GENERATORS or c in DOMAIN_FUNCS or c == "transpose_coordinates":
                    return True
                if isinstance(n.func, ast.Attribute) and n.func.attr in ("append", "extend") and isinstance(n.func.value, ast.Name) and n.func.value.id in sinks:
                    return True
        return False

    eng.slice(fn.body, seed, extra_names={flag})
    st0 = State()
    for p in fi.params():
        st0.env[p] = Rat.atom(p)
    if sw:
        # the swap block itself decides the flag: run it symbolically (two branches)
        pass
    finals = eng.run_function(st0)
    res.count("transpose_paths", len(finals))
    n_sink = 0
    reported = set()
    for f in finals:
        for e in f.events:
            if e.kind != "SINK":
                continue
            sink, val, flagval, how = e.data
            n_sink += 1
            if not isinstance(val, _Field):
                if isinstance(val, (Rat,)) and sym_is_sink_list(val, sinks):
                    continue  # a nested domain list appended to the outer list
                continue
            key = (e.node.lineno, val.state, flagval)
            if key in reported:
                continue
            okv = True
            msg = None
            if val.state == "double-transposed":
                okv, msg = False, "a field is transposed twice before it enters the domain"
            elif val.state in ("by-callee", "self-oriented"):
                okv = True
            elif val.state == "unknown-flag":
                okv, msg = False, f"{val.src}(...) is given a transpose argument that is not this function's flag"
            elif flagval is True:
                okv = val.state == "oriented"
                msg = f"a field from {val.src}() enters the domain in the canonical frame on a path where {flag} is set"
            elif flagval is False:
                okv = val.state in ("canonical", "canonical-list")
                msg = f"a field from {val.src}() is transposed on a path where {flag} is not set"
            else:
                # the path never consulted the flag
                okv = val.state not in ("canonical", "canonical-list")
                msg = (f"a field from {val.src}() enters the domain without passing through 'if {flag}: transpose_coordinates(...)' "
                       f"(it stays in the canonical frame when length < width)")
                if val.state == "oriented":
                    okv, msg = False, f"a field from {val.src}() is transposed unconditionally"
            reported.add(key)
            res.ob("R03.2", f"{fi.name}: {val.src}() field -> {sink}.{how} is {val.state} with {flag}={flagval}", okv, prog.loc(fi, e.node))
            if not okv:
                res.violation("R03.2", f"{val.src}|{val.state}|flag={flagval}|{norm_stmt(e.node)}", prog.loc(fi, e.node), fi.qualname, msg,
                              path=describe_trail(f)[-4:])
    res.count("domain_sink_events", n_sink)


def sym_is_sink_list(v, sinks):
    return False


# ---------------------------------------------------------------------------
def _straight_env(prog, fi, until=None, branch=0):
    """evaluate the top-level simple assignments of a function (taking one branch of the swap) -> state"""
    eng = Engine(prog, fi, Hooks())
    st = State()
    for p in fi.params():
        st.env[p] = Rat.atom(p)
    for s in fi.node.body:
        if until is not None and s is until:
            break
        if isinstance(s, ast.Assign):
            eng._s_Assign(s, st)
        elif isinstance(s, ast.If) and find_swap(fi.node) and find_swap(fi.node)[0] is s:
            for b in (s.body if branch == 0 else s.orelse):
                eng._s_Assign(b, st)
    return eng, st


def _check_counts(prog: Program, res: Result):
    one = Rat.const(1)
    for fname in ("rectangular", "bi_rectangular", "bi_rectangle_nested", "bi_rectangle_zoned_nested"):
        fi = prog.func(f"{DOM}.{fname}")
        eng, st = _straight_env(prog, fi)
        bmin = Rat.atom("b_min")
        n_ranges = 0
        for n in ast.walk(fi.node):
            # count ranges: range(lo, hi) or list(range(lo, hi)) whose lo is ceil(...)
            if isinstance(n, ast.Call) and attr_chain(n.func) == "range" and len(n.args) == 2:
                lo = eng.eval(n.args[0], st)
                hi = eng.eval(n.args[1], st)
                if not (isinstance(lo, Rat) and isinstance(hi, Rat)):
                    continue
                lo_a = sym_single_call(lo, "ceil")
                if lo_a is None:
                    continue
                n_ranges += 1
                # lo = ceil(1 + L / B)
                L = _side_of(lo_a)
                hi_a = sym_single_call(hi - one, "floor")
                ok = False
                if L is not None and hi_a is not None:
                    ok = hi_a.equals(one + L / bmin)
                # a bound that is re-assigned under a condition (a clamp, a fallback) must satisfy the rule with that value too
                bound_names = {x.id for x in ast.walk(n.args[1]) if isinstance(x, ast.Name)}
                for alt in [a_ for a_ in ast.walk(fi.node) if isinstance(a_, ast.Assign) and len(a_.targets) == 1 and isinstance(a_.targets[0], ast.Name) and a_.targets[0].id in bound_names
                            and a_.lineno < n.lineno and not any(a_ is top for top in fi.node.body)]:
                    in_swap = find_swap(fi.node) and any(alt is y for y in ast.walk(find_swap(fi.node)[0]))
                    if in_swap:
                        continue
                    st_alt = st.fork()
                    eng._s_Assign(alt, st_alt)
                    hi2 = eng.eval(n.args[1], st_alt)
                    hi2_a = sym_single_call(hi2 - one, "floor") if isinstance(hi2, Rat) else None
                    ok2 = L is not None and hi2_a is not None and hi2_a.equals(one + L / bmin)
                    res.ob("R03.3", f"{fname}: count range {ast.unparse(n)} still ends at floor(L/b_min + 1) after '{norm_stmt(alt)[:40]}'", ok2, prog.loc(fi, alt))
                    if not ok2:
                        res.violation("R03.3", f"count-upper-alt|{fname}|{norm_stmt(alt)[:40]}", prog.loc(fi, alt), fi.qualname,
                                      f"'{norm_stmt(alt)[:60]}' re-assigns the upper end of the count range {ast.unparse(n)}: with that value the range ends at {(hi2 - one).key()[:60] if isinstance(hi2, Rat) else '?'} + 1 "
                                      "instead of floor(L / b_min + 1) - counts whose spacing is below b_min become possible")
                res.ob("R03.3", f"{fname}: count range {ast.unparse(n)} ends at floor({L.key() if L is not None else '?'}/b_min + 1)", ok, prog.loc(fi, n))
                if not ok:
                    res.violation("R03.3", f"count-upper|{fname}|{(hi - one).key()}", prog.loc(fi, n), fi.qualname,
                                  f"the count range {ast.unparse(n)} ends at {(hi - one).key()} + 1 instead of floor(L / b_min + 1) for its own side "
                                  f"L = {L.key() if L is not None else '?'}: spacings below b_min (or counts beyond the land) become possible")
        # a count that is advanced by a while loop instead of drawn from a range: whatever enters the domain must have been
        # generated with a spacing the path has already found to be >= b_min (a test that comes after the append is too late)
        for lp in [x for x in ast.walk(fi.node) if isinstance(x, ast.While)]:
            gens = [c for c in ast.walk(lp) if isinstance(c, ast.Call) and attr_chain(c.func) in GENERATORS]
            if not gens:
                continue
            n_ranges += 1
            stepped = {x.target.id for x in ast.walk(lp) if isinstance(x, ast.AugAssign) and isinstance(x.target, ast.Name)} | \
                      {x.targets[0].id for x in ast.walk(lp) if isinstance(x, ast.Assign) and len(x.targets) == 1 and isinstance(x.targets[0], ast.Name) and as_increment(x) is not None}

            class HW(Hooks):
                def on_call(self, node, fname, args, kwargs, st_, eng_):
                    if fname in GENERATORS:
                        sp = [a for a in args[2:4] if isinstance(a, Rat)]
                        st_.env["__spacings__"] = Seq(sp, "list")
                        return Rat.atom(f"FIELD#{node.lineno}")
                    if fname and fname.endswith(".append") and len(args) == 1 and isinstance(args[0], Rat) and args[0].key().startswith("FIELD#"):
                        sp = st_.env.get("__spacings__")
                        signs = [(v, st_.sign_of(v - bmin)) for v in (sp.items if isinstance(sp, Seq) else [])]
                        st_.emit("APPEND", signs, node)
                        return Const(None)
                    if fname == "transpose_coordinates" and args:
                        return args[0]
                    return None

            e2 = Engine(prog, fi, HW(), loop_bound=1)
            s2 = st.fork()
            for nm in stepped:
                s2.env[nm] = Rat.atom(nm)
            n_app = 0
            for f_ in e2.run_block(lp.body, [s2]):
                for ev in f_.events:
                    if ev.kind != "APPEND":
                        continue
                    n_app += 1
                    varying = [(v, sg) for v, sg in ev.data if any(a in stepped or any(a.startswith(x_ + ".") for x_ in stepped) for a in v.all_atoms())]
                    bad = [(v, sg) for v, sg in varying if not (sg and sg <= frozenset("+0"))]
                    res.ob("R03.3", f"{fname}: the field appended by the while loop has spacing(s) {[v.key()[:30] for v, _ in varying]} already known to be >= b_min", not bad, prog.loc(fi, ev.node))
                    for v, sg in bad[:2]:
                        res.violation("R03.3", f"while-spacing|{fname}|{v.key()[:40]}", prog.loc(fi, ev.node), fi.qualname,
                                      f"a field generated with spacing {v.key()[:60]} enters the domain before the loop has established that this spacing is >= b_min "
                                      "(the exit test comes after the append): the last candidate of the list can be denser than b_min allows")
            if n_app == 0:
                raise AnalysisError(f"{fi.qualname}: a while loop generates fields but no path appends one")
        res.count("count_ranges", n_ranges)
    res.floor("count_ranges", 5)

    # spacing from a count: X / (n - 1) must divide the side the count n was derived from.  The count is whatever
    # local stands in the denominator; its side is read from its own definition (a for-target over range(ceil(1 + L / B), ..)
    # or an assignment ceil|floor(1 + L / B)) - no local name is assumed.
    n_sp = 0
    for fname in ("rectangular", "bi_rectangular", "bi_rectangle_nested", "zoned_rectangle_domain", "bi_rectangle_zoned_nested"):
        fi = prog.func(f"{DOM}.{fname}")
        for branch in (0, 1):
            eng, st = _straight_env(prog, fi, branch=branch)
            for s in ast.walk(fi.node):
                if not (isinstance(s, ast.Assign) and isinstance(s.value, ast.BinOp) and isinstance(s.value.op, ast.Div)):
                    continue
                r = s.value.right
                if isinstance(r, ast.Name):  # the denominator through a temporary
                    r = inline_single_defs(fi.node, r, depth=1)
                if not (isinstance(r, ast.BinOp) and isinstance(r.op, ast.Sub) and isinstance(r.left, ast.Name) and isinstance(r.right, ast.Constant) and r.right.value == 1):
                    continue
                nvar = r.left.id
                side = _count_side(fi.node, nvar, s, eng, st)
                if side is None:
                    # a count that is a swapped PARAMETER (n_1 <- n_x | n_y) counts along the side that takes the same axis
                    sw_ = find_swap(fi.node)
                    if sw_ and nvar in sw_[1]:
                        rt, rf = sw_[1][nvar]
                        for k_, (lt, lf) in sw_[1].items():
                            if k_ != nvar and lt.startswith("length") and lt[-1] == rt[-1] and lf[-1] == rf[-1]:
                                side = st.env.get(k_)
                                side = side if isinstance(side, Rat) else None
                if side is None:
                    continue
                try:
                    num = eng.eval(s.value.left, st)
                except Exception:  # noqa: BLE001
                    continue
                if not isinstance(num, Rat):
                    continue
                n_sp += 1
                ok = num.equals(side)
                res.ob("R03.3", f"{fname} [swap branch {branch}]: spacing {norm_stmt(s)} divides the side its count {nvar} was derived from ({side.key()})", ok, prog.loc(fi, s))
                if not ok:
                    res.violation("R03.3", f"spacing-side|{fname}|{norm_stmt(s)}", prog.loc(fi, s), fi.qualname,
                                  f"the spacing is {num.key()} / ({nvar} - 1) but {nvar} counts boreholes along {side.key()}: the row no longer spans exactly that side")
    res.count("spacings_from_counts", n_sp)
    res.floor("spacings_from_counts", 16)

    # rectangular: the second count is floor(length_2 / b + 1) with b the spacing derived from the first count
    fi = prog.func(f"{DOM}.rectangular")
    eng, st = _straight_env(prog, fi)
    found = False
    rect_calls = [c for c in ast.walk(fi.node) if isinstance(c, ast.Call) and attr_chain(c.func) == "rectangle" and len(c.args) >= 4]
    second = {c.args[1].id for c in rect_calls if isinstance(c.args[1], ast.Name)}
    spacing = {c.args[2].id for c in rect_calls if isinstance(c.args[2], ast.Name)}
    for s in ast.walk(fi.node):
        if isinstance(s, ast.Assign) and len(s.targets) == 1 and isinstance(s.targets[0], ast.Name) and s.targets[0].id in second and isinstance(s.value, ast.Call) \
                and attr_chain(s.value.func) in ("floor", "ceil", "int"):
            st2 = st.fork()
            for b_ in spacing:
                st2.env[b_] = Rat.atom("b")
            v = eng.eval(inline_single_defs(fi.node, s.value, keep=spacing), st2)
            if isinstance(v, Rat):
                a = sym_single_call(v, "floor")
                found = True
                ok = a is not None and a.equals(Rat.const(1) + st.env["length_2"] / Rat.atom("b")) if "length_2" in st.env else False
                if "length_2" not in st.env:
                    # the swapped sides may carry other names: accept the one that is NOT the side of the first count
                    ok = a is not None and _side_of(a) is not None and any(_side_of(a).equals(x) for x in (Rat.atom("length_x"), Rat.atom("length_y")))
                res.ob("R03.3", "rectangular: second count is floor(length_2 / b + 1)", ok, prog.loc(fi, s))
                if not ok:
                    res.violation("R03.3", f"rect-n2|{v.key()}", prog.loc(fi, s), fi.qualname,
                                  f"the number of rows across the short side is {v.key()} instead of floor(length_2 / b + 1): rows beyond the land")
    if not found:
        raise AnalysisError(f"{fi.qualname}: definition of the second count (2nd argument of rectangle(..)) not found")

    # near-square
    dq = "ghedesigner.design.DesignNearSquare.__init__"
    dfi = prog.func(dq)
    res.analysed(dq)
    eng = Engine(prog, dfi, Hooks())
    st = State()
    found = False
    from ..model import stored_param_aliases

    for p_, chain_ in stored_param_aliases(prog, dfi).items():
        st.env[p_] = Rat.atom(chain_)  # the constraints object handed in is the one the (base) constructor stores on self
    for s in dfi.node.body:
        if isinstance(s, ast.Assign) and len(s.targets) == 1 and isinstance(s.targets[0], ast.Name):
            eng._s_Assign(s, st)
    call = [n for n in ast.walk(dfi.node) if isinstance(n, ast.Call) and attr_chain(n.func) == "square_and_near_square"]
    if len(call) != 1:
        raise AnalysisError(f"{dq}: call of square_and_near_square not found")
    b = bind_args(prog.func(f"{DOM}.square_and_near_square"), call[0])
    up = eng.eval(b["upper"], st)
    lo = eng.eval(b["lower"], st)
    bb = eng.eval(b["b"], st)
    L, B = Rat.atom("self.geometric_constraints.length"), Rat.atom("self.geometric_constraints.b")
    ok = isinstance(up, Rat) and (up.equals(sym.call("floor", [L / B]) + Rat.const(1)) or up.equals(sym.call("int", [sym.call("floor", [L / B]) + Rat.const(1)])))
    res.ob("R03.3", f"near-square: largest grid side n = floor(length / b) + 1 (got {up.key() if isinstance(up, Rat) else up})", ok, prog.loc(dfi, call[0]))
    if not ok:
        res.violation("R03.3", f"nearsquare-n|{up.key() if isinstance(up, Rat) else up}", prog.loc(dfi, call[0]), dq,
                      f"the largest near-square side is {up.key() if isinstance(up, Rat) else up} instead of floor(length / b) + 1: (n-1)*b may exceed the length")
    ok = isinstance(lo, Rat) and lo.equals(Rat.const(1)) and isinstance(bb, Rat) and bb.equals(B)
    res.ob("R03.3", "near-square: grids start at 1x1 and use the user's spacing b", ok, prog.loc(dfi, call[0]))
    if not ok:
        res.violation("R03.3", "nearsquare-args", prog.loc(dfi, call[0]), dq, "square_and_near_square is not called with (1, n, b)")
    sq = prog.func(f"{DOM}.square_and_near_square")
    res.analysed(sq.qualname)
    rc = [n for n in ast.walk(sq.node) if isinstance(n, ast.Call) and attr_chain(n.func) == "rectangle"]
    if len(rc) != 1:
        raise AnalysisError(f"{sq.qualname}: expected one rectangle(...) call")
    loops = {}
    for n in ast.walk(sq.node):
        if isinstance(n, ast.For) and isinstance(n.target, ast.Name) and isinstance(n.iter, ast.Call) and attr_chain(n.iter.func) == "range":
            loops[n.target.id] = [ast.unparse(a) for a in n.iter.args]
    e2 = Engine(prog, sq, Hooks())
    s2 = State()
    for p in sq.params():
        s2.env[p] = Rat.atom(p)
    for v in loops:
        s2.env[v] = Rat.atom(v)
    a = [e2.eval(inline_single_defs(sq.node, x), s2) for x in rc[0].args]
    ivar = next((v for v, r in loops.items() if r == ["lower", "upper + 1"]), None)
    jvar = next((v for v, r in loops.items() if r == ["2"]), None)
    ok = (ivar is not None and jvar is not None and len(a) >= 4 and all(isinstance(x, Rat) for x in a[:4])
          and a[0].equals(Rat.atom(ivar)) and a[1].equals(Rat.atom(ivar) + Rat.atom(jvar)) and a[2].equals(Rat.atom("b")) and a[3].equals(Rat.atom("b")))
    res.ob("R03.3", "near-square: fields are rectangle(i, i + j, b, b) for i in lower..upper, j in {0, 1}", ok, prog.loc(sq, rc[0]))
    if not ok:
        res.violation("R03.3", f"nearsquare-grid|{norm_stmt(rc[0])}|{loops}", prog.loc(sq, rc[0]), sq.qualname,
                      f"near-square fields are {norm_stmt(rc[0])} over loops {loops}, not n x n / n x (n+1) grids at spacing b")


GEN_COUNT_AXIS = {  # generator -> {count parameter: axis}; spacing parameters are *_x / *_y of the same call
    "rectangle": {"num_bh_x": "x", "num_bh_y": "y"}, "open_rectangle": {"num_bh_x": "x", "num_bh_y": "y"},
    "zoned_rectangle": {"n_x": "x", "n_y": "y"}, "l_shape": {"n_x": "x", "n_y": "y"},
    "lop_u": {"n_x": "x", "n_y_1": "y", "n_y_2": "y"}, "c_shape": {"n_x_1": "x", "n_y": "y", "n_x_2": "x"},
}
GEN_SPACING = {"rectangle": ("spacing_x", "spacing_y"), "open_rectangle": ("spacing_x", "spacing_y"), "zoned_rectangle": ("b_x", "b_y"),
               "l_shape": ("b_x", "b_y"), "lop_u": ("b_x", "b_y"), "c_shape": ("b_x", "b_y")}


def _check_extents(prog: Program, res: Result):
    """R03.4: every call of a coordinate generator in the domain builders is given, per axis of the canonical frame, a spacing
    that was derived from THAT axis' side (x: the long alias, y: the short one) as side / (N - 1), and counts that cannot
    exceed the N the spacing was derived from - so (count - 1) * spacing <= side and the field stays on the land.  A count is
    accepted when it is N itself, a loop variable whose range ends at or below N (N's own range start counts as a lower bound
    of N), the literal 1, or - where one spacing serves both axes - the floor(side_y / spacing + 1) count."""
    n_calls = 0
    for fname in ("rectangular", "bi_rectangular", "zoned_rectangle_domain", "bi_rectangle_zoned_nested"):
        fi = prog.func(f"{DOM}.{fname}")
        sw = find_swap(fi.node)
        if not sw:
            raise AnalysisError(f"{fi.qualname}: swap block not found")
        t = sw[0].test
        A_, B_ = t.left.id, t.comparators[0].id
        a_larger_in_true = isinstance(t.ops[0], (ast.Gt, ast.GtE))
        long_alias = next((k for k, (rt, rf) in sw[1].items() if (rt, rf) == ((A_, B_) if a_larger_in_true else (B_, A_))), None)
        short_alias = next((k for k, (rt, rf) in sw[1].items() if (rt, rf) == ((B_, A_) if a_larger_in_true else (A_, B_))), None)
        if long_alias is None or short_alias is None:
            continue  # reported by R03.0
        eng, st = _straight_env(prog, fi, branch=0)
        side_of_axis = {"x": st.env[long_alias], "y": st.env[short_alias]}
        # loop ranges: var -> (lo Rat, hi-exclusive Rat)
        rng = {}
        for lp in ast.walk(fi.node):
            if isinstance(lp, ast.For) and isinstance(lp.target, ast.Name):
                it = lp.iter
                if isinstance(it, ast.Name):
                    d_ = next((x.value for x in ast.walk(fi.node) if isinstance(x, ast.Assign) and len(x.targets) == 1 and isinstance(x.targets[0], ast.Name) and x.targets[0].id == it.id), None)
                    it = d_ if d_ is not None else it
                while isinstance(it, ast.Call) and attr_chain(it.func) == "list" and it.args:
                    it = it.args[0]
                if isinstance(it, ast.Call) and attr_chain(it.func) == "range" and 1 <= len(it.args) <= 2:
                    lo = eng.eval(it.args[0], st) if len(it.args) == 2 else Rat.const(0)
                    hi = eng.eval(it.args[-1], st)
                    if isinstance(lo, Rat) and isinstance(hi, Rat):
                        rng.setdefault(lp.target.id, []).append((lo, hi, lp))
        # spacings: name -> (side Rat, count name)
        sp = {}
        for a_ in ast.walk(fi.node):
            if isinstance(a_, ast.Assign) and len(a_.targets) == 1 and isinstance(a_.targets[0], ast.Name) and isinstance(a_.value, ast.BinOp) and isinstance(a_.value.op, ast.Div):
                r_ = a_.value.right
                if isinstance(r_, ast.Name):
                    r_ = inline_single_defs(fi.node, r_, depth=1)
                if isinstance(r_, ast.BinOp) and isinstance(r_.op, ast.Sub) and isinstance(r_.left, ast.Name) and isinstance(r_.right, ast.Constant) and r_.right.value == 1:
                    num = eng.eval(a_.value.left, st)
                    if isinstance(num, Rat):
                        sp[a_.targets[0].id] = (num, r_.left.id)
        second_counts = {}  # name -> spacing name, for  n2 = floor(side_y / S + 1)
        for a_ in ast.walk(fi.node):
            if isinstance(a_, ast.Assign) and len(a_.targets) == 1 and isinstance(a_.targets[0], ast.Name) and isinstance(a_.value, ast.Call) and attr_chain(a_.value.func) == "floor":
                for S_ in sp:
                    st2 = st.fork()
                    st2.env[S_] = Rat.atom("S")
                    v = eng.eval(inline_single_defs(fi.node, a_.value, keep={S_}), st2)
                    if isinstance(v, Rat):
                        arg = sym_single_call(v, "floor")
                        if arg is not None and arg.equals(Rat.const(1) + side_of_axis["y"] / Rat.atom("S")):
                            second_counts[a_.targets[0].id] = S_

        def value_of(e_):
            v = eng.eval(e_, st)
            return v if isinstance(v, Rat) else None

        def ranges_at(name: str, site: ast.AST):
            """ranges of the loop variable `name` that are in force at `site`: those of the enclosing loops; all of them if none encloses"""
            all_ = rng.get(name, [])
            enc = [(lo, hi) for lo, hi, lp in all_ if any(site is x for x in ast.walk(lp))]
            return enc if enc else [(lo, hi) for lo, hi, _ in all_]

        def at_most(c_expr, N: str, label: str, site: ast.AST = None):
            """is the count expression provably <= the count N ?  -> (ok, why)"""
            if isinstance(c_expr, ast.Name) and c_expr.id == N:
                return True, f"{label} is {N}"
            if isinstance(c_expr, ast.Constant) and c_expr.value == 1:
                return True, f"{label} is 1"
            n_lo = [lo for lo, _ in ranges_at(N, site)]
            cmax = []
            if isinstance(c_expr, ast.Name) and c_expr.id in rng:
                cmax = [hi - Rat.const(1) for _, hi in ranges_at(c_expr.id, site)]
            else:
                v = value_of(c_expr)
                cmax = [v] if v is not None else []
            if not cmax:
                return False, f"{label} = {ast.unparse(c_expr)} not understood"
            Nv = value_of(ast.Name(id=N, ctx=ast.Load())) or Rat.atom(N)
            for cm in cmax:
                d = cm - Nv
                ok_ = d.is_const() and d.const_value() <= 0
                if not ok_ and n_lo:
                    ok_ = all((cm - lo).is_const() and (cm - lo).const_value() <= 0 for lo in n_lo)
                if not ok_:
                    return False, f"{label} can reach {cm.key()[:50]}, which is not bounded by {N}"
            return True, f"{label} <= {N}"

        for c in ast.walk(fi.node):
            if not (isinstance(c, ast.Call) and attr_chain(c.func) in GEN_COUNT_AXIS):
                continue
            g = attr_chain(c.func)
            b = bind_args(prog.func(f"{COORD}.{g}"), c)
            sx_p, sy_p = GEN_SPACING[g]
            sxa, sya = b.get(sx_p), b.get(sy_p)
            n_calls += 1
            problems = []
            if not (isinstance(sxa, ast.Name) and isinstance(sya, ast.Name) and sxa.id in sp and sya.id in sp):
                problems.append(f"spacings ({ast.unparse(sxa) if sxa is not None else '?'}, {ast.unparse(sya) if sya is not None else '?'}) are not side / (count - 1) locals")
            else:
                same = sxa.id == sya.id
                for axis, sa in (("x", sxa), ("y", sya)):
                    side, N = sp[sa.id]
                    if not same or axis == "x":
                        if not side.equals(side_of_axis[axis]):
                            problems.append(f"the {axis}-spacing {sa.id} is derived from {side.key()} instead of the {'long' if axis == 'x' else 'short'} side {side_of_axis[axis].key()}")
                    for pname, pax in GEN_COUNT_AXIS[g].items():
                        if pax != axis or pname not in b:
                            continue
                        ce = b[pname]
                        if same and axis == "y":
                            # one spacing for both axes: the y count is bounded by the floor count for that spacing
                            okc = (isinstance(ce, ast.Name) and second_counts.get(ce.id) == sa.id) or (isinstance(ce, ast.Constant) and ce.value == 1) \
                                or (isinstance(ce, ast.Name) and ce.id in rng and all(any((hi - Rat.const(1) - (value_of(ast.Name(id=n2, ctx=ast.Load())) or Rat.atom(n2))).is_const()
                                                                                         and (hi - Rat.const(1) - (value_of(ast.Name(id=n2, ctx=ast.Load())) or Rat.atom(n2))).const_value() <= 0
                                                                                         for n2 in second_counts if second_counts[n2] == sa.id) for _, hi in ranges_at(ce.id, c)))
                            if not okc:
                                problems.append(f"{pname} = {ast.unparse(ce)} is not bounded by floor(short side / {sa.id} + 1)")
                            continue
                        okc, why = at_most(ce, N, f"{pname} = {ast.unparse(ce)}", c)
                        if not okc:
                            problems.append(why)
            res.ob("R03.4", f"{fname}: {norm_stmt(c)[:70]} - per axis the spacing comes from that axis' side and the counts cannot exceed the count it was derived from", not problems, prog.loc(fi, c))
            if problems:
                res.violation("R03.4", f"extent|{fname}|{norm_stmt(c)[:70]}", prog.loc(fi, c), fi.qualname,
                              f"{norm_stmt(c)[:90]}: " + "; ".join(problems[:3]) + " - (count - 1) * spacing can exceed the land along that axis")
    res.count("generator_calls_extent", n_calls)
    res.floor("generator_calls_extent", 12)


def _count_side(fn: ast.FunctionDef, nvar: str, use: ast.stmt, eng, st):
    """side L from which the count local `nvar` (as used in statement `use`) was derived: nvar is a for-target over
    range(lo, ..) / a list of such a range with lo = ceil(1 + L / B), or is assigned ceil|floor(1 + L / B)"""
    cands = []
    for n in ast.walk(fn):
        if isinstance(n, ast.For) and isinstance(n.target, ast.Name) and n.target.id == nvar and any(use is x for x in ast.walk(n)):
            it = n.iter
            if isinstance(it, ast.Name):  # for n in <list of range>
                for d in ast.walk(fn):
                    if isinstance(d, ast.Assign) and len(d.targets) == 1 and isinstance(d.targets[0], ast.Name) and d.targets[0].id == it.id:
                        it = d.value
                        break
            while isinstance(it, ast.Call) and attr_chain(it.func) == "list" and it.args:
                it = it.args[0]
            if isinstance(it, ast.Call) and attr_chain(it.func) == "range" and len(it.args) >= 2:
                cands.append(it.args[0])
        if isinstance(n, ast.Assign) and len(n.targets) == 1 and isinstance(n.targets[0], ast.Name) and n.targets[0].id == nvar and n.lineno <= use.lineno:
            cands.append(n.value)
    for c in cands:
        try:
            v = eng.eval(inline_single_defs(fn, c), st)
        except Exception:  # noqa: BLE001
            continue
        if not isinstance(v, Rat):
            continue
        for f in ("ceil", "floor"):
            a = sym_single_call(v, f)
            if a is not None and _side_of(a) is not None:
                return _side_of(a)
    return None


def _with(st: State, name: str) -> State:
    s = st.fork()
    s.env[name] = Rat.atom(name)
    return s


def sym_single_call(r: Rat, fname: str):
    """if r is exactly fname(<arg>) return arg"""
    if len(r.atoms()) == 1 and r.equals(Rat.atom(next(iter(r.atoms())))):
        df = sym.ATOM_DEF.get(next(iter(r.atoms())))
        if df and df[0] == "call" and df[1] == fname and len(df[2]) == 1 and isinstance(df[2][0], Rat):
            return df[2][0]
    return None


def _side_of(x: Rat):
    """x = 1 + L / B -> L (numerator atom product), else None"""
    y = x - Rat.const(1)
    if y.n.is_monomial() and y.d.is_monomial():
        return Rat(y.n)
    return None


# ---------------------------------------------------------------------------
def _check_primitives(prog: Program, res: Result):
    q = f"{COORD}.rectangle"
    fi = prog.func(q)
    res.analysed(q)
    loops = {}
    for n in ast.walk(fi.node):
        if isinstance(n, ast.For) and isinstance(n.target, ast.Name) and isinstance(n.iter, ast.Call) and attr_chain(n.iter.func) == "range":
            loops[n.target.id] = [ast.unparse(a) for a in n.iter.args]
    eng = Engine(prog, fi, Hooks())
    st = State()
    for p in fi.params():
        st.env[p] = Rat.atom(p)
    for s in fi.node.body:
        if isinstance(s, ast.Assign):
            eng._s_Assign(s, st)
    for v in loops:
        st.env[v] = Rat.atom(v)
    apps = [n for n in ast.walk(fi.node) if isinstance(n, ast.Call) and isinstance(n.func, ast.Attribute) and n.func.attr == "append" and len(n.args) == 1 and isinstance(n.args[0], ast.Tuple)]
    if len(apps) != 1:
        raise AnalysisError(f"{q}: expected one append of a coordinate tuple")
    x, y = [eng.eval(e, st) for e in apps[0].args[0].elts]
    iv = next((v for v, r in loops.items() if r == ["num_bh_x"]), None)
    jv = next((v for v, r in loops.items() if r == ["num_bh_y"]), None)
    ok = (iv is not None and jv is not None and isinstance(x, Rat) and isinstance(y, Rat)
          and x.equals(Rat.atom("origin[0]") + Rat.atom(iv) * Rat.atom("spacing_x")) and y.equals(Rat.atom("origin[1]") + Rat.atom(jv) * Rat.atom("spacing_y")))
    res.ob("R03.5", f"rectangle(): point (x0 + i*sx, y0 + j*sy), i < num_bh_x, j < num_bh_y (loops {loops})", ok, prog.loc(fi, apps[0]))
    if not ok:
        res.violation("R03.5", f"rectangle|{vk(x)}|{vk(y)}|{loops}", prog.loc(fi, apps[0]), q,
                      f"rectangle() places ({vk(x)}, {vk(y)}) over loops {loops}; expected (x0 + i*spacing_x, y0 + j*spacing_y) for i < num_bh_x, j < num_bh_y")
    q = f"{COORD}.transpose_coordinates"
    fi = prog.func(q)
    res.analysed(q)
    ok = False
    for n in ast.walk(fi.node):
        if isinstance(n, ast.For) and isinstance(n.target, ast.Tuple) and len(n.target.elts) == 2 and all(isinstance(e, ast.Name) for e in n.target.elts):
            a, b = n.target.elts[0].id, n.target.elts[1].id
            for c in ast.walk(n):
                if isinstance(c, ast.Call) and isinstance(c.func, ast.Attribute) and c.func.attr == "append" and len(c.args) == 1 and isinstance(c.args[0], ast.Tuple):
                    e = c.args[0].elts
                    ok = len(e) == 2 and isinstance(e[0], ast.Name) and isinstance(e[1], ast.Name) and e[0].id == b and e[1].id == a
        if isinstance(n, ast.ListComp) and isinstance(n.elt, ast.Tuple) and len(n.generators) == 1 and isinstance(n.generators[0].target, ast.Tuple):
            t = n.generators[0].target.elts
            e = n.elt.elts
            if len(t) == 2 and len(e) == 2 and all(isinstance(z, ast.Name) for z in list(t) + list(e)):
                ok = e[0].id == t[1].id and e[1].id == t[0].id
    res.ob("R03.5", "transpose_coordinates(): every (x, y) becomes (y, x)", ok, prog.loc(fi, fi.node))
    if not ok:
        res.violation("R03.5", "transpose", prog.loc(fi, fi.node), q, "transpose_coordinates does not swap the two components of every point")


def vk(v):
    return v.key() if hasattr(v, "key") else str(v)


SHAPE_GENERATORS = ("l_shape", "lop_u", "c_shape", "open_rectangle")
_SIG_RATS: dict = {}


def _shape_signature(prog: Program, q: str, _depth: int = 0, as_rat: bool = False):
    """{(x, y, loop lo, loop hi)} of every coordinate tuple a generator appends (loop variable named 'k')"""
    if as_rat:
        fi0, keys = _shape_signature(prog, q, _depth, as_rat=False)
        return fi0, _SIG_RATS.get(q, [])
    fi = prog.func(q)
    _SIG_RATS[q] = []
    eng = Engine(prog, fi, Hooks())
    st = State()
    for p in fi.params():
        st.env[p] = Rat.atom(p)
    parents = {}
    for n in ast.walk(fi.node):
        for c in ast.iter_child_nodes(n):
            parents[id(c)] = n
    # straight-line locals (x_loc, y_loc, bix ...)
    for stmt in ast.walk(fi.node):
        if isinstance(stmt, ast.Assign) and len(stmt.targets) == 1 and isinstance(stmt.targets[0], ast.Name) and not isinstance(stmt.value, (ast.List, ast.Call)):
            try:
                st.env[stmt.targets[0].id] = eng.eval(stmt.value, st)
            except Exception:
                pass
    sig = set()
    for n in ast.walk(fi.node):
        if isinstance(n, ast.Call) and isinstance(n.func, ast.Attribute) and n.func.attr == "append" and len(n.args) == 1 and isinstance(n.args[0], ast.Tuple) and len(n.args[0].elts) == 2:
            loop = parents.get(id(n))
            while loop is not None and not isinstance(loop, ast.For):
                loop = parents.get(id(loop))
            if loop is None or not isinstance(loop.target, ast.Name) or not (isinstance(loop.iter, ast.Call) and attr_chain(loop.iter.func) == "range"):
                raise AnalysisError(f"{q}: coordinate appended outside a range loop")
            outer = parents.get(id(loop))
            while outer is not None and not isinstance(outer, (ast.For, ast.FunctionDef)):
                outer = parents.get(id(outer))
            if isinstance(outer, ast.For):
                raise AnalysisError(f"{q}: nested loops - handled by the rectangle() rule only")
            s2 = st.fork()
            s2.env[loop.target.id] = Rat.atom("k")
            x, y = eng.eval(n.args[0].elts[0], s2), eng.eval(n.args[0].elts[1], s2)
            a = loop.iter.args
            lo = eng.eval(a[0], s2) if len(a) == 2 else Rat.const(0)
            hi = eng.eval(a[-1], s2)
            if not all(isinstance(v, Rat) for v in (x, y, lo, hi)):
                raise AnalysisError(f"{q}: coordinate expression not understood")
            sig.add((x.key(), y.key(), lo.key(), hi.key()))
            _SIG_RATS.setdefault(q, []).append((x, y, lo, hi))
    # the same runs written as comprehensions:  [(X, Y) for v in range(a, b)]
    for n in ast.walk(fi.node):
        if isinstance(n, ast.ListComp) and isinstance(n.elt, ast.Tuple) and len(n.elt.elts) == 2:
            if len(n.generators) != 1 or n.generators[0].ifs or not isinstance(n.generators[0].target, ast.Name) \
                    or not (isinstance(n.generators[0].iter, ast.Call) and attr_chain(n.generators[0].iter.func) == "range"):
                raise AnalysisError(f"{q}: coordinate comprehension is not a single unfiltered range")
            g = n.generators[0]
            s2 = st.fork()
            s2.env[g.target.id] = Rat.atom("k")
            x, y = eng.eval(n.elt.elts[0], s2), eng.eval(n.elt.elts[1], s2)
            a = g.iter.args
            lo = eng.eval(a[0], s2) if len(a) == 2 else Rat.const(0)
            hi = eng.eval(a[-1], s2)
            if not all(isinstance(v, Rat) for v in (x, y, lo, hi)):
                raise AnalysisError(f"{q}: coordinate expression not understood")
            sig.add((x.key(), y.key(), lo.key(), hi.key()))
            _SIG_RATS.setdefault(q, []).append((x, y, lo, hi))
    # a shape composed of another shape generator of the module: that generator's runs with its parameters replaced by the arguments
    if _depth < 3:
        for n in ast.walk(fi.node):
            if isinstance(n, ast.Call) and isinstance(n.func, ast.Name) and n.func.id != fi.name and prog.has_func(f"{COORD}.{n.func.id}") and n.func.id in SHAPE_GENERATORS:
                sub_fi, sub_sig_rat = _shape_signature(prog, f"{COORD}.{n.func.id}", _depth + 1, as_rat=True)
                b = bind_args(sub_fi, n)
                mp = {}
                for p_, a_ in b.items():
                    v_ = eng.eval(a_, st)
                    if not isinstance(v_, Rat):
                        raise AnalysisError(f"{q}: argument {p_} of {n.func.id}() not understood")
                    mp[p_] = v_
                for row in sub_sig_rat:
                    new_row = tuple(r_.subs(mp) for r_ in row)
                    sig.add(tuple(r_.key() for r_ in new_row))
                    _SIG_RATS.setdefault(q, []).append(new_row)
    if as_rat:
        return fi, None
    return fi, sig


def _check_shapes(prog: Program, res: Result):
    k = Rat.atom("k")
    zero, one = Rat.const(0), Rat.const(1)

    def A(n):
        return Rat.atom(n)

    def S(*rows):
        return {(x.key(), y.key(), lo.key(), hi.key()) for x, y, lo, hi in rows}

    want = {
        "l_shape": S((k * A("b_x"), zero, zero, A("n_x")), (zero, k * A("b_y"), one, A("n_y"))),
        "lop_u": S((k * A("b_x"), zero, zero, A("n_x")), (zero, k * A("b_y"), one, A("n_y_1")), ((A("n_x") - one) * A("b_x"), k * A("b_y"), one, A("n_y_2"))),
        "c_shape": S((k * A("b_x"), zero, zero, A("n_x_1")), (zero, k * A("b_y"), one, A("n_y")), ((A("n_x_1") - one) * A("b_x"), k * A("b_y"), one, A("n_y")),
                     (k * A("b_x"), (A("n_y") - one) * A("b_y"), one, A("n_x_2") + one)),
        "open_rectangle": S((k * A("spacing_x"), zero, zero, A("num_bh_x")), (zero, k * A("spacing_y"), one, A("num_bh_y") - one),
                            ((A("num_bh_x") - one) * A("spacing_x"), k * A("spacing_y"), one, A("num_bh_y") - one),
                            (k * A("spacing_x"), (A("num_bh_y") - one) * A("spacing_y"), zero, A("num_bh_x"))),
    }
    for name, w in want.items():
        q = f"{COORD}.{name}"
        fi, sig = _shape_signature(prog, q)
        res.analysed(q)
        ok = sig == w
        res.ob("R03.5", f"{name}(): the appended points are exactly the documented outline ({len(w)} runs of points)", ok, prog.loc(fi, fi.node))
        if not ok:
            extra = sorted(sig - w)[:2]
            miss = sorted(w - sig)[:2]
            res.violation("R03.5", f"shape|{name}|{extra}|{miss}", prog.loc(fi, fi.node), q,
                          f"{name}() no longer places its boreholes on the documented outline: unexpected runs (x, y, from, to) {extra}, missing {miss} "
                          f"(boreholes beyond the outline, duplicated corners or gaps)")
    # open_rectangle falls back to the full rectangle for thin fields, under the right guard
    q = f"{COORD}.open_rectangle"
    fi = prog.func(q)
    ifs = [n for n in fi.node.body if isinstance(n, ast.If)]
    ok = False
    if len(ifs) == 1:
        from ..paths import conj_is

        e_ = Engine(prog, fi, Hooks())
        s_ = State()
        for p_ in fi.params():
            s_.env[p_] = Rat.atom(p_)
        c_ = e_.cond(ifs[0].test, s_)
        two = Rat.const(2)
        both_gt2 = conj_is(c_, [(Rat.atom("num_bh_x") - two, "+"), (Rat.atom("num_bh_y") - two, "+")])
        call = [c for c in ast.walk(ast.Module(body=ifs[0].orelse, type_ignores=[])) if isinstance(c, ast.Call) and attr_chain(c.func) == "rectangle"]
        ok = both_gt2 and len(call) == 1 and [ast.unparse(a) for a in call[0].args] == ["num_bh_x", "num_bh_y", "spacing_x", "spacing_y"]
    res.ob("R03.5", "open_rectangle(): full rectangle when a side has fewer than three rows, perimeter otherwise", ok, prog.loc(fi, fi.node))
    if not ok:
        res.violation("R03.5", "open-rectangle-guard", prog.loc(fi, fi.node), q, "open_rectangle() no longer switches between perimeter (both sides > 2 rows) and the full rectangle")
    # zoned rectangle = perimeter + evenly inset interior grid
    q = f"{COORD}.zoned_rectangle"
    fi = prog.func(q)
    res.analysed(q)
    eng = Engine(prog, fi, Hooks())
    st = State()
    for p in fi.params():
        st.env[p] = Rat.atom(p)
    for stmt in sorted((x for x in ast.walk(fi.node) if isinstance(x, ast.Assign)), key=lambda x: (x.lineno, x.col_offset)):  # the spacing definitions, at whatever nesting depth
        if isinstance(stmt.targets[0], ast.Name) and isinstance(stmt.value, ast.BinOp):
            st.env[stmt.targets[0].id] = eng.eval(stmt.value, st)
    # the two parts, however they are put together: L.extend(part) on the returned list, or `return a + b` / `return part + part`
    rets_ = [r_ for r_ in ast.walk(fi.node) if isinstance(r_, ast.Return) and r_.value is not None]
    ret_names = {x.id for r_ in rets_ for x in ast.walk(r_.value) if isinstance(x, ast.Name)}
    parts = {}
    for c in ast.walk(fi.node):
        if not (isinstance(c, ast.Call) and attr_chain(c.func) in ("open_rectangle", "rectangle")):
            continue
        reaches = any(c is x for r_ in rets_ for x in ast.walk(r_.value))
        for s_ in ast.walk(fi.node):
            if isinstance(s_, ast.Call) and isinstance(s_.func, ast.Attribute) and s_.func.attr == "extend" and s_.args and s_.args[0] is c and isinstance(s_.func.value, ast.Name) and s_.func.value.id in ret_names:
                reaches = True
            if isinstance(s_, ast.Assign) and s_.value is c and len(s_.targets) == 1 and isinstance(s_.targets[0], ast.Name):
                nm_ = s_.targets[0].id
                if nm_ in ret_names or any(isinstance(e_, ast.Call) and isinstance(e_.func, ast.Attribute) and e_.func.attr == "extend" and e_.args and isinstance(e_.args[0], ast.Name) and e_.args[0].id == nm_
                                           and isinstance(e_.func.value, ast.Name) and e_.func.value.id in ret_names for e_ in ast.walk(fi.node)):
                    reaches = True
        if reaches:
            if attr_chain(c.func) in parts:
                parts["<twice>"] = c
            parts[attr_chain(c.func)] = c
    ok = set(parts) == {"open_rectangle", "rectangle"}
    if ok:
        o, r = parts["open_rectangle"], parts["rectangle"]
        b_o = bind_args(prog.func(f"{COORD}.open_rectangle"), o)
        b_r = bind_args(prog.func(f"{COORD}.rectangle"), r)
        oa = [eng.eval(b_o[k_], st) for k_ in prog.func(f"{COORD}.open_rectangle").params()[:4] if k_ in b_o]
        ra = [eng.eval(b_r[k_], st) for k_ in prog.func(f"{COORD}.rectangle").params()[:4] if k_ in b_r]
        kw = {k_: eng.eval(v_, st) for k_, v_ in b_r.items()}
        bix = (A("n_x") - one) * A("b_x") / (A("n_ix") + one)
        biy = (A("n_y") - one) * A("b_y") / (A("n_it") + one)
        org = kw.get("origin")
        ok = ([vk(a) for a in oa] == ["n_x", "n_y", "b_x", "b_y"] and len(ra) == 4 and vk(ra[0]) == "n_ix" and vk(ra[1]) == "n_it"
              and isinstance(ra[2], Rat) and ra[2].equals(bix) and isinstance(ra[3], Rat) and ra[3].equals(biy)
              and isinstance(org, Seq) and len(org.items) == 2 and isinstance(org.items[0], Rat) and org.items[0].equals(bix) and org.items[1].equals(biy))
    res.ob("R03.5", "zoned_rectangle(): perimeter of the n_x x n_y grid plus an n_ix x n_it interior grid inset by its own spacing (n-1) b / (n_i + 1)", ok, prog.loc(fi, fi.node))
    if not ok:
        res.violation("R03.5", "zoned-rectangle", prog.loc(fi, fi.node), q,
                      "zoned_rectangle() no longer combines open_rectangle(n_x, n_y, b_x, b_y) with rectangle(n_ix, n_it, bix, biy, origin=(bix, biy)), bix = (n_x-1) b_x / (n_ix+1): interior boreholes can coincide with the perimeter or leave the land")
    guards = [n for n in ast.walk(fi.node) if isinstance(n, ast.If) and any(isinstance(b, ast.Raise) for b in n.body)]  # wherever they sit: flat, or nested in each other's else
    gt = sorted(ast.unparse(g.test).replace(" ", "").replace("(", "").replace(")", "") for g in guards)
    from ..paths import cmp_is

    e_ = Engine(prog, fi, Hooks())
    s_ = State()
    for p_ in fi.params():
        s_.env[p_] = Rat.atom(p_)
    cs_ = [e_.cond(g.test, s_) for g in guards]
    wants = [(Rat.atom("n_ix") - Rat.atom("n_x") + Rat.const(2), "+"), (Rat.atom("n_it") - Rat.atom("n_y") + Rat.const(2), "+")]
    ok = len(cs_) == 2 and all(any(cmp_is(c_, w[0], w[1]) for c_ in cs_) for w in wants)
    res.ob("R03.5", f"zoned_rectangle(): refuses more interior rows than fit strictly inside the perimeter ({gt})", ok, prog.loc(fi, fi.node))
    if not ok:
        res.violation("R03.5", f"zoned-guards|{gt}", prog.loc(fi, fi.node), q, f"the interior-row guards of zoned_rectangle are {gt} instead of n_ix > n_x - 2 and n_it > n_y - 2")


VARIANTS = [
    Variant("bi_rectangle_nested: an empty short-side range is clamped up to its lower end (seeded C03_h)", "break",
            [(DOM, "    n_min = ceil(n_2_min)\n    n_max = floor(n_2_max)\n\n    bi_rectangle_nested_domain = []", "    n_min = ceil(n_2_min)\n    n_max = floor(n_2_max)\n    if n_max < n_min:\n        n_max = n_min\n\n    bi_rectangle_nested_domain = []")], "R03.3"),
    Variant("rectangular: columns added by a while loop that tests the spacing after the field was appended (seeded C03_g)", "break",
            [(DOM, "    for num_borehole in range(n_min, n_max + 1):\n        # Check to see if we bracket\n        b = length_1 / (num_borehole - 1)\n", "    num_borehole = n_min\n    while True:\n        b = length_1 / (num_borehole - 1)\n"),
             (DOM, "        num_borehole += 1  # noqa: PLW2901\n\n    return rectangle_domain, field_descriptors", "        if b <= b_min:\n            break\n        num_borehole += 1\n\n    return rectangle_domain, field_descriptors")], "R03.3"),
    Variant("rectangular: columns added by a while loop that tests the spacing before the field is generated", "benign",
            [(DOM, "    for num_borehole in range(n_min, n_max + 1):\n        # Check to see if we bracket\n        b = length_1 / (num_borehole - 1)\n", "    num_borehole = n_min\n    while True:\n        b = length_1 / (num_borehole - 1)\n        if b < b_min:\n            break\n"),
             (DOM, "        num_borehole += 1  # noqa: PLW2901\n\n    return rectangle_domain, field_descriptors", "        num_borehole += 1\n\n    return rectangle_domain, field_descriptors")]),
    Variant("nested bi-rectangle domain memoised under a key without b_min (seeded C03_f)", "break",
            [(DOM, "def bi_rectangle_nested(", "_nested_domains: dict = {}\n\n\ndef bi_rectangle_nested("),
             (DOM, "    # find the maximum number of boreholes as a float\n    n_2_max = (length_2 / b_min) + 1\n    n_2_min = (length_2 / b_max_2) + 1\n", "    key = (length_1, length_2, b_max_1, b_max_2, transpose)\n    if key in _nested_domains:\n        return _nested_domains[key]\n    # find the maximum number of boreholes as a float\n    n_2_max = (length_2 / b_min) + 1\n    n_2_min = (length_2 / b_max_2) + 1\n"),
             (DOM, "        field_descriptors.append(f_d)\n\n    return bi_rectangle_nested_domain, field_descriptors", "        field_descriptors.append(f_d)\n\n    _nested_domains[key] = (bi_rectangle_nested_domain, field_descriptors)\n    return bi_rectangle_nested_domain, field_descriptors")], "R03.6"),
    Variant("nested bi-rectangle domain memoised under a key that names every input", "benign",
            [(DOM, "def bi_rectangle_nested(", "_nested_domains: dict = {}\n\n\ndef bi_rectangle_nested("),
             (DOM, "    # find the maximum number of boreholes as a float\n    n_2_max = (length_2 / b_min) + 1\n    n_2_min = (length_2 / b_max_2) + 1\n", "    key = (length_1, length_2, b_min, b_max_1, b_max_2, transpose)\n    if key in _nested_domains:\n        return _nested_domains[key]\n    # find the maximum number of boreholes as a float\n    n_2_max = (length_2 / b_min) + 1\n    n_2_min = (length_2 / b_max_2) + 1\n"),
             (DOM, "        field_descriptors.append(f_d)\n\n    return bi_rectangle_nested_domain, field_descriptors", "        field_descriptors.append(f_d)\n\n    _nested_domains[key] = (bi_rectangle_nested_domain, field_descriptors)\n    return bi_rectangle_nested_domain, field_descriptors")]),
    Variant("bi_rectangular: full grid built with the short side's count on both axes", "break",
            [(DOM, "        coordinates = rectangle(n_1, n_2, b_1, b_2)", "        coordinates = rectangle(n_2, n_2, b_1, b_2)")], "R03.4"),
    Variant("bi_rectangular: the two spacings handed over in the wrong order", "break",
            [(DOM, "        coordinates = rectangle(n_1, n_2, b_1, b_2)", "        coordinates = rectangle(n_1, n_2, b_2, b_1)")], "R03.4"),
    Variant("zoned starter line one borehole too long", "break",
            [(DOM, "            for index_l in range(1, n_min_1 + 1):\n                r = rectangle(index_l, 1, b_x, b_y)", "            for index_l in range(1, n_min_1 + 2):\n                r = rectangle(index_l, 1, b_x, b_y)")], "R03.4"),
    Variant("zoned_rectangle_domain: swap block gives both aliases the x length", "break",
            [(DOM, "        length_1 = length_x\n        length_2 = length_y\n        n_1 = n_x\n        n_2 = n_y", "        length_1 = length_x\n        length_2 = length_x\n        n_1 = n_x\n        n_2 = n_y")], "R03.0"),
    Variant("zoned_rectangle_domain: spacing along the long side from the short side", "break",
            [(DOM, "    b_1 = length_1 / (n_1 - 1)\n    b_2 = length_2 / (n_2 - 1)", "    b_1 = length_2 / (n_1 - 1)\n    b_2 = length_2 / (n_2 - 1)")], "R03.3"),
    Variant("rectangular: transposition of the main field deleted", "break",
            [(DOM, """                print(f"{num_borehole}\\t{n_2}\\t{b}\\t{b}")
            if transpose:
                r = transpose_coordinates(r)
""", """                print(f"{num_borehole}\\t{n_2}\\t{b}\\t{b}")
""")], "R03.2"),
    Variant("bi_rectangular: spacing along the long side from the raw x length", "break",
            [(DOM, "        b_1 = length_1 / (n_1 - 1)\n", "        b_1 = length_x / (n_1 - 1)\n")], "R03.1"),
    Variant("rectangular: n_max rounded up", "break",
            [(DOM, """    n_min = ceil(n_1_min)
    n_max = floor(n_1_max)

    n_2_old = 1""", """    n_min = ceil(n_1_min)
    n_max = ceil(n_1_max)

    n_2_old = 1""")], "R03.3"),
    Variant("bi_rectangular: short-side spacing divides the long side", "break",
            [(DOM, "        b_2 = length_2 / (n_2 - 1)\n\n        b_1 = length_1 / (n_1 - 1)", "        b_2 = length_1 / (n_2 - 1)\n\n        b_1 = length_1 / (n_1 - 1)")], "R03.3"),
    Variant("bi_rectangle_nested: inner call loses the transpose flag", "break",
            [(DOM, "            length_1, length_2, b_min, b_max_1, b_2, transpose=transpose, disp=disp", "            length_1, length_2, b_min, b_max_1, b_2, disp=disp")], "R03.2"),
    Variant("bi_rectangular: line fields transposed unconditionally", "break",
            [(DOM, """                coordinates = rectangle(i, 1, b_1, b_2)
                if transpose:
                    coordinates = transpose_coordinates(coordinates)""", """                coordinates = rectangle(i, 1, b_1, b_2)
                coordinates = transpose_coordinates(coordinates)""")], "R03.2"),
    Variant("near-square: one grid too many", "break",
            [("ghedesigner.design", "        n = floor(self.geometric_constraints.length / self.geometric_constraints.b) + 1", "        n = floor(self.geometric_constraints.length / self.geometric_constraints.b) + 2")], "R03.3"),
    Variant("rectangle(): one column too many", "break",
            [(COORD, "    for i in range(num_bh_x):\n        for j in range(num_bh_y):\n            r.append", "    for i in range(num_bh_x + 1):\n        for j in range(num_bh_y):\n            r.append")], "R03.5"),
    Variant("transpose_coordinates returns the points unchanged", "break",
            [(COORD, "        coordinates_transposed.append((y, x))", "        coordinates_transposed.append((x, y))")], "R03.5"),
    Variant("zoned_rectangle_domain: interior fields appended before the flag is consulted", "break",
            [(DOM, """        z = zoned_rectangle(n_1, n_2, b_1, b_2, n_i1, n_i2)
        if transpose:
            z = transpose_coordinates(z)
        _zoned_rectangle_domain.append(z)
        field_descriptors.append""", """        z = zoned_rectangle(n_1, n_2, b_1, b_2, n_i1, n_i2)
        _zoned_rectangle_domain.append(z)
        field_descriptors.append""")], "R03.2"),
    Variant("bi-zoned starter fields spaced from the raw x / y lengths (repaired defect F5 returns)", "break",
            [(DOM, "            b_x = length_1 / (n_min_1 - 1)\n            b_y = length_2 / (n_min_2 - 1)\n",
              "            b_x = length_x / (n_min_1 - 1)\n            b_y = length_y / (n_min_2 - 1)\n")], "R03.1"),
    Variant("first zoned rectangle not transposed (repaired defect F6 returns)", "break",
            [(DOM, """    z = zoned_rectangle(n_1, n_2, b_1, b_2, n_i1, n_i2)
    if transpose:
        z = transpose_coordinates(z)
    _zoned_rectangle_domain.append(z)""", """    z = zoned_rectangle(n_1, n_2, b_1, b_2, n_i1, n_i2)
    _zoned_rectangle_domain.append(z)""")], "R03.2"),
    Variant("c_shape: top row one borehole too long", "break", [(COORD, "    for i in range(1, n_x_2 + 1):\n        c.append((i * b_x, y_loc))", "    for i in range(1, n_x_2 + 2):\n        c.append((i * b_x, y_loc))")], "R03.5"),
    Variant("lop_u: right leg repeats the corner", "break", [(COORD, "    for j in range(1, n_y_2):\n        _lop_u.append((x_loc, j * b_y))", "    for j in range(0, n_y_2):\n        _lop_u.append((x_loc, j * b_y))")], "R03.5"),
    Variant("zoned_rectangle: interior grid starts on the perimeter", "break", [(COORD, "    zoned.extend(rectangle(n_ix, n_it, bix, biy, origin=(bix, biy)))", "    zoned.extend(rectangle(n_ix, n_it, bix, biy, origin=(0, 0)))")], "R03.5"),
    Variant("open_rectangle: right side placed at n * spacing", "break", [(COORD, "            open_r.append(((num_bh_x - 1) * spacing_x, j * spacing_y))", "            open_r.append((num_bh_x * spacing_x, j * spacing_y))")], "R03.5"),
    Variant("rectangular: canonical aliases renamed", "benign",
            [(DOM, """    if length_x >= length_y:
        length_1 = length_x
        length_2 = length_y
        transpose = False
    else:
        length_1 = length_y
        length_2 = length_x
        transpose = True

    rectangle_domain = []
    field_descriptors = []
    # find the maximum number of boreholes as a float
    n_1_max = (length_1 / b_min) + 1
    n_1_min = (length_1 / b_max) + 1""", """    if length_x >= length_y:
        long_side = length_x
        length_2 = length_y
        transpose = False
    else:
        long_side = length_y
        length_2 = length_x
        transpose = True
    length_1 = long_side

    rectangle_domain = []
    field_descriptors = []
    # find the maximum number of boreholes as a float
    n_1_max = 1 + long_side / b_min
    n_1_min = (length_1 / b_max) + 1""")]),
    Variant("bi_rectangular: transposition through a conditional expression is not used; guard hoisted into a helper variable", "benign",
            [(DOM, """        coordinates = rectangle(n_1, n_2, b_1, b_2)
        if transpose:
            coordinates = transpose_coordinates(coordinates)
        bi_rectangle_domain.append(coordinates)""", """        full = rectangle(n_1, n_2, b_1, b_2)
        if transpose:
            full = transpose_coordinates(full)
        coordinates = full
        bi_rectangle_domain.append(coordinates)""")]),
]
