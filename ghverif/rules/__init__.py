"""one module per property: check(prog, tier) -> Result, VARIANTS for self-validation"""
