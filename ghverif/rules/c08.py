"""C08 - the hybrid time axis covers the horizon exactly.

Decided:
  R08.1  start: the sequence is initialised with one zero entry, one (0, first_month_hour(start_month)-1)
         pair precedes the month loop, first_month_hour(1) = 1 (so the axis starts at hour 0 for the
         start month the manager passes), and GHE.simulate drops exactly those two leading entries from
         load and hour with the same slice
  R08.2  every month start..end closes at last_month_hour(i)  (all paths; same enumeration as C06)
  R08.3  replication: for months beyond 12 every monthly array the emission loop reads is extended from
         its own entry (i % 12, with 0 -> 12), before the emission loop
  R08.4  calendar: monthdays (index 0 = December wrap; leap table differs in February only) and the
         cumulative helpers: last_month_hour(m) = sum_{k<=m} 24*monthdays(k), first_month_hour(m) =
         1 + sum_{k<m} 24*monthdays(k mod 12), which gives first(m) = last(m-1) + 1

  R08.0  shape: self.hour / self.load are only ever extended by the month loop's append idiom (no element store, slice
         store, in-place method or write after the loop)
  R08.5  order: on every path the difference of consecutive breakpoints is never provably negative or zero; the differences
         whose sign depends on the durations are exactly the gaps between pulse windows and month boundaries, i.e. the
         property's own hypothesis (windows overlap neither each other nor the month boundaries)

Not decided: strict monotonicity where it depends on the durations (numerical).
"""
from __future__ import annotations

import ast
import calendar

from .. import sym
from ..model import AnalysisError, Program, attr_chain, norm_stmt
from ..paths import vkey, Engine, Hooks, State, Seq, make_cmp
from ..report import Result
from ..selftest import Variant
from ..sym import Rat
from . import hybrid_common as hc

PROP = "C08"
TITLE = "Hybrid time axis covers the horizon exactly and is ordered"
EXPLANATION = (
    "Emission analysis of process_month_loads (all paths of one month close at last_month_hour(i)); straight-line "
    "evaluation of the statements before the month loop; path analysis of the replication loop (which arrays are "
    "extended, from which index); literal calendar tables compared with the stdlib non-leap calendar; loop-shape "
    "analysis of first_month_hour / last_month_hour; slice agreement in GHE.simulate.  Strict monotonicity of the "
    "breakpoints depends on the numerical peak durations and is not decided."
)
ASSUMPTIONS = ["the manager passes start_month = 1 (checked: SimulationParameters(1, ...) in set_simulation_parameters)"]

GL = "ghedesigner.ground_loads"
CLS = f"{GL}.HybridLoad"
NONLEAP = [calendar.monthrange(2019, m)[1] for m in range(1, 13)]


def check(prog: Program, tier: str) -> Result:
    res = Result(PROP)
    ma = hc.analyse(prog, loop_bound=1 if tier == "quick" else 2)
    fi = ma.fi
    res.analysed(fi.qualname)
    res.count("paths", len(ma.paths))
    fmh, lmh = hc.calendar_atoms(ma)

    # ---- R08.0 shape
    sf = hc.shape_findings(prog, ma)
    res.ob("R08.0", "self.hour / self.load are only ever extended by the month loop's append idiom", not sf, prog.loc(fi, ma.loop))
    for key_, where_, qn_, msg_ in sf:
        res.violation("R08.0", key_, where_, qn_, msg_ + " - the last breakpoint / the month-end breakpoints are no longer those the loop emitted")

    # ---- R08.5 order of the breakpoints inside a month
    P_ = Rat.atom("PREV_END")
    seen5 = set()
    n5 = 0
    n5_all = 0
    for p in ma.paths:
        if p.clamped or len(p.hours) < 2 or any(not isinstance(h_, Rat) for h_ in p.hours):
            continue
        mapping = {next(iter(fmh.atoms())): P_ + Rat.const(1)}
        if p.day_rel == "=" and p.ipf is not False:
            mapping[next(iter(ma.atoms["KCL"].atoms()))] = ma.atoms["KHL"]
        hs = [h_.subs(mapping) for h_ in p.hours]
        for k_ in range(1, len(hs)):
            d_ = hs[k_] - hs[k_ - 1]
            n5_all += 1
            if lmh.key() in d_.key():
                continue  # the distance to the month end depends on the month length: hypothesis (window inside the month)
            sg = p.state.sign_of(d_)
            key5 = (p.signature(), k_)
            if key5 in seen5:
                continue
            seen5.add(key5)
            n5 += 1
            bad = "+" not in sg
            if bad:
                res.ob("R08.5", f"breakpoints {k_ - 1} -> {k_} do not go backwards on path [{p.signature()}]", False, hc.path_where(prog, ma, p, 2 * k_ + 1 if 2 * k_ + 1 < len(p.nodes) else len(p.nodes) - 1))
                res.violation("R08.5", f"order|{p.signature()}|{k_}|{d_.key()[:80]}", hc.path_where(prog, ma, p, len(p.nodes) - 1), fi.qualname,
                              f"on the path [{p.signature()}] breakpoint {k_} minus breakpoint {k_ - 1} is {d_.key()[:160]}, which is never positive: the time axis goes backwards (or stalls) whatever the durations are")
    res.ob("R08.5", f"no consecutive breakpoints of a month are provably out of order ({n5} differences examined)", not any(f.rule == "R08.5" for f in res.findings), prog.loc(fi, ma.loop))
    res.count("breakpoint_differences_decidable", n5)
    res.count("breakpoint_differences", n5_all)
    res.floor("breakpoint_differences", 15)

    # ---- R08.2 closing on every path (including clamped ones)
    seen = set()
    for p in ma.paths:
        if not p.hours:
            res.violation("R08.2", f"no-breakpoint|{p.signature()}", prog.loc(fi, ma.loop), fi.qualname,
                          f"a month emits no breakpoint on the path [{p.signature()}]")
            continue
        last = p.hours[-1]
        key = (p.signature(), last.key() if isinstance(last, Rat) else str(last))
        if key in seen:
            continue
        seen.add(key)
        ok = isinstance(last, Rat) and last.equals(lmh)
        res.ob("R08.2", f"month closes at last_month_hour(i) on path [{p.signature()}]", ok, hc.path_where(prog, ma, p, len(p.nodes) - 1))
        if not ok:
            res.violation("R08.2", f"{p.signature()}|last={key[1][:120]}", hc.path_where(prog, ma, p, len(p.nodes) - 1), fi.qualname,
                          f"the month's last breakpoint is {key[1][:160]} instead of last_month_hour(i, years) on the path [{p.signature()}]",
                          path=hc.describe_trail(p.state))
    res.floor("paths", 40)

    # ---- R08.1 start
    loads = [(v, s) for k, v, s in ma.pre_events if k == "LOAD"]
    hours = [(v, s) for k, v, s in ma.pre_events if k == "HOUR"]
    ok = len(loads) == 1 and len(hours) == 1
    res.ob("R08.1", f"exactly one (load, hour) pair precedes the month loop (got {len(loads)}/{len(hours)})", ok, prog.loc(fi, fi.node))
    if not ok:
        res.violation("R08.1", f"pre-pairs:{len(loads)}:{len(hours)}", prog.loc(fi, fi.node), fi.qualname,
                      f"{len(loads)} loads / {len(hours)} hours are emitted before the month loop; the simulation drops exactly one such pair")
    else:
        l0, h0 = loads[0][0], hours[0][0]
        want_h = sym.call("first_month_hour", [Rat.atom("self.start_month"), Rat.atom("self.years")]) - Rat.const(1)
        ok_l = isinstance(l0, Rat) and l0.is_zero()
        ok_h = isinstance(h0, Rat) and h0.equals(want_h)
        res.ob("R08.1", "leading pair is (0, first_month_hour(start_month) - 1)", ok_l and ok_h, prog.loc(fi, hours[0][1]))
        if not ok_l:
            res.violation("R08.1", "pre-load", prog.loc(fi, loads[0][1]), fi.qualname, f"the load before the simulation starts is {l0} instead of 0")
        if not ok_h:
            res.violation("R08.1", "pre-hour", prog.loc(fi, hours[0][1]), fi.qualname,
                          f"the breakpoint before the first month is {h0.key() if isinstance(h0, Rat) else h0} instead of first_month_hour(start_month) - 1")
    # initial arrays in __init__
    init = prog.func(f"{CLS}.__init__")
    res.analysed(init.qualname)
    for attr in ("self.load", "self.hour"):
        inits = [n for n in ast.walk(init.node) if isinstance(n, ast.Assign) and any(attr_chain(t) == attr for t in n.targets)]
        ok = len(inits) == 1 and norm_stmt(inits[0].value) in ("np.array(0)", "np.array([0])", "np.zeros(1)", "np.array(0.0)", "np.array([0.0])")
        res.ob("R08.1", f"{attr} initialised with one zero entry", ok, prog.loc(init, inits[0]) if inits else prog.loc(init, init.node))
        if not ok:
            res.violation("R08.1", f"init:{attr}", prog.loc(init, inits[0]) if inits else prog.loc(init, init.node), init.qualname,
                          f"{attr} is not initialised with exactly one zero entry ({[norm_stmt(i) for i in inits]}); GHE.simulate drops two leading entries")
    # GHE.simulate: hybrid branch reads load[k:] and hour[k:] with the same k = 2
    sim = prog.func("ghedesigner.ground_heat_exchangers.GHE.simulate")
    res.analysed(sim.qualname)
    sl = {}
    for n in ast.walk(sim.node):
        if isinstance(n, ast.Subscript) and isinstance(n.slice, ast.Slice) and attr_chain(n.value) in ("self.hybrid_load.load", "self.hybrid_load.hour"):
            sl.setdefault(attr_chain(n.value), []).append(n)
    if set(sl) != {"self.hybrid_load.load", "self.hybrid_load.hour"}:
        raise AnalysisError(f"{sim.qualname}: slices of hybrid_load.load / hybrid_load.hour not found")
    for k, lst in sl.items():
        for n in lst:
            lo = n.slice.lower
            ok = n.slice.upper is None and n.slice.step is None and isinstance(lo, ast.Constant) and lo.value == 2
            res.ob("R08.1", f"simulate() drops exactly the two leading entries of {k.split('.')[-1]} ({ast.unparse(n)})", ok, prog.loc(sim, n))
            if not ok:
                res.violation("R08.1", f"simulate-slice:{k}:{ast.unparse(n)}", prog.loc(sim, n), sim.qualname,
                              f"simulate() reads {ast.unparse(n)}; the sequence carries exactly two leading zero entries "
                              f"(loads and breakpoints would be misaligned or a month segment lost)")
    # start month passed by the manager
    mgr = prog.func("ghedesigner.manager.GHEManager.set_simulation_parameters")
    res.analysed(mgr.qualname)
    calls = [n for n in ast.walk(mgr.node) if isinstance(n, ast.Call) and attr_chain(n.func) == "SimulationParameters"]
    if len(calls) != 1:
        raise AnalysisError(f"{mgr.qualname}: SimulationParameters(...) call not found")
    from ..model import bind_args

    sp_init = prog.func("ghedesigner.simulation.SimulationParameters.__init__")
    b = bind_args(sp_init, calls[0])
    ok = "start_month" in b and isinstance(b["start_month"], ast.Constant) and b["start_month"].value == 1
    res.ob("R08.1", "manager passes start_month = 1", ok, prog.loc(mgr, calls[0]))
    if not ok:
        res.violation("R08.1", "start-month", prog.loc(mgr, calls[0]), mgr.qualname,
                      f"the manager passes start_month = {ast.unparse(b['start_month']) if 'start_month' in b else '?'}: the axis would not start at hour 0")
    ok = "end_month" in b and ast.unparse(b["end_month"]) == "num_months"
    res.ob("R08.1", "manager passes end_month = num_months", ok, prog.loc(mgr, calls[0]))
    if not ok:
        res.violation("R08.1", "end-month", prog.loc(mgr, calls[0]), mgr.qualname,
                      f"the manager passes end_month = {ast.unparse(b['end_month']) if 'end_month' in b else '?'} instead of the requested number of months")

    _check_replication(prog, res, ma)
    _check_calendar(prog, res)
    return res


def _check_replication(prog: Program, res: Result, ma: hc.MonthAnalysis):
    fi = ma.fi
    # arrays subscripted by the loop variable in the emission loop
    iv = ma.loop_var
    read = set()
    for n in ast.walk(ma.loop):
        if isinstance(n, ast.Subscript) and isinstance(n.slice, ast.Name) and n.slice.id == iv:
            c = attr_chain(n.value)
            if c and c.startswith("self.monthly_"):
                read.add(c)
    res.count("monthly_arrays_read", len(read))
    res.floor("monthly_arrays_read", 6)
    # the replication loop: a for loop (before the emission loop) whose body appends self.monthly_X[...] to self.monthly_X
    rep = None
    for n in ast.walk(fi.node):
        if isinstance(n, ast.For) and n is not ma.loop and n.lineno < ma.loop.lineno:
            for c in ast.walk(n):
                if isinstance(c, ast.Call) and isinstance(c.func, ast.Attribute) and c.func.attr == "append" and (attr_chain(c.func.value) or "").startswith("self.monthly_"):
                    rep = n
    if rep is None:
        res.ob("R08.3", "replication loop precedes the emission loop", False, prog.loc(fi, fi.node))
        res.violation("R08.3", "no-replication-loop", prog.loc(fi, fi.node), fi.qualname,
                      "no loop replicating the monthly arrays for months beyond 12 precedes the emission loop")
        return
    it = rep.iter
    if isinstance(it, ast.Name):
        # a local bound once to the range, e.g. months = range(self.start_month, self.end_month + 1)
        ds = [a for a in ast.walk(fi.node) if isinstance(a, ast.Assign) and any(isinstance(t, ast.Name) and t.id == it.id for t in a.targets)]
        if len(ds) == 1 and ds[0].lineno < rep.lineno:
            it = ds[0].value
    ok_iter = (isinstance(it, ast.Call) and attr_chain(it.func) == "range" and len(it.args) == 2 and ast.unparse(it.args[0]) == "self.start_month"
               and ast.unparse(it.args[1]).replace("(", "").replace(")", "") in ("self.end_month + 1", "1 + self.end_month"))
    res.ob("R08.3", f"replication loop covers range(start_month, end_month + 1): {ast.unparse(it)}", ok_iter, prog.loc(fi, rep))
    if not ok_iter:
        res.violation("R08.3", f"rep-range:{ast.unparse(it)}", prog.loc(fi, rep), fi.qualname, f"the replication loop covers {ast.unparse(it)}")
    rv = rep.target.id if isinstance(rep.target, ast.Name) else None
    appended = []

    class H(Hooks):
        def on_call(self, node, fname, args, kwargs, st, eng):
            if isinstance(node.func, ast.Attribute) and node.func.attr == "append" and (attr_chain(node.func.value) or "").startswith("self.monthly_") and len(node.args) == 1:
                st.emit("APP", (attr_chain(node.func.value), node.args[0], args[0]), node)
            return None

    eng = Engine(prog, fi, H())
    st = State()
    st.env[rv] = Rat.atom(rv)
    # numeric constants the function binds once, wherever (num_months_in_year = 12 before the loop or inside it)
    nstores = {}
    for a in ast.walk(fi.node):
        if isinstance(a, ast.Name) and isinstance(a.ctx, ast.Store):
            nstores[a.id] = nstores.get(a.id, 0) + 1
    for a in ast.walk(fi.node):
        if isinstance(a, ast.Assign) and len(a.targets) == 1 and isinstance(a.targets[0], ast.Name) and nstores.get(a.targets[0].id) == 1 \
                and isinstance(a.value, ast.Constant) and isinstance(a.value.value, (int, float)) and not isinstance(a.value.value, bool):
            st.env[a.targets[0].id] = eng.eval(a.value, st)
    finals = eng.run_block(rep.body, [st])
    I = Rat.atom(rv)
    checked = 0
    for f in finals:
        # only paths on which the month is beyond the first year
        s12 = f.sign_of(I - Rat.const(12))
        evs = [e for e in f.events if e.kind == "APP"]
        if s12 != frozenset("+"):
            if evs and "+" not in s12:
                res.violation("R08.3", "replicates-first-year", prog.loc(fi, evs[0].node), fi.qualname,
                              "monthly arrays are extended for a month of the first year (year-1 entries would be duplicated)")
            continue
        checked += 1
        modv = sym.call("mod", [I, Rat.const(12)])
        smod = f.sign_of(modv)
        if smod == frozenset("0"):
            want = Rat.const(12)
            case = "i % 12 == 0"
        elif "0" not in smod:
            want = modv
            case = "i % 12 != 0"
        else:
            want = None
            case = "i % 12 unconstrained"
        got = {}
        for e in evs:
            tgt, src_ast, src_val = e.data
            got[tgt] = (src_ast, src_val, e.node)
        # no branch on the wrap, but a conditional VALUE (i % 12 or 12): decided once per case of the remainder
        subcases = None
        if want is None:
            f0, f1 = f.fork(), f.fork()
            if f0.assume(make_cmp(modv, "==", Rat.const(0)), True) and f1.assume(make_cmp(modv, "!=", Rat.const(0)), True):
                subcases = [(f0, Rat.const(12)), (f1, modv)]
        missing = sorted(read - set(got))
        res.ob("R08.3", f"[{case}] every monthly array read by the emission loop is replicated ({len(read)} arrays)", not missing, prog.loc(fi, rep))
        for m in missing:
            res.violation("R08.3", f"not-replicated:{m}", prog.loc(fi, rep), fi.qualname,
                          f"{m} is read by the emission loop for every month but is not extended for months beyond 12 "
                          f"(months 13.. would raise IndexError or reuse the wrong value)")
        for tgt, (src_ast, src_val, node) in got.items():
            okm = isinstance(src_ast, ast.Subscript) and attr_chain(src_ast.value) == tgt
            idx_ok = False
            if okm and want is not None:
                idx = eng.eval(src_ast.slice, f)
                idx_ok = isinstance(idx, Rat) and idx.equals(want)
            elif okm and want is None:
                # no branch on the wrap: only the closed form (i - 1) % 12 + 1 is right for i = 24, 36, ...
                idx = eng.eval(src_ast.slice, f)
                idx_ok = isinstance(idx, Rat) and idx.equals(sym.call("mod", [I - Rat.const(1), Rat.const(12)]) + Rat.const(1))
                if not idx_ok and isinstance(idx, Rat) and subcases:
                    idx_ok = all(hc.resolve_ite(idx, fs).equals(w_) for fs, w_ in subcases)
            res.ob("R08.3", f"[{case}] {tgt.split('.')[-1]} extended from its own entry {want.key() if want is not None else '?'}", okm and idx_ok, prog.loc(fi, node))
            if not okm:
                res.violation("R08.3", f"wrong-source:{tgt}", prog.loc(fi, node), fi.qualname,
                              f"{tgt} is extended from {ast.unparse(src_ast)} instead of its own year-1 entry")
            elif not idx_ok:
                res.violation("R08.3", f"wrong-index:{tgt}:{case}", prog.loc(fi, node), fi.qualname,
                              f"{tgt} for month i is taken from index {ast.unparse(src_ast.slice)} = "
                              f"{eng.eval(src_ast.slice, f)} on the path with {case} (expected {want.key() if want is not None else 'i % 12 with 0 -> 12'})")
    res.count("replication_paths", checked)
    res.floor("replication_paths", 1)


def _list_ints(node):
    if isinstance(node, (ast.List, ast.Tuple)) and all(isinstance(e, ast.Constant) and isinstance(e.value, int) for e in node.elts):
        return [e.value for e in node.elts]
    return None


def _check_calendar(prog: Program, res: Result):
    # ---- monthdays tables
    q = f"{GL}.monthdays"
    fi = prog.func(q)
    res.analysed(q)
    tables = []

    class V(ast.NodeVisitor):
        def __init__(self):
            self.stack = []

        def visit_If(self, n):
            self.stack.append((n.test, True))
            for s in n.body:
                self.visit(s)
            self.stack[-1] = (n.test, False)
            for s in n.orelse:
                self.visit(s)
            self.stack.pop()

        def visit_Assign(self, n, v=None):
            v = n.value if v is None else v
            if isinstance(v, ast.IfExp):  # x = A if c else B  is  if c: x = A  else: x = B
                self.stack.append((v.test, True))
                self.visit_Assign(n, v.body)
                self.stack[-1] = (v.test, False)
                self.visit_Assign(n, v.orelse)
                self.stack.pop()
                return
            if isinstance(v, ast.Name) and v.id in prog.modules[fi.module].constants and v.id not in local_names:
                v = prog.modules[fi.module].constants[v.id]  # a module-level table
            li = _list_ints(v)
            if li is not None:
                tables.append((li, list(self.stack), n))
                if len(n.targets) == 1 and isinstance(n.targets[0], ast.Name):
                    base_of[n.targets[0].id] = li
                return
            # <table>[k] = c under a guard: the table of that branch is the base with element k replaced
            for t in n.targets:
                if isinstance(t, ast.Subscript) and isinstance(t.value, ast.Name) and t.value.id in base_of and isinstance(t.slice, ast.Constant) \
                        and isinstance(n.value, ast.Constant) and isinstance(n.value.value, int) and self.stack:
                    li2 = list(base_of[t.value.id])
                    if 0 <= t.slice.value < len(li2):
                        li2[t.slice.value] = n.value.value
                        tables.append((li2, list(self.stack), n))

    local_names = {x.id for x in ast.walk(fi.node) if isinstance(x, ast.Name) and isinstance(x.ctx, ast.Store)} | set(fi.params())
    base_of = {}
    V().visit(fi.node)
    from ..model import module_container_mutations

    for hq in (q, f"{GL}.first_month_hour", f"{GL}.last_month_hour"):
        hf = prog.func(hq)
        muts = module_container_mutations(prog, hf)
        res.ob("R08.4", f"{hq.split('.')[-1]}: the calendar tables are not shared module state mutated in place", not muts, prog.loc(hf, hf.node))
        for node_, loc_, g_, how_ in muts:
            res.violation("R08.4", f"calendar-shared-table|{hq.split('.')[-1]}|{g_}", prog.loc(hf, node_), hq,
                          f"the month-length table {g_} is module-level and is changed in place ({how_} through {loc_}): after one leap-year evaluation every later call sees the changed table")
    if not tables:
        raise AnalysisError(f"{q}: no literal month-length table")
    want_nonleap = [31] + NONLEAP
    want_leap = [31] + [calendar.monthrange(2020, m)[1] for m in range(1, 13)]
    got_nonleap = got_leap = False
    for li, guards, n in tables:
        leap = None
        for test, pol in guards:
            t_ = test
            if isinstance(t_, ast.Name):
                t_ = next((s_.value for s_ in ast.walk(fi.node) if isinstance(s_, ast.Assign) and len(s_.targets) == 1 and isinstance(s_.targets[0], ast.Name) and s_.targets[0].id == t_.id), t_)
            # <year parameter> % 4 == 0
            if isinstance(t_, ast.Compare) and len(t_.ops) == 1 and isinstance(t_.ops[0], ast.Eq) and isinstance(t_.left, ast.BinOp) and isinstance(t_.left.op, ast.Mod) \
                    and isinstance(t_.left.left, ast.Name) and t_.left.left.id in fi.params() and isinstance(t_.left.right, ast.Constant) and t_.left.right.value == 4 \
                    and isinstance(t_.comparators[0], ast.Constant) and t_.comparators[0].value == 0:
                leap = pol
        if leap is None and not guards:
            leap = False  # the table every call starts from
        if leap is False:
            ok = li == want_nonleap
            got_nonleap = True
            res.ob("R08.4", "monthdays: non-leap table = [Dec wrap] + stdlib calendar", ok, prog.loc(fi, n))
            if not ok:
                res.violation("R08.4", f"monthdays-nonleap:{li}", prog.loc(fi, n), q, f"non-leap month lengths {li} differ from {want_nonleap}")
        elif leap is True:
            ok = li == want_leap
            got_leap = True
            res.ob("R08.4", "monthdays: leap table differs from the non-leap one in February only", ok, prog.loc(fi, n))
            if not ok:
                res.violation("R08.4", f"monthdays-leap:{li}", prog.loc(fi, n), q, f"leap-year month lengths {li} differ from {want_leap}")
    if not got_nonleap:
        raise AnalysisError(f"{q}: non-leap table not identified")
    # index: md = month % 12 if month > 12 else month ; return num_days[md]
    eng = Engine(prog, fi, Hooks())
    st = State()
    st.env["month"] = Rat.atom("month")
    st.env["year"] = Rat.atom("year")
    finals = eng.run_function(st)
    for f in finals:
        if f.exit is None or f.exit[0] != "return":
            continue
    rets = [n for n in ast.walk(fi.node) if isinstance(n, ast.Return)]
    ok = len(rets) == 1 and isinstance(rets[0].value, ast.Subscript)
    idx_ok = False
    if ok:
        M = Rat.atom("month")
        rfin = [f for f in finals if f.exit is not None and f.exit[0] == "return"]
        idx_ok = bool(rfin)
        for f in rfin:
            idx = eng.eval(rets[0].value.slice, f)
            good = False
            if isinstance(idx, Rat):
                k = idx.key()
                if k.startswith("ite("):
                    # one path, the choice kept as a conditional value: ite(month > 12, month % 12, month)  [index 0 is the December wrap]
                    good = "mod(month, 12)" in k and k.rstrip(")").endswith("month") and not idx.equals(M)
                else:
                    # the choice was a branch: this path knows on which side of 12 the month is
                    sg = f.sign_of(M - Rat.const(12))
                    if sg == frozenset("+"):
                        good = idx.equals(sym.call("mod", [M, Rat.const(12)]))
                    elif sg and sg <= frozenset("-0"):
                        good = idx.equals(M)
            idx_ok = idx_ok and good
    res.ob("R08.4", "monthdays indexes the table by month (months > 12 wrapped modulo 12, 0 = December)", ok and idx_ok, prog.loc(fi, rets[0]) if rets else prog.loc(fi, fi.node))
    if not (ok and idx_ok):
        res.violation("R08.4", "monthdays-index", prog.loc(fi, rets[0]) if rets else prog.loc(fi, fi.node), q,
                      f"monthdays does not index its table by month wrapped modulo 12: {norm_stmt(rets[0]) if rets else '?'}")

    # ---- last_month_hour: 0 + sum_{i in range(1, month+1)} monthdays(i, .) * 24
    for name, init_want, range_want, inc_arg in (
        ("last_month_hour", 0, ("1", "month + 1"), "i"),
        ("first_month_hour", 1, ("1", "month"), "mod"),
    ):
        q = f"{GL}.{name}"
        fi = prog.func(q)
        res.analysed(q)
        loops = [n for n in ast.walk(fi.node) if isinstance(n, ast.For)]
        if len(loops) != 1 or not isinstance(loops[0].target, ast.Name):
            raise AnalysisError(f"{q}: expected one accumulation loop")
        loop = loops[0]
        lv = loop.target.id
        eng = Engine(prog, fi, Hooks())
        st = State()
        for p in fi.params():
            st.env[p] = Rat.atom(p)
        # straight-line prefix
        acc_names = []
        for s in fi.node.body:
            if any(x is loop for x in ast.walk(s)):
                break
            if isinstance(s, ast.Assign):
                eng._s_Assign(s, st)
        consts = {k: v for k, v in st.env.items() if isinstance(v, Rat) and v.is_const() and k not in fi.params()}
        it = loop.iter
        ok_r = (isinstance(it, ast.Call) and attr_chain(it.func) == "range" and len(it.args) == 2
                and ast.unparse(it.args[0]) == range_want[0] and ast.unparse(it.args[1]).replace("(", "").replace(")", "") in (range_want[1], " + ".join(reversed(range_want[1].split(" + ")))))
        res.ob("R08.4", f"{name}: accumulates over range({range_want[0]}, {range_want[1]})", ok_r, prog.loc(fi, loop))
        if not ok_r:
            res.violation("R08.4", f"{name}-range:{ast.unparse(it)}", prog.loc(fi, loop), q, f"{name} accumulates over {ast.unparse(it)} instead of range({range_want[0]}, {range_want[1]})")
        st2 = st.fork()
        st2.env[lv] = Rat.atom(lv)
        for k in consts:
            st2.env[k] = Rat.atom(k)
        fins = [f_ for f_ in eng.run_block(loop.body, [st2]) if f_.exit is None]
        if not fins or len(fins) > 8:
            raise AnalysisError(f"{q}: loop body not understood ({len(fins)} paths)")
        accs_ = {k for f_ in fins for k in consts if isinstance(f_.env.get(k), Rat) and not f_.env[k].equals(Rat.atom(k))}
        if len(accs_) != 1:
            raise AnalysisError(f"{q}: accumulator not identified ({sorted(accs_)})")
        a = accs_.pop()
        ok_init = consts[a].const_value() == init_want
        res.ob("R08.4", f"{name}: accumulator starts at {init_want}", ok_init, prog.loc(fi, fi.node))
        if not ok_init:
            res.violation("R08.4", f"{name}-init:{consts[a]}", prog.loc(fi, fi.node), q, f"{name} starts accumulating at {consts[a]} instead of {init_want}")
        # increment = 24 * monthdays(<i or i % 12>, .)  on every path through the loop body
        ok_inc = True
        inc = None
        for fin in fins:
            inc = fin.env[a] - Rat.atom(a)
            md = [x for x in inc.atoms() if x.startswith("monthdays(")]
            ok1 = False
            if len(md) == 1 and inc.equals(Rat.const(24) * Rat.atom(md[0])):
                df = sym.ATOM_DEF.get(md[0])
                arg0 = df[2][0] if df and df[0] == "call" else None
                if isinstance(arg0, Rat):
                    if arg0.equals(Rat.atom(lv)) or arg0.equals(sym.call("mod", [Rat.atom(lv), Rat.const(12)])):
                        ok1 = True
            if not ok1:
                ok_inc = False
                break
        res.ob("R08.4", f"{name}: adds 24 * monthdays(loop month) per month (got {inc.key()[:120]})", ok_inc, prog.loc(fi, loop))
        if not ok_inc:
            res.violation("R08.4", f"{name}-increment", prog.loc(fi, loop), q, f"{name} adds {inc.key()[:200]} per month instead of 24 * monthdays(month)")
        # any assignment to the accumulator outside the loop overrides the sum: only `month == 1 -> 31 * 24` agrees with it
        from ..paths import cmp_is, negate

        for n in ast.walk(fi.node):
            if isinstance(n, ast.If) and not any(x is loop for x in ast.walk(n)):
                for blk, pol in ((n.body, True), (n.orelse, False)):
                    for s in blk:
                        if isinstance(s, ast.Assign) and len(s.targets) == 1 and isinstance(s.targets[0], ast.Name) and s.targets[0].id == a:
                            c = eng.cond(n.test, st)
                            if not pol:
                                c = negate(c)
                            v = eng.eval(s.value, st)
                            ok_sp = cmp_is(c, Rat.atom(fi.params()[0]) - Rat.const(1), "0") and isinstance(v, Rat) and v.is_const() and v.const_value() == 31 * 24
                            res.ob("R08.4", f"{name}: the only override of the sum is 'month == 1 -> 31 * 24', which equals it", ok_sp, prog.loc(fi, s))
                            if not ok_sp:
                                res.violation("R08.4", f"{name}-special:{vkey(v)[:30]}:{c.key()[:60]}", prog.loc(fi, s), q,
                                              f"{name} overrides the accumulated hours with {vkey(v)[:40]} under '{c.key()[:80]}'; only month == 1 -> 744 agrees with the sum")

    # ---- output tables (also used by C19)
    for q in ("ghedesigner.output.OutputManager.hours_to_month", "ghedesigner.output.OutputManager.ghe_time_convert"):
        fi = prog.func(q)
        res.analysed(q)
        tabs = [(n, _list_ints(n.value)) for n in ast.walk(fi.node) if isinstance(n, ast.Assign) and _list_ints(n.value) is not None and len(_list_ints(n.value)) >= 12]
        if not tabs:
            raise AnalysisError(f"{q}: month table not found")
        for n, li in tabs:
            ok = li == NONLEAP
            res.ob("R08.4", f"{q.split('.')[-1]}: month table equals the non-leap calendar", ok, prog.loc(fi, n))
            if not ok:
                res.violation("R08.4", f"{q.split('.')[-1]}-table:{li}", prog.loc(fi, n), q, f"month lengths {li} differ from the non-leap calendar {NONLEAP}")


VARIANTS = [
    Variant("month loop runs to the length of the monthly arrays instead of the requested horizon (seeded C08_f)", "break",
            [(GL, "        peak_last_avg_hour = 0.0\n        for i in range(self.start_month, (self.end_month + 1)):", "        last_month = len(self.monthly_cl) - 1\n        peak_last_avg_hour = 0.0\n        for i in range(self.start_month, (last_month + 1)):")], "R08.0"),
    Variant("month loop bound held in a local", "benign",
            [(GL, "        peak_last_avg_hour = 0.0\n        for i in range(self.start_month, (self.end_month + 1)):", "        last_month = self.end_month\n        peak_last_avg_hour = 0.0\n        for i in range(self.start_month, 1 + last_month):")]),
    Variant("last breakpoint overwritten after the month loop (seeded C08_c)", "break",
            [(GL, "        n = self.hour.size\n", "        self.hour[-1] = self.end_month / 12.0 * 8760.0\n        n = self.hour.size\n")], "R08.0"),
    Variant("same-day peaks sent through the heating-first branch (seeded C08_d)", "break",
            [(GL, "            elif peak_day_diff > 0:", "            elif peak_day_diff >= 0:")], "R08.5"),
    Variant("one module-level month table, February patched in place for leap years (seeded C08_b)", "break",
            [(GL, """    if leap_year:
        num_days = [31, 31, 29, 31, 30, 31, 30, 31, 31, 30, 31, 30, 31]
    else:
        num_days = [31, 31, 28, 31, 30, 31, 30, 31, 31, 30, 31, 30, 31]
    return num_days[md]""", """    num_days = DAYS_IN_MONTH
    if leap_year:
        num_days[2] = 29
    return num_days[md]"""),
             (GL, "def monthdays(month, year):", "DAYS_IN_MONTH = [31, 31, 28, 31, 30, 31, 30, 31, 31, 30, 31, 30, 31]\n\n\ndef monthdays(month, year):")], "R08.4"),
    Variant("one module-level month table, copied before February is patched", "benign",
            [(GL, """    if leap_year:
        num_days = [31, 31, 29, 31, 30, 31, 30, 31, 31, 30, 31, 30, 31]
    else:
        num_days = [31, 31, 28, 31, 30, 31, 30, 31, 31, 30, 31, 30, 31]
    return num_days[md]""", """    num_days = DAYS_IN_MONTH
    if leap_year:
        num_days = [31, 31, 29, 31, 30, 31, 30, 31, 31, 30, 31, 30, 31]
    return num_days[md]"""),
             (GL, "def monthdays(month, year):", "DAYS_IN_MONTH = [31, 31, 28, 31, 30, 31, 30, 31, 31, 30, 31, 30, 31]\n\n\ndef monthdays(month, year):")]),
    Variant("February has 29 days in the non-leap table", "break",
            [(GL, "        num_days = [31, 31, 28, 31, 30, 31, 30, 31, 31, 30, 31, 30, 31]", "        num_days = [31, 31, 29, 31, 30, 31, 30, 31, 31, 30, 31, 30, 31]")], "R08.4"),
    Variant("replication loop omits monthly_peak_cl_day", "break",
            [(GL, "                    self.monthly_peak_cl_day.append(self.monthly_peak_cl_day[mi])\n", "")], "R08.3"),
    Variant("replication takes the heating duration from the cooling array", "break",
            [(GL, "self.monthly_peak_hl_duration.append(self.monthly_peak_hl_duration[mi])", "self.monthly_peak_hl_duration.append(self.monthly_peak_cl_duration[mi])")], "R08.3"),
    Variant("replication forgets the 0 -> 12 wrap", "break",
            [(GL, """                    if mi == 0:
                        mi = num_months_in_year
""", "")], "R08.3"),
    Variant("simulate() reads load[1:] with hour[2:]", "break",
            [("ghedesigner.ground_heat_exchangers", "q_dot = self.hybrid_load.load[2:] * 1000.0", "q_dot = self.hybrid_load.load[1:] * 1000.0")], "R08.1"),
    Variant("axis starts one hour late", "break",
            [(GL, "last_zero_hour = first_month_hour(self.start_month, self.years) - 1", "last_zero_hour = first_month_hour(self.start_month, self.years)")], "R08.1"),
    Variant("last_month_hour sums one month too few", "break",
            [(GL, "    for i in range(1, month + 1):\n        current_year = years[(month - 1) // 12] if len(years) > 1 else years[0]\n        lmh", "    for i in range(1, month):\n        current_year = years[(month - 1) // 12] if len(years) > 1 else years[0]\n        lmh")], "R08.4"),
    Variant("hours_to_month uses a 30-day April->31", "break",
            [("ghedesigner.output", """    def hours_to_month(hours):
        days_in_year = [31, 28, 31, 30, 31, 30, 31, 31, 30, 31, 30, 31]""", """    def hours_to_month(hours):
        days_in_year = [31, 28, 31, 31, 31, 30, 31, 31, 30, 31, 30, 31]""")], "R08.4"),
    Variant("manager passes start_month = 0", "break",
            [("ghedesigner.manager", "            1, num_months, max_eft, min_eft, max_height, min_height, max_boreholes, continue_if_design_unmet",
              "            0, num_months, max_eft, min_eft, max_height, min_height, max_boreholes, continue_if_design_unmet")], "R08.1"),
    Variant("month table written as a tuple", "benign",
            [(GL, "        num_days = [31, 31, 28, 31, 30, 31, 30, 31, 31, 30, 31, 30, 31]", "        num_days = (31, 31, 28, 31, 30, 31, 30, 31, 31, 30, 31, 30, 31)")]),
    Variant("replication statements reordered", "benign",
            [(GL, """                    self.monthly_cl.append(self.monthly_cl[mi])
                    self.monthly_hl.append(self.monthly_hl[mi])""", """                    self.monthly_hl.append(self.monthly_hl[mi])
                    self.monthly_cl.append(self.monthly_cl[mi])""")]),
]
