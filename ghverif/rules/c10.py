"""C10 - the short-time radial model is conservative and consistent (algebraic part).

Not decided (numerical): finiteness, monotonicity, lower bound, 0.5 % agreement with a finer mesh.  Decided:

  R10.1  tiling: five consecutive regions; region k holds cells  start_k + j * thick_k,  j < num_k, in the
         columns  sum(num_m, m<k) ... ;  thick_k * num_k = start_(k+1) - start_k  as a rational identity in the
         pipe / borehole radii;  start_0 = r_fluid,  the last region ends at r_far_field = 10,  bh_wall_idx =
         number of cells before the soil region;  each cell is [r, r + thick] with its centre midway and volume
         pi (r_out^2 - r_in^2); the seven values are stored in the order of the CellProps enum (R10.7)
  R10.2  fluid thermal mass:  rho_cp_eq * pi (r_conv^2 - r_fluid^2)  =  2 pi r_in^2 C_f
  R10.3  layer resistances:  k_conv = ln(r_in_tube / r_conv) / (2 pi Rf),  k_pipe = k_grout =
         ln(r_b / r_in_tube) / (2 pi Rpg),  Rf = R_f / 2,  Rpg = Rb* - Rf   (so the layers sum to Rb*)
  R10.4  flux symmetry:  ae[j] = -aw[j + 1]  (the face conductance is built from the same two half-cell terms
         from either side), including the first face  ae0 = -aw[0]
  R10.5  rows:  dl + d + du = -1 on interior rows and on row 0,  the three coefficient slices are aligned
         (dl[0:n-2], d[1:n-1], du[1:n-1]),  capacity term = rho_cp * vol / dt of the centre cell,
         right-hand side -T_old (minus q / ad in row 0),  last row Dirichlet
  R10.9  frame condition: a method that re-assigns an attribute also re-assigns, after it and by the constructor's
         formula, every attribute the constructor derives from it (the mesh is never built from a half-refreshed state)
  R10.10 sampling: each of the three computed lists gets exactly one sample per time step, and the time march is left only
         when the time variable reaches final_time
  R10.8  publication: lntts / g / g_bhw are the computed curves resampled on one uniform grid, g_sts interpolates them
  R10.6  outputs:  g = 2 pi k_s ((T_0 - T_init) / q - Rb*),  g_bhw = 2 pi k_s (T_wall - T_init) / q with
         T_wall the cell at bh_wall_idx,  lntts = ln(t / t_s),  t_s = H^2 / (9 alpha)
"""
from __future__ import annotations

import ast

from .. import sym
from ..model import AnalysisError, Program, attr_chain, norm_stmt
from ..paths import Arr, Const, Engine, FuncRef, Hooks, Opaque, Seq, State, View, vkey
from ..report import Result
from ..selftest import Variant
from ..sym import Rat

PROP = "C10"
TITLE = "Short-time radial g-function: tiling, thermal mass, layer resistances, conservative stencil, outputs"
EXPLANATION = (
    "Symbolic evaluation of RadialNumericalBH.__init__, fill_radial_cells and calc_sts_g_functions: scalars as "
    "rational normal forms over the pipe / borehole radii and properties, the record array as element atoms "
    "ROW@offset so that the west / centre / east windows differ by integer offsets; tiling, thermal-mass, resistance, "
    "flux-symmetry, row-sum and output identities are checked by cross-multiplication."
)
ASSUMPTIONS = ["numpy element-wise semantics and slicing", "dgtsv solves the tridiagonal system it is given"]

RN = "ghedesigner.radial_numerical_borehole"
CLS = f"{RN}.RadialNumericalBH"
ROWS = ["R_IN", "R_CENTER", "R_OUT", "K", "RHO_CP", "TEMP", "VOL"]
PI = Rat.atom("pi")


def init_envs(prog: Program):
    """the attribute values the constructor leaves, one environment per path through it (a constructor with a branch - e.g.
    a grid adapted to a slim annulus - is analysed once per branch)"""
    fi = prog.func(f"{CLS}.__init__")
    eng = Engine(prog, fi, Hooks())
    st = State()
    st.env["single_u_tube"] = Rat.atom("single_u_tube")
    fin = [f for f in eng.run_function(st) if f.exit is None or f.exit[0] == "return"]
    if not fin or len(fin) > 8:
        raise AnalysisError(f"{fi.qualname}: {len(fin)} paths through the constructor")
    envs = []
    for f in fin:
        env = {k: v for k, v in f.env.items() if k.startswith("self.")}
        out = {}
        env.pop("self.single_u_tube", None)  # keep reads through self.single_u_tube symbolic
        for k, v in env.items():
            if isinstance(v, Rat):
                out[k] = v.subs({a: Rat.atom("self." + a) for a in v.all_atoms() if a.startswith("single_u_tube.")})
            else:
                out[k] = v
        envs.append((out, " & ".join(k for k, tr, ln in f.trail)[:120]))
    return fi, envs


def check(prog: Program, tier: str) -> Result:
    res = Result(PROP)
    ifi, envs = init_envs(prog)
    res.analysed(ifi.qualname)
    for env0, trail in envs:
        n0 = len(res.findings)
        _cells(prog, res, env0)
        _stencil(prog, res, env0)
        for f_ in res.findings[n0:]:
            if trail and "constructor path" not in f_.message:
                f_.message += f" (on the constructor path [{trail}])"
    _frame(prog, res, ifi)
    return res


def _frame(prog: Program, res: Result, ifi):
    """R10.9: the rules above evaluate fill_radial_cells / calc_sts_g_functions on the attribute values the constructor
    computes.  That is the state of the object only if no other method leaves it half-updated: a method that re-assigns an
    attribute must also re-assign every attribute the constructor computes FROM it (transitively), after it, and by the same
    formula - otherwise the mesh is built from radii and thicknesses that no longer belong together."""
    from ..model import walk_no_nested

    cls = prog.cls(CLS)
    init = ifi.node
    # constructor: attribute -> (statement, attributes read)
    defs = {}
    for s_ in walk_no_nested(init):
        if isinstance(s_, ast.Assign) and len(s_.targets) == 1 and (attr_chain(s_.targets[0]) or "").startswith("self.") and attr_chain(s_.targets[0]).count(".") == 1:
            x = attr_chain(s_.targets[0])
            reads = {attr_chain(a) for a in ast.walk(s_.value) if isinstance(a, ast.Attribute) and (attr_chain(a) or "").startswith("self.") and attr_chain(a).count(".") == 1}
            defs[x] = (s_, reads - {x})
    derived = {}  # y -> attributes computed from y, transitively
    for y in defs:
        out, work = set(), [y]
        while work:
            cur = work.pop()
            for x, (_, reads) in defs.items():
                if cur in reads and x not in out:
                    out.add(x)
                    work.append(x)
        derived[y] = out
    n_links = sum(len(v) for v in derived.values())
    res.count("derived_attribute_links", n_links)
    res.floor("derived_attribute_links", 15)

    def writes_of(m, seen=()):
        """[(attribute, statement)] in textual order, calls of the object's own methods expanded"""
        out = []
        for s_ in walk_no_nested(m.node):
            if isinstance(s_, (ast.Assign, ast.AugAssign)):
                for t in (s_.targets if isinstance(s_, ast.Assign) else [s_.target]):
                    for tt in (t.elts if isinstance(t, (ast.Tuple, ast.List)) else [t]):
                        c = attr_chain(tt)
                        if c and c.startswith("self.") and c.count(".") == 1:
                            out.append((c, s_))
            elif isinstance(s_, ast.Call) and isinstance(s_.func, ast.Attribute) and attr_chain(s_.func.value) == "self" and s_.func.attr in cls.methods and s_.func.attr not in seen and s_.func.attr != "__init__":
                out.extend((c, s_) for c, _ in writes_of(cls.methods[s_.func.attr], seen + (m.name,)))
        out.sort(key=lambda cs: (cs[1].lineno, cs[1].col_offset))
        return out

    n_m = 0
    for mname, m in sorted(cls.methods.items()):
        if mname == "__init__":
            continue
        n_m += 1
        ws = writes_of(m)
        order = {}
        for k, (c, s_) in enumerate(ws):
            order.setdefault(c, k)
            order[c + "#last"] = k
        bad = []
        for y in sorted({c for c, _ in ws}):
            for x in sorted(derived.get(y, ())):
                if x not in order:
                    bad.append((y, x, "is left as it was"))
                elif order[x + "#last"] < order[y]:
                    bad.append((y, x, "is recomputed before it, from the old value"))
        res.ob("R10.9", f"{mname}: every attribute it re-assigns ({', '.join(sorted({c[5:] for c, _ in ws})) or 'none'}) takes the attributes the constructor derives from it along", not bad, prog.loc(m, m.node))
        for y, x, how in bad[:4]:
            st_ = next(s_ for c, s_ in ws if c == y)
            res.violation("R10.9", f"stale-derived|{mname}|{y}|{x}", prog.loc(m, st_), m.qualname,
                          f"{mname}() re-assigns {y}, but {x} - which the constructor computes from it ({norm_stmt(defs[x][0])[:90]}) - {how}: the mesh is then built from values that do not belong together")
        # same formula: a re-assigned constructor attribute whose constructor formula reads only attributes must be recomputed by it
        if ws and not bad:
            eng = Engine(prog, m, Hooks())
            st0 = State()
            for p_ in m.params():
                if p_ != "self":
                    st0.env[p_] = Rat.atom(p_)
            for x in defs:
                st0.env[x] = Rat.atom(x)
            try:
                fin = eng.run_function(st0)
            except AnalysisError:
                fin = []
            for f_ in fin[:8]:
                for x in sorted({c for c, s_ in ws if c in defs and isinstance(s_, (ast.Assign, ast.AugAssign))}):  # its own statements, not those of the methods it calls
                    rhs = defs[x][0].value
                    if any(isinstance(a, ast.Name) and a.id != "self" and not (a.id in prog.modules[ifi.module].constants or a.id in prog.modules[ifi.module].imports) for a in ast.walk(rhs) if isinstance(a, ast.Name)):
                        continue  # formula uses constructor locals / its parameter
                    e2 = Engine(prog, ifi, Hooks())
                    s2 = State()
                    s2.env = dict(f_.env)
                    want = e2.eval(rhs, s2)
                    got = f_.env.get(x)
                    if isinstance(want, Rat) and isinstance(got, Rat):
                        ok = got.equals(want)
                        res.ob("R10.9", f"{mname}: {x} is recomputed by the constructor's formula", ok, prog.loc(m, m.node))
                        if not ok:
                            res.violation("R10.9", f"formula|{mname}|{x}", prog.loc(m, next(s_ for c, s_ in ws if c == x)), m.qualname,
                                          f"{mname}() sets {x} to {got.key()[:80]}; the constructor's formula gives {want.key()[:80]} for the same state")
    if n_m < 3:
        raise AnalysisError(f"{CLS}: methods not found")


# ---------------------------------------------------------------------------
class _CellHooks(Hooks):
    def __init__(self, prog):
        self.prog = prog
        self.loops = []

    def on_stmt(self, s, st, eng):
        if isinstance(s, ast.Assign) and len(s.targets) == 1 and isinstance(s.targets[0], ast.Subscript) and isinstance(s.value, ast.Call) and attr_chain(s.value.func) == "fill_single_cell":
            t = s.targets[0]
            col = None
            if isinstance(t.slice, ast.Tuple) and len(t.slice.elts) == 2:
                col = eng.eval(t.slice.elts[1], st)
            args = [eng.eval(a, st) for a in s.value.args]
            st.emit("CELL", (col, args), s)
            return [st]
        return None


def _cells(prog: Program, res: Result, env0):
    q = f"{CLS}.fill_radial_cells"
    fi = prog.func(q)
    res.analysed(q)
    hooks = _CellHooks(prog)
    eng = Engine(prog, fi, hooks, loop_bound=1, zero_trip=False)
    st = State()
    st.env.update(env0)
    for p in fi.params():
        if p != "self":
            st.env[p] = Rat.atom(p)
    loops = [n for n in fi.node.body if isinstance(n, ast.For)]
    res.count("regions", len(loops))
    res.floor("regions", 5)
    fin = [f for f in eng.run_function(st) if f.exit is not None and f.exit[0] == "return"]
    if len(fin) != 1:
        raise AnalysisError(f"{q}: expected one path with every region loop entered once, found {len(fin)}")
    f = fin[0]
    cells = [e for e in f.events if e.kind == "CELL"]
    if len(cells) != len(loops):
        raise AnalysisError(f"{q}: {len(cells)} cell assignments for {len(loops)} region loops")
    names = ["fluid", "convection", "pipe", "grout", "soil"]
    nums = ["self.num_fluid_cells", "self.num_conv_cells", "self.num_pipe_cells", "self.num_grout_cells", "self.num_soil_cells"]
    regs = []
    cum = Rat.const(0)
    for k, (lp, ev) in enumerate(zip(loops, cells)):
        col, args = ev.data
        if len(args) != 4 or not all(isinstance(a, Rat) for a in args):
            raise AnalysisError(f"{q}: fill_single_cell arguments of region {k} not understood")
        inner, thick, kk, rc = args
        # loop variables: the variable v that runs over range(lo, hi) (range(n): lo = 0) and, with enumerate, the in-region counter j;
        # the column written is any expression c0 + v (the variable itself, or an offset plus it)
        it = lp.iter
        tgt = lp.target
        if isinstance(it, ast.Call) and attr_chain(it.func) == "enumerate" and isinstance(tgt, ast.Tuple) and len(tgt.elts) == 2 and all(isinstance(e_, ast.Name) for e_ in tgt.elts):
            rng = it.args[0]
            jname, idxname = tgt.elts[0].id, tgt.elts[1].id
        elif isinstance(tgt, ast.Name):
            rng = it
            jname = idxname = tgt.id
        else:
            raise AnalysisError(f"{q}: region loop {k}: loop target not understood")
        if not (isinstance(rng, ast.Call) and attr_chain(rng.func) == "range" and len(rng.args) in (1, 2)):
            raise AnalysisError(f"{q}: region loop {k} is not over range(a, b)")
        # evaluate range bounds in the state *before* the loop: use env values of the counters (constants)
        sb = _state_before(eng, fi, st, lp)
        lo = eng.eval(rng.args[0], sb) if len(rng.args) == 2 else Rat.const(0)
        hi = eng.eval(rng.args[-1], sb)
        num = env0.get(nums[k]) if k < len(nums) else None
        c0 = None
        if isinstance(col, Rat):
            c0 = col - Rat.atom(idxname)
            # the offset is evaluated before the loop as well (a running 'first column' counter)
            if any(a == idxname for a in c0.all_atoms()):
                c0 = None
        if c0 is not None:
            c0 = c0.subs({a: sb.env[a] for a in c0.all_atoms() if isinstance(sb.env.get(a), Rat)})
        okc = c0 is not None
        first_col = (c0 + lo) if (okc and isinstance(lo, Rat)) else None
        last_col = (c0 + hi) if (okc and isinstance(hi, Rat)) else None
        ok_cols = first_col is not None and last_col is not None and first_col.equals(cum) and num is not None and (last_col - first_col).equals(num)
        res.ob("R10.1", f"{names[k]} region occupies columns [{cum.key()}, {cum.key()} + {num.key() if num is not None else '?'})", ok_cols, prog.loc(fi, lp))
        if not ok_cols:
            res.violation("R10.1", f"columns|{names[k]}|{vkey(first_col)}:{vkey(last_col)}", prog.loc(fi, lp), q,
                          f"the {names[k]} cells are written to columns [{vkey(first_col)}, {vkey(last_col)}) instead of [{cum.key()}, {cum.key()} + {num.key() if num is not None else '?'}): regions overlap or leave a gap in the cell table")
        if not okc:
            res.violation("R10.1", f"column-index|{names[k]}", prog.loc(fi, ev.node), q, f"the {names[k]} cells are stored under column {vkey(col)} instead of the loop's column index")
        J = Rat.atom(jname) - (lo if jname == idxname and isinstance(lo, Rat) else Rat.const(0))
        # inner = S + J * T
        jat = Rat.atom(jname)
        start = inner.subs({jname: (lo if jname == idxname and isinstance(lo, Rat) else Rat.const(0))})
        slope = inner.coeff(jname) if inner.d.is_const() or jname not in "".join(inner.d.atoms()) else None
        lin = slope is not None and (start + slope * J).equals(inner)
        okT = lin and slope.equals(thick)
        res.ob("R10.1", f"{names[k]} cells: inner radius = start + j * thickness, thickness passed to the cell is the same", bool(okT), prog.loc(fi, ev.node))
        if not okT:
            res.violation("R10.1", f"cell-spacing|{names[k]}", prog.loc(fi, ev.node), q,
                          f"the {names[k]} cells are placed at {inner.key()[:120]} with thickness {thick.key()[:80]}: consecutive cells do not abut")
        regs.append((names[k], start, thick, num, kk, rc, ev))
        if num is not None:
            cum = cum + num
    # tiling: start_{k+1} = start_k + num_k * thick_k
    far = env0.get("self.r_far_field")
    for k, (nm, start, thick, num, kk, rc, ev) in enumerate(regs):
        nxt = regs[k + 1][1] if k + 1 < len(regs) else far
        end = start + num * thick
        ok = isinstance(nxt, Rat) and end.equals(nxt)
        nn = regs[k + 1][0] if k + 1 < len(regs) else "far field (r_far_field)"
        res.ob("R10.1", f"{nm} region ends where the {nn} begins ({end.key()[:70]})", ok, prog.loc(fi, ev.node))
        if not ok:
            res.violation("R10.1", f"tiling|{nm}->{nn}", prog.loc(fi, ev.node), q,
                          f"the {nm} region ends at {end.key()[:120]} but the {nn} starts at {nxt.key()[:120] if isinstance(nxt, Rat) else nxt}: gap or overlap in the radial mesh")
    ok = regs and regs[0][1].equals(env0["self.r_fluid"])
    res.ob("R10.1", "the mesh starts at r_fluid", bool(ok), prog.loc(fi, fi.node))
    if not ok:
        res.violation("R10.1", "mesh-start", prog.loc(fi, fi.node), q, f"the first cell starts at {regs[0][1].key()[:80] if regs else '?'} instead of r_fluid")
    ok = isinstance(far, Rat) and far.equals(Rat.const(10))
    res.ob("R10.1", "far-field radius is 10 m", ok, prog.loc(fi, fi.node))
    if not ok:
        res.violation("R10.1", f"far-field|{vkey(far)}", prog.loc(fi, fi.node), f"{CLS}.__init__", f"the far-field radius is {vkey(far)} instead of 10 m")
    # borehole wall index and total number of cells
    if len(regs) == 5:
        before_soil = sum((r[3] for r in regs[:4]), Rat.const(0))
        ok = isinstance(env0.get("self.bh_wall_idx"), Rat) and env0["self.bh_wall_idx"].equals(before_soil) and regs[4][1].equals(env0["self.r_borehole"]) \
            and env0["self.r_borehole"].equals(Rat.atom("self.single_u_tube.b.r_b"))
        res.ob("R10.1", f"bh_wall_idx = number of cells before the soil region, which starts at the borehole radius ({vkey(env0.get('self.bh_wall_idx'))})", ok, prog.loc(fi, fi.node))
        if not ok:
            res.violation("R10.1", f"bh-wall-idx|{vkey(env0.get('self.bh_wall_idx'))}", prog.loc(fi, fi.node), f"{CLS}.__init__",
                          f"bh_wall_idx = {vkey(env0.get('self.bh_wall_idx'))} but {before_soil.key()} cells precede the soil region (the wall temperature would be read from the wrong cell)")
        tot = sum((r[3] for r in regs), Rat.const(0))
        ok = isinstance(env0.get("self.num_cells"), Rat) and env0["self.num_cells"].equals(tot)
        res.ob("R10.1", f"num_cells = sum of the region sizes ({vkey(env0.get('self.num_cells'))})", ok, prog.loc(fi, fi.node))
        if not ok:
            res.violation("R10.1", "num-cells", prog.loc(fi, fi.node), f"{CLS}.__init__", f"num_cells = {vkey(env0.get('self.num_cells'))} but the regions hold {tot.key()} cells")
    # ---- the cell record
    sub = prog.funcs.get(f"{q}.<locals>.fill_single_cell")
    if sub is None:
        raise AnalysisError(f"{q}: nested fill_single_cell not found")
    e2 = Engine(prog, sub, Hooks())
    s2 = State()
    s2.env.update(env0)
    for p in sub.params():
        s2.env[p] = Rat.atom(p)
    fin2 = [x for x in e2.run_function(s2) if x.exit and x.exit[0] == "return"]
    if len(fin2) != 1:
        raise AnalysisError(f"{sub.qualname}: not straight-line")
    rv = fin2[0].exit[1]
    items = None
    rnode = fin2[0].exit[2].value
    if isinstance(rnode, ast.Call) and rnode.args and isinstance(rnode.args[0], (ast.List, ast.Tuple)):
        items = [e2.eval(x, fin2[0]) for x in rnode.args[0].elts]
    if items is None or len(items) != 7 or not all(isinstance(x, Rat) for x in items):
        raise AnalysisError(f"{sub.qualname}: record of seven values not understood")
    r, t, kc, rc = (Rat.atom(p) for p in sub.params())
    want = {"R_IN": r, "R_CENTER": r + t / Rat.const(2), "R_OUT": r + t, "K": kc, "RHO_CP": rc, "TEMP": env0["self.init_temp"],
            "VOL": PI * ((r + t) ** 2 - r ** 2)}
    enumv = prog.enum_values(f"{RN}.CellProps")
    for nm in ROWS:
        pos = enumv.get(nm)
        ok = pos is not None and pos < len(items) and items[pos].equals(want[nm])
        res.ob("R10.7", f"cell record: position CellProps.{nm} = {pos} holds {want[nm].key()[:50]}", bool(ok), prog.loc(sub, rnode))
        if not ok:
            res.violation("R10.7", f"record|{nm}|{items[pos].key()[:50] if pos is not None and pos < len(items) else None}", prog.loc(sub, rnode), sub.qualname,
                          f"row CellProps.{nm} (= {pos}) of the cell record holds {items[pos].key()[:100] if pos is not None and pos < len(items) else 'nothing'} instead of {want[nm].key()[:80]}")
    # ---- R10.2 fluid thermal mass
    r_in = Rat.atom("self.single_u_tube.pipe.r_in")
    cf = Rat.atom("self.single_u_tube.fluid.rhoCp")
    rconv, rfl = env0["self.r_convection"], env0["self.r_fluid"]
    if regs:
        rc_f = regs[0][5]
        ok = (rc_f * PI * (rconv ** 2 - rfl ** 2)).equals(Rat.const(2) * PI * r_in ** 2 * cf)
        res.ob("R10.2", "fluid cells: rho_cp_eq * pi (r_conv^2 - r_fluid^2) = 2 pi r_in^2 C_f (thermal mass of the fluid in both legs)", ok, prog.loc(fi, regs[0][6].node))
        if not ok:
            res.violation("R10.2", f"fluid-mass|{rc_f.key()[:80]}", prog.loc(fi, regs[0][6].node), q,
                          f"the fluid cells carry rho*cp = {rc_f.key()[:160]}; their total thermal mass is not that of the fluid in the two pipe legs (2 pi r_in^2 C_f)")
    # ---- R10.3 layer conductivities
    if len(regs) == 5:
        rf, rpg = Rat.atom("resist_f_effective"), Rat.atom("resist_pg_effective")
        rit, rb = env0["self.r_in_tube"], env0["self.r_borehole"]
        kconv_want = sym.log(rit / rconv) / (Rat.const(2) * PI * rf)
        kpg_want = sym.log(rb / rit) / (Rat.const(2) * PI * rpg)
        ok = regs[1][4].equals(kconv_want)
        res.ob("R10.3", "convection layer: k = ln(r_in_tube / r_conv) / (2 pi Rf)", ok, prog.loc(fi, regs[1][6].node))
        if not ok:
            res.violation("R10.3", f"k-conv|{regs[1][4].key()[:80]}", prog.loc(fi, regs[1][6].node), q, f"convection-layer conductivity is {regs[1][4].key()[:140]}: the layer does not carry the fluid resistance Rf")
        for k in (2, 3):
            ok = regs[k][4].equals(kpg_want)
            res.ob("R10.3", f"{regs[k][0]} layer: k = ln(r_b / r_in_tube) / (2 pi Rpg)", ok, prog.loc(fi, regs[k][6].node))
            if not ok:
                res.violation("R10.3", f"k-{regs[k][0]}|{regs[k][4].key()[:80]}", prog.loc(fi, regs[k][6].node), q,
                              f"{regs[k][0]}-layer conductivity is {regs[k][4].key()[:140]}: pipe + grout between r_in_tube and r_b do not carry Rpg")
        ok = regs[4][4].equals(Rat.atom("self.single_u_tube.soil.k")) and regs[4][5].equals(Rat.atom("self.single_u_tube.soil.rhoCp"))
        res.ob("R10.3", "soil cells carry the soil's conductivity and heat capacity", ok, prog.loc(fi, regs[4][6].node))
        if not ok:
            res.violation("R10.3", "soil-props", prog.loc(fi, regs[4][6].node), q, f"soil cells carry k = {regs[4][4].key()[:60]}, rho*cp = {regs[4][5].key()[:60]}")
        ok = regs[2][5].equals(Rat.atom("self.single_u_tube.pipe.rhoCp")) and regs[3][5].equals(Rat.atom("self.single_u_tube.grout.rhoCp"))
        res.ob("R10.3", "pipe and grout cells carry their own heat capacities", ok, prog.loc(fi, regs[2][6].node))
        if not ok:
            res.violation("R10.3", "pipe-grout-capacity", prog.loc(fi, regs[2][6].node), q, f"pipe / grout cells carry rho*cp = {regs[2][5].key()[:60]} / {regs[3][5].key()[:60]}")


def _state_before(eng, fi, st0, loop):
    """state after the straight-line statements that precede `loop` at function level (counters are constants)"""
    st = st0.fork()
    for s in fi.node.body:
        if s is loop:
            break
        if isinstance(s, (ast.Assign, ast.AugAssign)):
            if isinstance(s, ast.Assign) and isinstance(s.value, ast.Call) and "zeros" in ast.unparse(s.value.func):
                continue
            eng.run_stmt(s, st)
    return st


# ---------------------------------------------------------------------------
class _StencilHooks(Hooks):
    def __init__(self, prog, fi):
        self.prog = prog
        self.fi = fi
        # scalars that the solver loop itself changes are taken symbolically from the start: the one analysed trip then
        # stands for ANY trip of the loop (what was assembled before the loop is assumed assembled with the current value,
        # which the trip must re-establish when it changes that value)
        self.havoc = set()
        self.loop_line = 10 ** 9
        loop = next((n_ for n_ in ast.walk(fi.node) if isinstance(n_, ast.While) and any(isinstance(c, ast.Call) and attr_chain(c.func) == "dgtsv" for c in ast.walk(n_))), None)
        if loop is not None:
            self.loop_line = loop.lineno
            for n_ in ast.walk(loop):
                if isinstance(n_, (ast.Assign, ast.AugAssign)):
                    for t in (n_.targets if isinstance(n_, ast.Assign) else [n_.target]):
                        if isinstance(t, ast.Name):
                            self.havoc.add(t.id)

    def on_assign(self, key, val, stmt, st, eng):
        if key in self.havoc and getattr(stmt, "lineno", 10 ** 9) < self.loop_line and isinstance(val, Rat) and val.is_const():
            st.env[key] = Rat.atom(f"{key}@loop")

    def on_call(self, node, fname, args, kwargs, st, eng):
        if fname == "self.fill_radial_cells":
            st.emit("FILL", args, node)
            return Rat.atom("radial_cells")
        if fname == "self.partial_init":
            return Const(None)
        if fname == "self.single_u_tube.calc_effective_borehole_resistance":
            return Rat.atom("RB")
        if fname and fname.endswith(".append") and len(args) == 1 and "." in fname and not fname.startswith("self."):
            st.emit("APPEND", (fname[:-7], args[0]), node)
            return Const(None)
        if fname in ("dgtsv", "interp1d", "np.linspace", "np.array", "np.zeros", "np.zeros_like"):
            return Opaque(fname or "call", node)
        ref = st.env.get(fname) if fname else None
        # nested straight-line closures  f(a, ..) -> value : executed in place on the caller's state (they write the
        # enclosing function's arrays); their own parameters / locals are restored afterwards
        if isinstance(ref, FuncRef) and isinstance(ref.node, ast.FunctionDef) and not (len(node.args) == 2 and len(ref.node.body) == 1):
            fn = ref.node
            body = [s for s in fn.body if not (isinstance(s, ast.Expr) and isinstance(s.value, ast.Constant))]
            if all(isinstance(s, (ast.Assign, ast.AugAssign, ast.Expr, ast.Return)) for s in body) and not kwargs \
                    and len(fn.args.args) == len(args) and (not body or all(not isinstance(s, ast.Return) for s in body[:-1])):
                own = {a.arg for a in fn.args.args} | {t.id for s in body if isinstance(s, ast.Assign) for t in s.targets if isinstance(t, ast.Name)}
                saved = {k: st.env.get(k) for k in own}
                for a, v in zip(fn.args.args, args):
                    st.env[a.arg] = v
                ret = Const(None)
                okrun = True
                for s in body:
                    if isinstance(s, ast.Return):
                        ret = eng.eval(s.value, st) if s.value is not None else Const(None)
                        break
                    out = eng.run_stmt(s, st)
                    if len(out) != 1 or out[0] is not st:
                        okrun = False
                        break
                for k, v in saved.items():
                    if v is None:
                        st.env.pop(k, None)
                    else:
                        st.env[k] = v
                if okrun:
                    st.emit("CLOSURE", fname, node)
                    return ret
        # nested helpers  f(out_array, cell_view): inline  out[:] = <expr over cell>
        if isinstance(ref, FuncRef) and ref.node is not None and isinstance(ref.node, ast.FunctionDef) and len(node.args) == 2 and isinstance(node.args[0], ast.Name):
            fn = ref.node
            ps = [a.arg for a in fn.args.args]
            body = [s for s in fn.body if not (isinstance(s, ast.Expr) and isinstance(s.value, ast.Constant))]
            if len(ps) == 2 and len(body) == 1 and isinstance(body[0], ast.Assign) and isinstance(body[0].targets[0], ast.Subscript) and attr_chain(body[0].targets[0].value) == ps[0]:
                sub = st.fork()
                sub.env[ps[1]] = args[1]
                val = eng.eval(body[0].value, sub)
                st.env[node.args[0].id] = val
                st.emit("HELPER", (fname, node.args[0].id, val), node)
                return Const(None)
        return None


def _stencil(prog: Program, res: Result, env0):
    q = f"{CLS}.calc_sts_g_functions"
    fi = prog.func(q)
    res.analysed(q)
    eng = Engine(prog, fi, _StencilHooks(prog, fi), loop_bound=1, zero_trip=False)
    st = State()
    st.env.update({k: v for k, v in env0.items() if k not in ("self.t_s", "self.calc_time_in_sec")})
    st.env["final_time"] = Rat.atom("final_time")
    fins = [f for f in eng.run_function(st) if f.exit is not None and f.exit[0] == "return"]
    if not fins:
        raise AnalysisError(f"{q}: no returning path")
    res.count("stencil_paths", len(fins))
    seen_obs = set()
    base_ob = res.ob

    def ob_once(rule, desc, ok, where=""):
        k_ = (rule, desc, ok)
        if k_ in seen_obs:
            return ok
        seen_obs.add(k_)
        return base_ob(rule, desc, ok, where)

    res.ob = ob_once
    try:
        for f in fins:
            _stencil_path(prog, res, env0, fi, q, eng, f)
    finally:
        res.ob = base_ob


def _stencil_path(prog: Program, res: Result, env0, fi, q, eng, f):
    n = env0["self.num_cells"]

    def arr(name):
        v = f.env.get(name)
        return v if isinstance(v, Arr) else None

    def E(row, off):
        return sym.elem_atom(f"radial_cells.CellProps.{row}", off)

    def S(row, idx):
        return Rat.atom(f"radial_cells.CellProps.{row}[{idx}]")

    TWO_PI = Rat.const(2) * PI
    # ---- anchors read off the code (no local name is assumed):
    #   the four arrays handed to the tridiagonal solver, the time / time-step pair advanced in the solver loop,
    #   the lists that end up in self.g / self.g_bhw / self.lntts
    dg = [c for c in ast.walk(fi.node) if isinstance(c, ast.Call) and attr_chain(c.func) == "dgtsv"]
    def base_and_extent(a):
        """X  or  X[:k] / X[0:k]  ->  (X, k expr or None)"""
        if isinstance(a, ast.Name):
            return a.id, None
        if isinstance(a, ast.Subscript) and isinstance(a.value, ast.Name) and isinstance(a.slice, ast.Slice) and a.slice.step is None \
                and (a.slice.lower is None or (isinstance(a.slice.lower, ast.Constant) and a.slice.lower.value == 0)) and a.slice.upper is not None:
            return a.value.id, a.slice.upper
        return None, None

    if len(dg) != 1 or len(dg[0].args) < 4 or any(base_and_extent(a)[0] is None for a in dg[0].args[:4]):
        raise AnalysisError(f"{q}: the tridiagonal solve dgtsv(dl, d, du, b) was not found")
    (DL, xdl), (D, xd), (DU, xdu), (B, xb) = (base_and_extent(a) for a in dg[0].args[:4])
    # the solve must cover every cell: whole arrays, or prefixes of the full lengths n-1, n, n-1, n
    ext_bad = []
    for nm, x_, full in ((DL, xdl, n - Rat.const(1)), (D, xd, n), (DU, xdu, n - Rat.const(1)), (B, xb, n)):
        if x_ is not None:
            v_ = eng.eval(x_, f)
            if not (isinstance(v_, Rat) and v_.equals(full)):
                ext_bad.append(f"{nm}[:{ast.unparse(x_)}]")
    res.ob("R10.5", "the tridiagonal solve covers all cells (full coefficient arrays)", not ext_bad, prog.loc(fi, dg[0]))
    if ext_bad:
        res.violation("R10.5", f"solve-extent|{ext_bad}", prog.loc(fi, dg[0]), q,
                      f"dgtsv is given {ext_bad}: only part of the radial mesh is solved and the fixed-temperature boundary sits inside the 10 m far field - heat reaching it is lost")
        return
    loop = next((n_ for n_ in ast.walk(fi.node) if isinstance(n_, ast.While) and any(dg[0] is x for x in ast.walk(n_))), None)
    if loop is None:
        raise AnalysisError(f"{q}: the time-stepping loop around the solve was not found")
    from ..model import as_increment

    aug = [as_increment(s_) for s_ in loop.body if as_increment(s_) is not None and isinstance(as_increment(s_)[1], ast.Name)]
    if len(aug) != 1:
        raise AnalysisError(f"{q}: the loop does not advance exactly one time variable by a step variable")
    TIME, STEP = aug[0][0], aug[0][1].id
    dt = f.env.get(STEP)
    if not isinstance(dt, Rat):
        raise AnalysisError(f"{q}: time step not understood")

    def half_out(off):  # from the centre of cell `off` to its outer face
        return sym.log(E("R_OUT", off) / E("R_CENTER", off)) / (TWO_PI * E("K", off))

    def half_in(off):  # from the inner face of cell `off` to its centre
        return sym.log(E("R_CENTER", off) / E("R_IN", off)) / (TWO_PI * E("K", off))

    def half_out_s(idx):
        return sym.log(S("R_OUT", idx) / S("R_CENTER", idx)) / (TWO_PI * S("K", idx))

    def half_in_s(idx):
        return sym.log(S("R_CENTER", idx) / S("R_IN", idx)) / (TWO_PI * S("K", idx))

    # east conductance of interior cell c (offset 1): between cell c and c + 1; capacity of the centre cell
    want_ae = Rat.const(1) / (half_out(1) + half_in(2))
    want_aw = -(Rat.const(1) / (half_out(0) + half_in(1)))
    want_ad = E("RHO_CP", 1) * E("VOL", 1) / dt
    want_ae0 = Rat.const(1) / (half_out_s(0) + half_in_s(1))
    want_ad0 = S("RHO_CP", 0) * S("VOL", 0) / dt
    keys = {k: v for k, v in f.env.items() if k.startswith((f"{DL}[", f"{D}[", f"{DU}[", f"{B}["))}
    lo0, lo1, hi_a, hi_b = "0", "1", (n - Rat.const(2)).key(), (n - Rat.const(1)).key()
    dl, d, du = keys.get(f"{DL}[{lo0}:{hi_a}]"), keys.get(f"{D}[{lo1}:{hi_b}]"), keys.get(f"{DU}[{lo1}:{hi_b}]")
    shown = sorted(k.replace(DL, "dl", 1) if k.startswith(DL + "[") else (k.replace(DU, "du", 1) if k.startswith(DU + "[") else k.replace(D, "d", 1)) for k in keys if not k.startswith(B + "["))
    ok = all(isinstance(x, Arr) for x in (dl, d, du))
    res.ob("R10.5", f"coefficient slices are aligned: dl[0:n-2], d[1:n-1], du[1:n-1] (found {shown})", ok, prog.loc(fi, fi.node))
    if not ok:
        res.violation("R10.5", f"row-slices|{shown}", prog.loc(fi, fi.node), q,
                      f"the interior coefficients are stored in {shown} instead of dl[0:n-2], d[1:n-1], du[1:n-1]: rows and columns of the tridiagonal system are shifted")
        raise AnalysisError(f"{q}: interior coefficient rows not aligned - the remaining stencil rules cannot be evaluated")
    ae_got, aw_got = du.elem * want_ad, -(dl.elem * want_ad)  # what the rows use as conductances, given the capacity term
    ok = du.elem.equals(want_ae / want_ad)
    res.ob("R10.4", "east coefficient of cell c = [1 / (R[c centre -> outer face] + R[c+1 inner face -> centre])] / (rho_cp vol / dt)", ok, prog.loc(fi, fi.node))
    if not ok:
        res.violation("R10.4", f"ae|{ae_got.key()[:100]}", prog.loc(fi, fi.node), q, f"the east face conductance (du * rho_cp vol / dt) is {ae_got.key()[:220]}: it does not combine the outer half of the cell with the inner half of its east neighbour over the cell's own capacity")
    ok = dl.elem.equals(-want_aw / want_ad)
    res.ob("R10.4", "west coefficient of cell c = [1 / (R[c-1 centre -> outer face] + R[c inner face -> centre])] / (rho_cp vol / dt)", ok, prog.loc(fi, fi.node))
    if not ok:
        res.violation("R10.4", f"aw|{aw_got.key()[:100]}", prog.loc(fi, fi.node), q, f"the west face conductance (-dl * rho_cp vol / dt) is {aw_got.key()[:220]}: it does not combine the outer half of the west neighbour with the inner half of the cell over the cell's own capacity")
    sym_ok = ae_got.equals(-sym.shift_elems(aw_got, 1))
    res.ob("R10.4", "flux symmetry: ae[j] = -aw[j + 1] (what leaves a cell eastwards enters its neighbour from the west)", sym_ok, prog.loc(fi, fi.node))
    if not sym_ok:
        res.violation("R10.4", "flux-symmetry", prog.loc(fi, fi.node), q, "ae[j] != -aw[j+1]: the scheme does not conserve heat across cell faces")
    d0, du0 = f.env.get(f"{D}[0]"), f.env.get(f"{DU}[0]")
    ok = isinstance(du0, Rat) and du0.equals(want_ae0 / want_ad0)
    res.ob("R10.4", "first face: row 0 sees the conductance between cell 0 and cell 1 that row 1 sees, over the capacity of cell 0", ok, prog.loc(fi, fi.node))
    if not ok:
        res.violation("R10.4", f"first-face|{vkey(du0)[:80]}", prog.loc(fi, fi.node), q, f"row 0 couples to cell 1 with {vkey(du0)[:160]}, not (conductance between cell 0 and 1) / (rho_cp vol / dt of cell 0)")
    # rows
    s_ = dl.elem + d.elem + du.elem
    ok = s_.equals(Rat.const(-1))
    res.ob("R10.5", "interior rows: dl + d + du = -1", ok, prog.loc(fi, fi.node))
    if not ok:
        res.violation("R10.5", f"row-sum|{s_.key()[:60]}", prog.loc(fi, fi.node), q, f"interior rows sum to {s_.key()[:120]} instead of -1: a uniform temperature field is not preserved")
    cap = (du.elem / want_ae)
    ok = cap.equals(Rat.const(1) / want_ad) or not du.elem.equals(want_ae / want_ad) and False
    res.ob("R10.5", "capacity term of an interior row = rho_cp * vol / dt of the centre cell", ok, prog.loc(fi, fi.node))
    if not ok:
        res.violation("R10.5", f"ad|{(Rat.const(1) / cap).key()[:80]}", prog.loc(fi, fi.node), q, f"the capacity term is {(Rat.const(1) / cap).key()[:160]} instead of rho_cp * vol / dt of the centre cell")
    ok = isinstance(d0, Rat) and isinstance(du0, Rat) and (d0 + du0).equals(Rat.const(-1))
    res.ob("R10.5", "row 0: d + du = -1", ok, prog.loc(fi, fi.node))
    if not ok:
        res.violation("R10.5", f"row0|{vkey(d0)[:40]}|{vkey(du0)[:40]}", prog.loc(fi, fi.node), q, f"row 0 has d = {vkey(d0)[:80]}, du = {vkey(du0)[:80]}")
    b_int = keys.get(f"{B}[{lo1}:{hi_b}]")
    ok = isinstance(b_int, Arr) and b_int.elem.equals(-E("TEMP", 1))
    res.ob("R10.5", "interior right-hand side = -T_old of the same cells", ok, prog.loc(fi, fi.node))
    if not ok:
        res.violation("R10.5", f"rhs-interior|{vkey(b_int)[:60]}", prog.loc(fi, fi.node), q, f"the interior right-hand side is {vkey(b_int)[:120]} instead of -T_old[1:n-1]")
    b0 = f.env.get(f"{B}[0]")
    T0 = S("TEMP", 0)
    # the heat input q is whatever row 0 injects: b0 = -T_old[0] - q / ad0
    qf = (-(b0 + T0) * want_ad0) if isinstance(b0, Rat) else None
    ok = isinstance(qf, Rat) and not any(a.startswith("radial_cells") or a.endswith("@loop") for a in qf.all_atoms()) and not qf.is_zero()
    res.ob("R10.5", f"row 0 right-hand side = -T_old[0] - q / ad with a heat input q that does not depend on the cells (q = {vkey(qf)[:30]})", ok, prog.loc(fi, fi.node))
    if not ok:
        stale = isinstance(qf, Rat) and any(a.endswith("@loop") for a in qf.all_atoms())
        res.violation("R10.5", f"rhs0|{'stale-step' if stale else vkey(b0)[:60]}", prog.loc(fi, fi.node), q,
                      (f"row 0 injects q / ad with a capacity term that belongs to another time step than the matrix (effective heat input {vkey(qf)[:80]}): "
                       "after the step length changes, the source term is not rebuilt with it") if stale else
                      f"row 0 right-hand side is {vkey(b0)[:120]} instead of -T_old[0] - q/ad")
        return
    last = (n - Rat.const(1)).key()
    dn, dln, bn = f.env.get(f"{D}[{last}]"), f.env.get(f"{DL}[{(n - Rat.const(2)).key()}]"), f.env.get(f"{B}[{last}]")
    ok = isinstance(dn, Rat) and dn.equals(Rat.const(1)) and isinstance(dln, Rat) and dln.is_zero() and isinstance(bn, Rat) and bn.equals(S("TEMP", last))
    res.ob("R10.5", "last row is Dirichlet: d = 1, dl = 0, b = T_old (fixed far-field temperature)", ok, prog.loc(fi, fi.node))
    if not ok:
        res.violation("R10.5", f"last-row|{vkey(dn)}|{vkey(dln)}|{vkey(bn)[:40]}", prog.loc(fi, fi.node), q, f"the far-field row is d = {vkey(dn)}, dl = {vkey(dln)}, b = {vkey(bn)[:60]} instead of a fixed-temperature row")
    # windows: the shifted views of the cell table that exist are the columns from 0, 1 and 2
    offs = sorted({v.off for v in f.env.values() if isinstance(v, View) and v.base == "radial_cells"})
    ok = offs == [0, 1, 2]
    res.ob("R10.4", f"the west / centre / east windows are the cell table shifted by 0 / 1 / 2 (found offsets {offs})", ok, prog.loc(fi, fi.node))
    if not ok:
        res.violation("R10.4", f"window|{offs}", prog.loc(fi, fi.node), q, f"the neighbour windows of the cell table start at columns {offs} instead of 0, 1, 2")
    # ---- what is published, and from which lists
    pub = {}
    for s_ in fi.node.body:
        if isinstance(s_, ast.Assign) and len(s_.targets) == 1 and attr_chain(s_.targets[0]) in ("self.lntts", "self.g", "self.g_bhw", "self.g_sts"):
            pub[attr_chain(s_.targets[0])] = s_
    defs = {s_.targets[0].id: s_.value for s_ in fi.node.body if isinstance(s_, ast.Assign) and len(s_.targets) == 1 and isinstance(s_.targets[0], ast.Name)}

    def root(node, depth=0):
        """follow np.array(X) / names down to ('interp', xs, ys, <grid root>) | ('linspace', [args]) | ('expr', text)"""
        if depth > 6:
            return ("expr", ast.unparse(node))
        if isinstance(node, ast.Call) and attr_chain(node.func) in ("np.array", "numpy.array") and node.args:
            return root(node.args[0], depth + 1)
        if isinstance(node, ast.Name) and node.id in defs and not isinstance(defs[node.id], ast.List):
            return root(defs[node.id], depth + 1)
        if isinstance(node, ast.Call) and isinstance(node.func, ast.Name) and node.func.id in defs:
            inner = defs[node.func.id]
            if isinstance(inner, ast.Call) and attr_chain(inner.func) == "interp1d" and len(inner.args) >= 2:
                return ("interp", ast.unparse(inner.args[0]), ast.unparse(inner.args[1]), root(node.args[0], depth + 1))
        if isinstance(node, ast.Call) and isinstance(node.func, ast.Call) and attr_chain(node.func.func) == "interp1d" and len(node.func.args) >= 2 and node.args:
            return ("interp", ast.unparse(node.func.args[0]), ast.unparse(node.func.args[1]), root(node.args[0], depth + 1))  # interp1d(xs, ys)(grid)
        if isinstance(node, ast.Call) and attr_chain(node.func) in ("np.linspace", "numpy.linspace"):
            return ("linspace", tuple(ast.unparse(a) for a in node.args))
        return ("expr", ast.unparse(node))

    if set(pub) != {"self.lntts", "self.g", "self.g_bhw", "self.g_sts"}:
        raise AnalysisError(f"{q}: published curves (self.lntts, self.g, self.g_bhw, self.g_sts) not found")
    rg, rw, grid = root(pub["self.g"].value), root(pub["self.g_bhw"].value), root(pub["self.lntts"].value)
    if rg[0] != "interp" or rw[0] != "interp":
        raise AnalysisError(f"{q}: self.g / self.g_bhw are not resampled lists: {rg}, {rw}")
    LN, G, GB = rg[1], rg[2], rw[2]
    okg = grid[0] == "linspace" and len(grid[1]) >= 3 and grid[1][0] == f"{LN}[0]" and grid[1][1] == f"{LN}[-1]"
    res.ob("R10.8", f"published abscissae: uniform grid from the first to the last computed ln(t/ts) ({grid[0]}{grid[1] if len(grid) > 1 else ''})", okg, prog.loc(fi, pub["self.lntts"]))
    if not okg:
        res.violation("R10.8", f"grid|{str(grid)[:60]}", prog.loc(fi, pub["self.lntts"]), q, f"the published ln(t/ts) grid is {str(grid)[:100]} instead of linspace(first, last computed ln(t/ts), n)")
    for attr, r_, other in (("self.g", rg, GB), ("self.g_bhw", rw, G)):
        ok = r_[1] == LN and r_[3] == grid and r_[2] != other
        res.ob("R10.8", f"published {attr[5:]}: its own computed list interpolated over (ln(t/ts), values) at the published grid", ok, prog.loc(fi, pub[attr]))
        if not ok:
            res.violation("R10.8", f"publish|{attr}|{str(r_)[:60]}", prog.loc(fi, pub[attr]), q, f"{attr} is {str(r_)[:120]} instead of its own computed list resampled on the published grid")
    v = pub["self.g_sts"].value
    ok = isinstance(v, ast.Call) and attr_chain(v.func) == "interp1d" and [ast.unparse(a) for a in v.args[:2]] == ["self.lntts", "self.g"]
    res.ob("R10.8", "g_sts interpolates the published (lntts, g)", ok, prog.loc(fi, pub["self.g_sts"]))
    if not ok:
        res.violation("R10.8", "g_sts-source", prog.loc(fi, pub["self.g_sts"]), q, f"g_sts is {ast.unparse(v)[:80]} instead of interp1d(self.lntts, self.g)")
    # ---- outputs
    apps = {e.data[0]: e for e in f.events if e.kind == "APPEND"}
    c0 = env0.get("self.c_0")
    okc = isinstance(c0, Rat) and c0.equals(TWO_PI * Rat.atom("self.single_u_tube.soil.k"))
    res.ob("R10.6", "c_0 = 2 pi k_soil", okc, prog.loc(fi, fi.node))
    if not okc:
        res.violation("R10.6", f"c0|{vkey(c0)[:60]}", prog.loc(fi, fi.node), f"{CLS}.__init__", f"c_0 = {vkey(c0)[:100]} instead of 2 pi k_soil")
    tinit = eng.eval(ast.parse("self.init_temp", mode="eval").body, f)
    if G in apps and isinstance(apps[G].data[1], Rat) and isinstance(c0, Rat) and isinstance(tinit, Rat) and isinstance(qf, Rat):
        got = apps[G].data[1]
        want = c0 * ((T0 - tinit) / qf - Rat.atom("RB"))
        ok = got.equals(want)
        res.ob("R10.6", "g = 2 pi k_s ((T_0 - T_init) / q - Rb*), q the heat input of row 0", ok, prog.loc(fi, apps[G].node))
        if not ok:
            res.violation("R10.6", f"g|{got.key()[:100]}", prog.loc(fi, apps[G].node), q, f"g is computed as {got.key()[:200]} instead of 2 pi k_s ((T_0 - T_init)/q - Rb*)")
    else:
        raise AnalysisError(f"{q}: value appended to the list published as self.g not understood")
    if GB in apps and isinstance(apps[GB].data[1], Rat):
        got = apps[GB].data[1]
        tw = S("TEMP", env0["self.bh_wall_idx"].key())
        want = c0 * (tw - tinit) / qf
        ok = got.equals(want)
        res.ob("R10.6", "g_bhw = 2 pi k_s (T[bh_wall_idx] - T_init) / q", ok, prog.loc(fi, apps[GB].node))
        if not ok:
            res.violation("R10.6", f"g_bhw|{got.key()[:100]}", prog.loc(fi, apps[GB].node), q, f"g_bhw is computed as {got.key()[:200]} instead of 2 pi k_s (T_wall - T_init)/q")
    else:
        raise AnalysisError(f"{q}: value appended to the list published as self.g_bhw not understood")
    if LN in apps and isinstance(apps[LN].data[1], Rat):
        got = apps[LN].data[1]
        tvar = f.env.get(TIME)
        want = sym.log(tvar / Rat.atom("self.t_s")) if isinstance(tvar, Rat) else None
        ok = want is not None and got.equals(want)
        res.ob("R10.6", "lntts = ln(t / t_s), t the variable the loop advances by the time step", ok, prog.loc(fi, apps[LN].node))
        if not ok:
            res.violation("R10.6", f"lntts|{got.key()[:80]}", prog.loc(fi, apps[LN].node), q, f"lntts is {got.key()[:120]} instead of ln(time / t_s)")
    else:
        raise AnalysisError(f"{q}: value appended to the list published as self.lntts not understood")
    # ---- R10.10 one sample per time step, and the march ends only at the requested time
    for nm_ in (LN, G, GB):
        sites = [c_ for c_ in ast.walk(fi.node) if isinstance(c_, ast.Call) and isinstance(c_.func, ast.Attribute) and c_.func.attr in ("append", "extend", "insert") and attr_chain(c_.func.value) == nm_]
        in_loop = [c_ for c_ in sites if any(c_ is x for x in ast.walk(loop))]
        ok = len(sites) == 1 and len(in_loop) == 1
        res.ob("R10.10", f"{nm_}: exactly one sample is recorded per time step", ok, prog.loc(fi, sites[-1]) if sites else prog.loc(fi, loop))
        if not ok:
            extra = sites[-1] if len(sites) > 1 else None
            res.violation("R10.10", f"samples|{nm_}|{len(sites)}", prog.loc(fi, extra) if extra is not None else prog.loc(fi, loop), q,
                          f"{nm_} is extended at {len(sites)} places: a sample that is not the solution of its own time step enters the published curve"
                          + (f" ('{norm_stmt(extra)[:70]}')" if extra is not None else ""))
    def _closure(expr):
        """names the condition depends on, through flags / temporaries assigned in the function (finished = time >= last_start;
        last_start = final_time - time_step), and whether a disjunction / conjunction is met on the way"""
        names, mixed = set(), False
        work, seen_ = [expr], set()
        for _ in range(4):
            nxt = []
            for e_ in work:
                mixed = mixed or any(isinstance(x, ast.BoolOp) for x in ast.walk(e_))
                for x in ast.walk(e_):
                    if isinstance(x, ast.Name) and x.id not in seen_:
                        seen_.add(x.id)
                        names.add(x.id)
                        if x.id in (TIME, "final_time"):
                            continue
                        for a_ in ast.walk(fi.node):
                            if isinstance(a_, ast.Assign) and len(a_.targets) == 1 and isinstance(a_.targets[0], ast.Name) and a_.targets[0].id == x.id and not isinstance(a_.value, ast.Constant):
                                nxt.append(a_.value)
            work = nxt
        return names, mixed

    for br in [x for x in ast.walk(loop) if isinstance(x, (ast.Break, ast.Return))]:
        guard = None
        for n_ in ast.walk(loop):
            if isinstance(n_, ast.If) and any(br is x for b_ in n_.body + n_.orelse for x in ast.walk(b_)):
                guard = n_
        names_, mixed_ = _closure(guard.test) if guard is not None else (set(), False)
        ok = guard is not None and TIME in names_ and "final_time" in names_ and not mixed_
        res.ob("R10.10", f"the time march is left only when the time variable reaches final_time ({ast.unparse(guard.test)[:60] if guard is not None else 'unconditional'})", ok, prog.loc(fi, br))
        if not ok:
            res.violation("R10.10", f"early-exit|{ast.unparse(guard.test)[:60] if guard is not None else 'unconditional'}", prog.loc(fi, br), q,
                          f"the time march is left under '{ast.unparse(guard.test)[:100] if guard is not None else 'no condition'}', which is not the end of the requested period: "
                          "the curve that is published claims times the temperature field never reached")
    if isinstance(loop, ast.While) and not (isinstance(loop.test, ast.Constant) and loop.test.value is True):
        names_, mixed_ = _closure(loop.test)
        ok = TIME in names_ and "final_time" in names_ and not mixed_
        res.ob("R10.10", f"the loop condition is a comparison of the time variable with final_time ({ast.unparse(loop.test)[:60]})", ok, prog.loc(fi, loop))
        if not ok:
            res.violation("R10.10", f"loop-test|{ast.unparse(loop.test)[:60]}", prog.loc(fi, loop), q, f"the time march runs while '{ast.unparse(loop.test)[:100]}', not until the requested final time")
    # resistances handed to the cell filler
    fill = [e for e in f.events if e.kind == "FILL"]
    if len(fill) != 1 or len(fill[0].data) != 2:
        raise AnalysisError(f"{q}: call of fill_radial_cells not understood")
    rf, rpg = fill[0].data
    okr = isinstance(rf, Rat) and rf.equals(Rat.atom("self.single_u_tube.R_f") / Rat.const(2)) and isinstance(rpg, Rat) and rpg.equals(Rat.atom("RB") - rf)
    res.ob("R10.3", "Rf = R_f / 2 (two legs in parallel), Rpg = Rb* - Rf: the layers between fluid and wall sum to Rb*", okr, prog.loc(fi, fill[0].node))
    if not okr:
        res.violation("R10.3", f"resistances|{vkey(rf)[:40]}|{vkey(rpg)[:40]}", prog.loc(fi, fill[0].node), q,
                      f"the layer resistances are Rf = {vkey(rf)[:80]}, Rpg = {vkey(rpg)[:80]}; they must be R_f / 2 and Rb* - Rf so that they sum to Rb*")
    # t_s
    pfi = prog.func(f"{CLS}.partial_init")
    res.analysed(pfi.qualname)
    e3 = Engine(prog, pfi, Hooks())
    s3 = State()
    s3.env["single_u_tube"] = Rat.atom("single_u_tube")
    f3 = e3.run_function(s3)[0]
    ts = f3.env.get("self.t_s")
    H = Rat.atom("single_u_tube.b.H")
    alpha_ok = False
    if isinstance(ts, Rat):
        alpha = H ** 2 / (Rat.const(9) * ts)
        alpha_ok = alpha.equals(Rat.atom("single_u_tube.k_s") / Rat.atom("single_u_tube.soil.rhoCp")) or alpha.equals(Rat.atom("single_u_tube.soil.k") / Rat.atom("single_u_tube.soil.rhoCp"))
    res.ob("R10.6", f"t_s = H^2 / (9 alpha), alpha = k_s / rhoCp_s (got {vkey(ts)[:80]})", alpha_ok, prog.loc(pfi, pfi.node))
    if not alpha_ok:
        res.violation("R10.6", f"ts|{vkey(ts)[:80]}", prog.loc(pfi, pfi.node), pfi.qualname, f"the characteristic time is {vkey(ts)[:140]} instead of H^2 / (9 k_s / rhoCp_s)")
    ts0 = env0.get("self.t_s")
    if isinstance(ts0, Rat) and isinstance(ts, Rat):
        ok = ts0.subs({a: Rat.atom(a.replace("self.single_u_tube.", "single_u_tube.")) for a in ts0.all_atoms()}).equals(ts)
        res.ob("R10.6", "constructor and partial_init agree on t_s", ok, prog.loc(pfi, pfi.node))
        if not ok:
            res.violation("R10.6", "ts-disagree", prog.loc(pfi, pfi.node), pfi.qualname, "the constructor and partial_init compute different characteristic times")


_ASM_OLD_1 = """        ad = radial_cells[CellProps.RHO_CP, 0] * radial_cells[CellProps.VOL, 0] / time_step
        _d[0] = -ae / ad - 1
        _du[0] = ae / ad
"""
_ASM_OLD_2 = """        _ad[:] = _center_cell[CellProps.RHO_CP, :] * _center_cell[CellProps.VOL, :] / time_step
        _dl[0 : self.num_cells - 2] = -_aw / _ad
        _d[1 : self.num_cells - 1] = _aw / _ad - _ae / _ad - 1.0
        _du[1 : self.num_cells - 1] = _ae / _ad
"""
_ASM_NEW_2 = """        def assemble(dt):
            core_ad = radial_cells[CellProps.RHO_CP, 0] * radial_cells[CellProps.VOL, 0] / dt
            _d[0] = -ae / core_ad - 1
            _du[0] = ae / core_ad
            _ad[:] = _center_cell[CellProps.RHO_CP, :] * _center_cell[CellProps.VOL, :] / dt
            _dl[0 : self.num_cells - 2] = -_aw / _ad
            _d[1 : self.num_cells - 1] = _aw / _ad - _ae / _ad - 1.0
            _du[1 : self.num_cells - 1] = _ae / _ad
            return core_ad

        ad = assemble(time_step)
"""
_LOOP_OLD = """        while True:
            time += time_step
"""

VARIANTS = [
    Variant("time march stops when g looks flat and a repeated sample is labelled with the final time (seeded C10_i)", "break",
            [(RN, "            if time >= final_time - time_step:\n                break\n",
              "            if time >= final_time - time_step:\n                break\n\n            if len(g) > 2 and g[-1] - g[-2] < 3.0e-5:\n                g.append(g[-1])\n                g_bhw.append(g_bhw[-1])\n                lntts.append(log((final_time - time_step) / self.t_s))\n                break\n")], "R10.10"),
    Variant("number of steps remembered when the march ends", "benign",
            [(RN, "            if time >= final_time - time_step:\n                break\n", "            if time >= final_time - time_step:\n                self.n_steps = len(g)\n                break\n")]),
    Variant("slim annulus: the grout cell count is reduced after the cell thickness was computed (seeded C10_g)", "break",
            [(RN, "        # other\n        self.init_temp = 20\n", "        if self.thickness_grout_cell < 1.0e-3:\n            self.num_grout_cells = max(4, int((self.r_borehole - self.r_out_tube) / 1.0e-3))\n            self.num_cells = sum((self.num_fluid_cells, self.num_conv_cells, self.num_pipe_cells, self.num_grout_cells, self.num_soil_cells))\n            self.bh_wall_idx = sum((self.num_fluid_cells, self.num_conv_cells, self.num_pipe_cells, self.num_grout_cells))\n        # other\n        self.init_temp = 20\n")], "R10.1"),
    Variant("slim annulus: the grout cell count is reduced and the cell thickness recomputed", "benign",
            [(RN, "        # other\n        self.init_temp = 20\n", "        if self.thickness_grout_cell < 1.0e-3:\n            self.num_grout_cells = max(4, int((self.r_borehole - self.r_out_tube) / 1.0e-3))\n            self.thickness_grout_cell = (self.r_borehole - self.r_out_tube) / self.num_grout_cells\n            self.num_cells = sum((self.num_fluid_cells, self.num_conv_cells, self.num_pipe_cells, self.num_grout_cells, self.num_soil_cells))\n            self.bh_wall_idx = sum((self.num_fluid_cells, self.num_conv_cells, self.num_pipe_cells, self.num_grout_cells))\n        # other\n        self.init_temp = 20\n")]),
    Variant("partial_init refreshes the borehole radius and the soil cells but not the grout cells (seeded C10_e)", "break", [(RN, "        self.calc_time_in_sec = max([self.t_s * exp(-8.6), 49.0 * SEC_IN_HR])\n\n    def fill_radial_cells", "        self.calc_time_in_sec = max([self.t_s * exp(-8.6), 49.0 * SEC_IN_HR])\n        self.r_borehole = single_u_tube.b.r_b\n        self.thickness_soil_cell = (self.r_far_field - self.r_borehole) / self.num_soil_cells\n\n    def fill_radial_cells")], "R10.9"),
    Variant("partial_init refreshes the borehole radius and both regions that touch it", "benign", [(RN, "        self.calc_time_in_sec = max([self.t_s * exp(-8.6), 49.0 * SEC_IN_HR])\n\n    def fill_radial_cells", "        self.calc_time_in_sec = max([self.t_s * exp(-8.6), 49.0 * SEC_IN_HR])\n        self.r_borehole = single_u_tube.b.r_b\n        self.thickness_soil_cell = (self.r_far_field - self.r_borehole) / self.num_soil_cells\n        self.thickness_grout_cell = (self.r_borehole - self.r_out_tube) / self.num_grout_cells\n\n    def fill_radial_cells")]),
    Variant("partial_init recomputes the cell thicknesses before it refreshes the radius they depend on", "break", [(RN, "        self.calc_time_in_sec = max([self.t_s * exp(-8.6), 49.0 * SEC_IN_HR])\n\n    def fill_radial_cells", "        self.calc_time_in_sec = max([self.t_s * exp(-8.6), 49.0 * SEC_IN_HR])\n        self.thickness_soil_cell = (self.r_far_field - self.r_borehole) / self.num_soil_cells\n        self.thickness_grout_cell = (self.r_borehole - self.r_out_tube) / self.num_grout_cells\n        self.r_borehole = single_u_tube.b.r_b\n\n    def fill_radial_cells")], "R10.9"),
    Variant("partial_init recomputes the soil cell thickness with the grout cell count", "break", [(RN, "        self.calc_time_in_sec = max([self.t_s * exp(-8.6), 49.0 * SEC_IN_HR])\n\n    def fill_radial_cells", "        self.calc_time_in_sec = max([self.t_s * exp(-8.6), 49.0 * SEC_IN_HR])\n        self.r_borehole = single_u_tube.b.r_b\n        self.thickness_soil_cell = (self.r_far_field - self.r_borehole) / self.num_grout_cells\n        self.thickness_grout_cell = (self.r_borehole - self.r_out_tube) / self.num_grout_cells\n\n    def fill_radial_cells")], "R10.9"),
    Variant("time step coarsened after 30 days, matrix rebuilt but the source term keeps the old capacity (seeded C10)", "break",
            [(RN, _ASM_OLD_1, ""), (RN, _ASM_OLD_2, _ASM_NEW_2),
             (RN, _LOOP_OLD, """        while True:
            if time_step < 3600 and time >= 2592000:
                time_step = 3600
                assemble(time_step)
            time += time_step
""")], "R10.5"),
    Variant("time step coarsened after 30 days, matrix and source term rebuilt", "benign",
            [(RN, _ASM_OLD_1, ""), (RN, _ASM_OLD_2, _ASM_NEW_2),
             (RN, _LOOP_OLD, """        while True:
            if time_step < 3600 and time >= 2592000:
                time_step = 3600
                ad = assemble(time_step)
            time += time_step
""")]),
    Variant("grout region starts at r_in_tube (overlaps the pipe region)", "break",
            [(RN, "            inner_radius_grout_cell = self.r_out_tube + j * self.thickness_grout_cell", "            inner_radius_grout_cell = self.r_in_tube + j * self.thickness_grout_cell")], "R10.1"),
    Variant("factor 2 (two legs) dropped from the fluid thermal mass", "break",
            [(RN, "        rho_cp_eq_fluid = 2.0 * (self.single_u_tube.pipe.r_in**2) * self.single_u_tube.fluid.rhoCp", "        rho_cp_eq_fluid = (self.single_u_tube.pipe.r_in**2) * self.single_u_tube.fluid.rhoCp")], "R10.2"),
    Variant("west conductance built from the centre cell's outer half", "break", [(RN, "        fill_f1(_fw_1, _west_cell)", "        fill_f1(_fw_1, _center_cell)")], "R10.4"),
    Variant("diagonal without the -1", "break", [(RN, "        _d[1 : self.num_cells - 1] = _aw / _ad - _ae / _ad - 1.0", "        _d[1 : self.num_cells - 1] = _aw / _ad - _ae / _ad")], "R10.5"),
    Variant("g without the borehole resistance", "break",
            [(RN, "            g.append(self.c_0 * ((radial_cells[CellProps.TEMP, 0] - init_temp) / heat_flux - resist_bh_effective))", "            g.append(self.c_0 * ((radial_cells[CellProps.TEMP, 0] - init_temp) / heat_flux))")], "R10.6"),
    Variant("conductivity and rho_cp swapped in the cell record", "break",
            [(RN, "                [inner_radius, center_radius, outer_radius, conductivity, rho_cp, self.init_temp, volume],", "                [inner_radius, center_radius, outer_radius, rho_cp, conductivity, self.init_temp, volume],")], "R10.7"),
    Variant("wall index one cell too early", "break",
            [(RN, "        self.bh_wall_idx = sum((self.num_fluid_cells, self.num_conv_cells, self.num_pipe_cells, self.num_grout_cells))", "        self.bh_wall_idx = sum((self.num_fluid_cells, self.num_conv_cells, self.num_pipe_cells, self.num_grout_cells)) - 1")], "R10.1"),
    Variant("pipe+grout resistance not reduced by the fluid resistance", "break", [(RN, "        resist_pg_effective = resist_bh_effective - resist_f_effective", "        resist_pg_effective = resist_bh_effective")], "R10.3"),
    Variant("east window shifted by one too few", "break", [(RN, "        _east_cell = radial_cells[:, 2 : self.num_cells - 0]", "        _east_cell = radial_cells[:, 1 : self.num_cells - 1]")], "R10.4"),
    Variant("cell volume uses the diameter", "break", [(RN, "            volume = pi * (outer_radius**2 - inner_radius**2)", "            volume = pi * (outer_radius**2 - inner_radius**2) * 4.0")], "R10.7"),
    Variant("sub-diagonal stored one row late", "break", [(RN, "        _dl[0 : self.num_cells - 2] = -_aw / _ad", "        _dl[1 : self.num_cells - 1] = -_aw / _ad")], "R10.5"),
    Variant("t_s uses 4 alpha instead of 9 alpha", "break", [(RN, "        self.t_s = single_u_tube.b.H**2 / (9 * soil_diffusivity)\n        self.calc_time_in_sec = max([self.t_s * exp(-8.6), 49.0 * SEC_IN_HR])\n\n    def fill_radial_cells", "        self.t_s = single_u_tube.b.H**2 / (4 * soil_diffusivity)\n        self.calc_time_in_sec = max([self.t_s * exp(-8.6), 49.0 * SEC_IN_HR])\n\n    def fill_radial_cells")], "R10.6"),
    Variant("wall curve published from the fluid curve", "break", [(RN, "        g_bhw_tmp = interp1d(lntts, g_bhw)", "        g_bhw_tmp = interp1d(lntts, g)")], "R10.8"),
    Variant("loop variable renamed in the soil region", "benign",
            [(RN, "        for j, idx in enumerate(range(cell_summation, self.num_soil_cells + cell_summation)):\n            inner_radius_soil_cell = self.r_borehole + j * self.thickness_soil_cell\n            radial_cells[:, idx] = fill_single_cell(",
              "        for m, col in enumerate(range(cell_summation, self.num_soil_cells + cell_summation)):\n            inner_radius_soil_cell = self.r_borehole + self.thickness_soil_cell * m\n            radial_cells[:, col] = fill_single_cell(")]),
    Variant("1 / (a + b) through a temporary", "benign", [(RN, "        _ae[:] = 1.0 / (_fe_1 + _fe_2)", "        _series_e = _fe_1 + _fe_2\n        _ae[:] = 1.0 / _series_e")]),
]
