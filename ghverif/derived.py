"""Stale derived state: attributes a constructor computes FROM other attributes (or from a parameter it also stores as an
attribute) must be recomputed by every method that re-assigns the source - otherwise the object carries values that no
longer belong together.

stale_derived(prog, class) works on what is written down directly:  self.X = <expression reading self.Y or the parameter
stored as self.Y>.  Values that travel through constructor locals are not followed (they are mostly 'first value' set-ups
that the methods replace on purpose)."""
from __future__ import annotations

import ast
from typing import Dict, List, Set, Tuple

from .model import Program, attr_chain, walk_no_nested


def _self_attr(n) -> str | None:
    c = attr_chain(n)
    return c if c and c.startswith("self.") and c.count(".") == 1 else None


def constructor_dependencies(init: ast.FunctionDef) -> Tuple[Dict[str, Tuple[ast.stmt, Set[str]]], Dict[str, str]]:
    """-> ({attribute: (statement, attributes it is computed from)}, {parameter: attribute it is stored under})"""
    params = {a.arg for a in init.args.args + init.args.kwonlyargs} - {"self"}
    rebound = {x.id for x in walk_no_nested(init) if isinstance(x, ast.Name) and isinstance(x.ctx, ast.Store)}
    alias: Dict[str, str] = {}
    for s_ in walk_no_nested(init):
        if isinstance(s_, ast.Assign) and len(s_.targets) == 1 and _self_attr(s_.targets[0]) and isinstance(s_.value, ast.Name) and s_.value.id in params and s_.value.id not in rebound:
            alias.setdefault(s_.value.id, _self_attr(s_.targets[0]))
    defs: Dict[str, Tuple[ast.stmt, Set[str]]] = {}
    for s_ in walk_no_nested(init):
        if isinstance(s_, ast.Assign) and len(s_.targets) == 1 and _self_attr(s_.targets[0]):
            x = _self_attr(s_.targets[0])
            if isinstance(s_.value, ast.Name):
                continue  # a plain store of a parameter / local is not a derivation
            reads = {_self_attr(a) for a in ast.walk(s_.value) if isinstance(a, ast.Attribute) and _self_attr(a)}
            reads |= {alias[a.id] for a in ast.walk(s_.value) if isinstance(a, ast.Name) and a.id in alias}
            reads.discard(x)
            reads.discard(None)
            if reads:
                defs[x] = (s_, reads)
    return defs, alias


def derived_closure(defs) -> Dict[str, Set[str]]:
    out: Dict[str, Set[str]] = {}
    sources = {y for _, (_, reads) in defs.items() for y in reads}
    for y in sources:
        acc, work = set(), [y]
        while work:
            cur = work.pop()
            for x, (_, reads) in defs.items():
                if cur in reads and x not in acc:
                    acc.add(x)
                    work.append(x)
        out[y] = acc
    return out


def method_writes(prog: Program, cq: str, m, _seen=()) -> List[Tuple[str, ast.AST]]:
    """[(attribute, statement)] the method assigns, in textual order; calls of the object's own methods are expanded"""
    out = []
    for s_ in walk_no_nested(m.node):
        if isinstance(s_, (ast.Assign, ast.AugAssign)):
            for t in (s_.targets if isinstance(s_, ast.Assign) else [s_.target]):
                for tt in (t.elts if isinstance(t, (ast.Tuple, ast.List)) else [t]):
                    c = _self_attr(tt)
                    if c:
                        out.append((c, s_))
        elif isinstance(s_, ast.Call) and isinstance(s_.func, ast.Attribute) and attr_chain(s_.func.value) == "self" and s_.func.attr not in _seen and s_.func.attr != "__init__":
            callee = prog.method(cq, s_.func.attr)
            if callee is not None and callee is not m:
                out.extend((c, s_) for c, _ in method_writes(prog, cq, callee, _seen + (m.name,)))
    out.sort(key=lambda cs: (cs[1].lineno, cs[1].col_offset))
    return out


def stale_derived(prog: Program, cq: str):
    """-> (links, [(class of the method, method, statement, source attribute, derived attribute, how, constructor statement)])
    over the methods of the class and of its subclasses (constructors excluded: they call the base constructor)"""
    init = prog.method(cq, "__init__")
    if init is None:
        return 0, []
    defs, _ = constructor_dependencies(init.node)
    derived = derived_closure(defs)
    n_links = sum(len(v) for v in derived.values())
    bad = []
    classes = [prog.cls(cq)] + prog.subclasses(cq)
    for c in classes:
        for mname, m in sorted(c.methods.items()):
            if mname == "__init__":
                continue
            ws = method_writes(prog, c.qualname, m)
            first, last = {}, {}
            for k, (a, _) in enumerate(ws):
                first.setdefault(a, k)
                last[a] = k
            for y in sorted({a for a, _ in ws}):
                for x in sorted(derived.get(y, ())):
                    st_ = next(s_ for a, s_ in ws if a == y)
                    if x not in first:
                        bad.append((c, m, st_, y, x, "is left as it was", defs[x][0]))
                    elif last[x] < first[y]:
                        bad.append((c, m, st_, y, x, "is recomputed before it, from the old value", defs[x][0]))
    return n_links, bad
