"""Chain of custody of a container value: where does the value an expression denotes come from, and is it still the
same sequence of elements?

root_of(fn, expr) follows an expression back through
  * plain locals (every binding of the local must lead to the same root),
  * value-preserving wrappers  list(x) tuple(x) x.copy() copy.copy(x) copy.deepcopy(x) np.array(x) np.asarray(x),
  * identity comprehensions  [(a, b) for a, b in X]  [tuple(t) for t in X]  [t for t in X]
and answers
  ('param', name)          the value of a parameter of fn, unchanged
  ('chain', 'self.a.b')    an attribute chain read
  ('elem', 'p[i]')         one element picked from a parameter / attribute chain (a field out of a domain)
  ('call', Call node)      the result of some other call
  ('broken', node, why)    provably a different sequence: elements computed, filtered, sliced, reordered, or the local is
                           mutated in place on the way
  ('unknown', node, why)   none of the above (callers fail closed)
"""
from __future__ import annotations

import ast
from typing import Tuple

from .model import MUTATORS, attr_chain, walk_no_nested

PRESERVING_CALLS = {"list", "tuple", "copy.copy", "copy.deepcopy", "deepcopy", "np.array", "np.asarray", "numpy.array", "numpy.asarray"}
REORDERING_CALLS = {"filter", "map", "zip", "enumerate"}  # a different kind of sequence altogether
PERMUTING_CALLS = {"sorted", "reversed", "set", "frozenset"}  # same elements, possibly another order / multiplicity: not decided here


def _params(fn: ast.FunctionDef):
    a = fn.args
    return [x.arg for x in a.posonlyargs + a.args + a.kwonlyargs]


def _bindings(fn: ast.AST, name: str):
    """[(value or None, position or None, stmt)] - None value = a binding this module does not follow (loop target, with, aug-assign)"""
    out = []
    for s in walk_no_nested(fn):
        if isinstance(s, ast.Assign):
            for t in s.targets:
                if isinstance(t, ast.Name) and t.id == name:
                    out.append((s.value, None, s))
                elif isinstance(t, (ast.Tuple, ast.List)):
                    for k, e in enumerate(t.elts):
                        if isinstance(e, ast.Name) and e.id == name:
                            out.append((s.value, k, s))
                        elif any(isinstance(x, ast.Name) and x.id == name for x in ast.walk(e)):
                            out.append((None, None, s))
        elif isinstance(s, (ast.AugAssign, ast.AnnAssign)) and isinstance(s.target, ast.Name) and s.target.id == name:
            out.append((None, None, s))
        elif isinstance(s, ast.For) and any(isinstance(x, ast.Name) and x.id == name for x in ast.walk(s.target)):
            out.append((None, None, s))
        elif isinstance(s, ast.withitem) and s.optional_vars is not None and any(isinstance(x, ast.Name) and x.id == name for x in ast.walk(s.optional_vars)):
            out.append((None, None, s))
        elif isinstance(s, ast.NamedExpr) and s.target.id == name:
            out.append((s.value, None, s))
    return out


def in_place_mutation(fn: ast.AST, name: str):
    """first statement of fn that mutates the container bound to the plain name in place, or None"""
    for n in walk_no_nested(fn):
        if isinstance(n, ast.Call) and isinstance(n.func, ast.Attribute) and n.func.attr in MUTATORS and isinstance(n.func.value, ast.Name) and n.func.value.id == name:
            return n
        if isinstance(n, (ast.Subscript,)) and isinstance(n.ctx, (ast.Store, ast.Del)) and isinstance(n.value, ast.Name) and n.value.id == name:
            return n
        if isinstance(n, ast.AugAssign) and isinstance(n.target, ast.Name) and n.target.id == name:
            return n
    return None


def _identity_elt(target: ast.expr, elt: ast.expr) -> bool:
    """is `elt` the loop element itself (possibly re-tupled)?"""
    if isinstance(elt, ast.Call) and attr_chain(elt.func) in ("tuple", "list") and len(elt.args) == 1 and not elt.keywords:
        return _identity_elt(target, elt.args[0])
    if isinstance(target, ast.Name):
        if isinstance(elt, ast.Name):
            return elt.id == target.id
        if isinstance(elt, (ast.Tuple, ast.List)) and elt.elts:
            # (t[0], t[1], ...)
            return all(isinstance(e, ast.Subscript) and isinstance(e.value, ast.Name) and e.value.id == target.id and isinstance(e.slice, ast.Constant) and e.slice.value == k
                       for k, e in enumerate(elt.elts))
        return False
    if isinstance(target, (ast.Tuple, ast.List)) and isinstance(elt, (ast.Tuple, ast.List)):
        return len(target.elts) == len(elt.elts) and all(isinstance(a, ast.Name) and isinstance(b, ast.Name) and a.id == b.id for a, b in zip(target.elts, elt.elts))
    return False


def _memo_binding(fn: ast.FunctionDef, name: str, binds, roots):
    """`x = self.S.get(key)` (or self.S[key]) next to `x = compute(..)` and a store `self.S[key] = x`: x is either computed now or
    the object computed by an EARLIER call under an equal key.  That is the value computed now only if the key carries, faithfully
    (ghverif/memo.py), every parameter the computation uses; otherwise the object belongs to another call's arguments."""
    from .memo import _faithful_names, _param_deps

    fetched, computed = [], []
    for (v, pos, stmt), r in zip(binds, roots):
        store = None
        if isinstance(v, ast.Call) and isinstance(v.func, ast.Attribute) and v.func.attr == "get" and v.args and attr_chain(v.func.value):
            store, key = attr_chain(v.func.value), v.args[0]
        elif isinstance(v, ast.Subscript) and attr_chain(v.value) and isinstance(v.ctx, ast.Load):
            store, key = attr_chain(v.value), v.slice
        if store is not None and store.startswith("self."):
            fetched.append((store, key, stmt))
        else:
            computed.append((v, r, stmt))
    if len(fetched) != 1 or len(computed) != 1:
        return None
    store, key, fstmt = fetched[0]
    filled = any(isinstance(a, ast.Assign) and any(isinstance(t, ast.Subscript) and attr_chain(t.value) == store for t in a.targets) and isinstance(a.value, ast.Name) and a.value.id == name
                 for a in walk_no_nested(fn))
    if not filled:
        return None
    deps = _param_deps(fn, faithful=True)
    params = set(_params(fn))
    carried = set()
    for n_ in _faithful_names(key):
        carried |= deps.get(n_, {n_} if n_ in params else set())
    v, r, cstmt = computed[0]
    used = set()
    loose = _param_deps(fn, faithful=False)
    for x in ast.walk(v):
        if isinstance(x, ast.Name) and isinstance(x.ctx, ast.Load):
            used |= (loose.get(x.id, set()) | ({x.id} if x.id in params else set()))
    missing = sorted(p_ for p_ in used if p_ not in carried and p_ not in ("self", "cls"))
    if missing:
        return ("broken", fstmt, f"'{name}' may be the object {store} keeps from an earlier call: the key {ast.unparse(key)[:40]} does not carry {missing} faithfully, so it can belong to other arguments")
    return r


def root_of(fn: ast.FunctionDef, expr: ast.expr, depth: int = 8, _seen=None) -> Tuple:
    if depth <= 0:
        return ("unknown", expr, "definition chain too deep")
    _seen = _seen or set()
    if isinstance(expr, ast.Name):
        binds = _bindings(fn, expr.id)
        mut = in_place_mutation(fn, expr.id)
        if mut is not None:
            return ("broken", mut, f"'{expr.id}' is modified in place")
        if not binds:
            if expr.id in _params(fn):
                return ("param", expr.id)
            return ("unknown", expr, f"'{expr.id}' has no binding in the function")
        if expr.id in _seen:
            if expr.id in _params(fn):
                return ("param", expr.id)  # inside a rebinding of the parameter: the value it had on entry
            return ("unknown", expr, f"'{expr.id}' is defined through itself")
        roots = []
        for v, pos, stmt in binds:
            if v is None:
                return ("unknown", stmt, f"'{expr.id}' is bound by a statement that is not a plain assignment")
            if pos is not None:
                if isinstance(v, (ast.Tuple, ast.List)) and pos < len(v.elts):
                    v = v.elts[pos]
                else:
                    return ("unknown", stmt, f"'{expr.id}' is unpacked from {ast.unparse(v)[:60]}")
            roots.append(root_of(fn, v, depth - 1, _seen | {expr.id}))
        bad = next((r for r in roots if r[0] == "broken"), None)
        if bad:
            return bad
        unk = next((r for r in roots if r[0] == "unknown"), None)
        if unk:
            return unk
        keys = {(r[0], r[1] if r[0] != "call" else ast.unparse(r[1])) for r in roots}
        if expr.id in _params(fn):
            # a rebound parameter: on any path the value is the one on entry or one of the rebindings
            if keys == {("param", expr.id)}:
                return ("param", expr.id)
            return ("unknown", binds[0][2], f"parameter '{expr.id}' is rebound to something else")
        if len(keys) == 1:
            return roots[0]
        memo = _memo_binding(fn, expr.id, binds, roots)
        if memo is not None:
            return memo
        return ("unknown", binds[0][2], f"'{expr.id}' has bindings with different origins")
    if isinstance(expr, ast.Attribute):
        ch = attr_chain(expr)
        if ch is not None:
            head, _, rest = ch.partition(".")
            if head not in _params(fn) and _bindings(fn, head):
                # a local standing for an object: follow it, then read the attribute path off its origin
                b = root_of(fn, ast.Name(id=head, ctx=ast.Load()), depth - 1, _seen)
                if b[0] in ("param", "chain"):
                    return ("chain", f"{b[1]}.{rest}")
                return b if b[0] in ("broken", "unknown") else ("unknown", expr, f"attribute of {b[0]}")
            return ("chain", ch)
        return ("unknown", expr, "attribute of a computed object")
    if isinstance(expr, ast.Call):
        cn = attr_chain(expr.func)
        if cn in PRESERVING_CALLS and len(expr.args) >= 1 and not any(isinstance(a, ast.Starred) for a in expr.args):
            return root_of(fn, expr.args[0], depth - 1, _seen)
        if isinstance(expr.func, ast.Attribute) and expr.func.attr == "copy" and not expr.args:
            return root_of(fn, expr.func.value, depth - 1, _seen)
        if cn in REORDERING_CALLS:
            return ("broken", expr, f"{cn}(...) builds a different sequence")
        if cn in PERMUTING_CALLS:
            return ("unknown", expr, f"{cn}(...) may reorder or merge the elements - whether that matters is not decided statically")
        return ("call", expr)
    if isinstance(expr, (ast.ListComp, ast.GeneratorExp)):
        if len(expr.generators) != 1:
            return ("broken", expr, "nested comprehension builds a different sequence")
        g = expr.generators[0]
        if g.ifs:
            return ("broken", expr, "the comprehension filters its source")
        if _identity_elt(g.target, expr.elt):
            return root_of(fn, g.iter, depth - 1, _seen)
        return ("broken", expr, f"each element is computed ({ast.unparse(expr.elt)[:60]}) instead of taken over")
    if isinstance(expr, ast.Subscript):
        if isinstance(expr.slice, ast.Slice):
            s = expr.slice
            if s.lower is None and s.upper is None and s.step is None:
                return root_of(fn, expr.value, depth - 1, _seen)
            return ("broken", expr, "a slice drops or reorders elements")
        b = root_of(fn, expr.value, depth - 1, _seen)
        if b[0] in ("param", "chain", "elem"):
            return ("elem", f"{b[1]}[{ast.unparse(expr.slice)}]")
        if b[0] == "call":
            return ("elem", f"{ast.unparse(b[1])[:40]}[{ast.unparse(expr.slice)}]")
        return b if b[0] == "broken" else ("unknown", expr, "an element of something not followed")
    if isinstance(expr, ast.BinOp):
        return ("broken", expr, "arithmetic on the container")
    if isinstance(expr, (ast.List, ast.Tuple, ast.Set, ast.Dict, ast.Constant, ast.SetComp, ast.DictComp)):
        return ("broken", expr, "a literal / newly built container")
    if isinstance(expr, ast.IfExp):
        a, b = root_of(fn, expr.body, depth - 1, _seen), root_of(fn, expr.orelse, depth - 1, _seen)
        if a[0] == "broken":
            return a
        if b[0] == "broken":
            return b
        if a[:2] == b[:2] and a[0] in ("param", "chain", "elem"):
            return a
        return ("unknown", expr, "two alternatives with different origins")
    return ("unknown", expr, f"{type(expr).__name__} not followed")


# ---------------------------------------------------------------------------
# walking a value back through the package: attribute <- constructor parameter <- argument at every construction <- ...
# ---------------------------------------------------------------------------
def expand_kwargs(fn, call: ast.Call, target_fi) -> dict:
    """bind_args, with a  **name  argument expanded when `name` is one dict literal with constant keys"""
    from .model import AnalysisError, bind_args

    b = dict(bind_args(target_fi, call))
    for kw in call.keywords:
        if kw.arg is None:
            d = kw.value
            if isinstance(d, ast.Name):
                defs = [s.value for s in walk_no_nested(fn) if isinstance(s, ast.Assign) and len(s.targets) == 1 and isinstance(s.targets[0], ast.Name) and s.targets[0].id == d.id]
                touched = [n for n in walk_no_nested(fn) if isinstance(n, ast.Subscript) and isinstance(n.ctx, ast.Store) and isinstance(n.value, ast.Name) and n.value.id == d.id]
                touched += [n for n in walk_no_nested(fn) if isinstance(n, ast.Call) and isinstance(n.func, ast.Attribute) and n.func.attr in MUTATORS and isinstance(n.func.value, ast.Name) and n.func.value.id == d.id]
                if len(defs) != 1 or touched:
                    raise AnalysisError(f"**{d.id}: the dictionary is not a single literal")
                d = defs[0]
            if not (isinstance(d, ast.Dict) and all(isinstance(k, ast.Constant) and isinstance(k.value, str) for k in d.keys)):
                raise AnalysisError(f"**{ast.unparse(kw.value)[:40]}: keys are not string literals")
            for k, v in zip(d.keys, d.values):
                b[k.value] = v
    return b


def call_sites(prog, tfi):
    """(calling function, Call node, bound arguments) of every call of tfi in the package (by terminal name); for a
    constructor:  Cls(...) of the class and of subclasses inheriting it,  Cls.__init__(self, ...)  and
    super().__init__(...)  of direct subclasses"""
    funcs = list(prog.funcs.values())
    if tfi.name != "__init__":
        for fi in funcs:
            for n in walk_no_nested(fi.node):
                if isinstance(n, ast.Call) and (attr_chain(n.func) or "").split(".")[-1] == tfi.name:
                    yield fi, n, expand_kwargs(fi.node, n, tfi)
        return
    cq = tfi.qualname.rsplit(".", 1)[0]
    names = {tfi.cls} | {c.name for c in prog.subclasses(cq) if prog.method(c.qualname, "__init__") is tfi}
    direct = {c.name for c in prog.subclasses(cq) if "__init__" in c.methods and prog.mro(c.qualname)[1:] and prog.method(prog.mro(c.qualname)[1].qualname, "__init__") is tfi}
    for fi in funcs:
        for n in walk_no_nested(fi.node):
            if not isinstance(n, ast.Call):
                continue
            ch = attr_chain(n.func) or ""
            if ch.split(".")[-1] in names:
                yield fi, n, expand_kwargs(fi.node, n, tfi)
            elif ch.endswith(".__init__") and ch.split(".")[-2] in names and n.args:
                shifted = ast.Call(func=n.func, args=n.args[1:], keywords=n.keywords)
                ast.copy_location(shifted, n)
                yield fi, n, expand_kwargs(fi.node, shifted, tfi)
            elif isinstance(n.func, ast.Attribute) and n.func.attr == "__init__" and isinstance(n.func.value, ast.Call) and attr_chain(n.func.value.func) == "super" and fi.cls in direct and fi.name == "__init__":
                yield fi, n, expand_kwargs(fi.node, n, tfi)


class Walk:
    """backward walk from an attribute of a class to the places its value comes from.
    links    [(description, function, node)]            every hand-over found intact
    broken   [(description, function, node, why)]       hand-overs that change the value
    sources  [(kind, text, function, node)]             where the walk ends: 'api' (a parameter nobody in the package passes),
                                                        'call' / 'elem' (a value made or picked there), 'default', 'none'
    """

    def __init__(self, prog, stop_at=()):
        self.prog = prog
        self.links, self.broken, self.sources = [], [], []
        self._seen = set()
        self.stop_at = set(stop_at)  # qualnames of functions whose parameters are taken as sources

    def _hierarchy(self, cq):
        return {c.qualname for c in self.prog.mro(cq)} | {c.qualname for c in self.prog.subclasses(cq)}

    def from_attr(self, cq: str, attr: str):
        from .model import AnalysisError

        key = ("attr", cq, attr)
        if key in self._seen:
            return
        self._seen.add(key)
        hier = self._hierarchy(cq)
        found = 0
        for fi in self.prog.funcs.values():
            if not fi.cls:
                own = False
            else:
                own = fi.qualname.rsplit(".", 1)[0] in hier
            for n in walk_no_nested(fi.node):
                tgt = None
                if isinstance(n, ast.Assign):
                    for t in n.targets:
                        if isinstance(t, ast.Attribute) and t.attr == attr and isinstance(t.value, ast.Name) and t.value.id == "self" and own:
                            tgt = t
                    if tgt is not None:
                        found += 1
                        self._value(fi, n.value, f"{fi.qualname}: self.{attr}", n)
                elif isinstance(n, ast.AugAssign) and isinstance(n.target, ast.Attribute) and n.target.attr == attr and own and attr_chain(n.target) == f"self.{attr}":
                    found += 1
                    self.broken.append((f"{fi.qualname}: self.{attr}", fi, n, "updated in place"))
                elif isinstance(n, ast.Call) and isinstance(n.func, ast.Attribute) and n.func.attr in MUTATORS and own and attr_chain(n.func.value) == f"self.{attr}":
                    self.broken.append((f"{fi.qualname}: self.{attr}", fi, n, f"modified in place by .{n.func.attr}()"))
                elif isinstance(n, ast.Subscript) and isinstance(n.ctx, (ast.Store, ast.Del)) and own and attr_chain(n.value) == f"self.{attr}":
                    self.broken.append((f"{fi.qualname}: self.{attr}", fi, n, "an element is overwritten"))
        if not found:
            raise AnalysisError(f"no store of self.{attr} in the hierarchy of {cq}")

    def from_param(self, tfi, pname: str):
        from .model import AnalysisError

        key = ("param", tfi.qualname, pname)
        if key in self._seen:
            return
        self._seen.add(key)
        if tfi.qualname in self.stop_at:
            self.sources.append(("api", f"{tfi.qualname}({pname})", tfi, tfi.node))
            return
        sites = list(call_sites(self.prog, tfi))
        if not sites:
            self.sources.append(("api", f"{tfi.qualname}({pname})", tfi, tfi.node))
            return
        tname = tfi.cls if tfi.name == "__init__" else tfi.name
        for fi, n, b in sites:
            if pname not in b:
                if pname in tfi.defaults():
                    self.sources.append(("default", f"{tname}({pname}={ast.unparse(tfi.defaults()[pname])[:30]}) at {fi.qualname}", fi, n))
                    continue
                raise AnalysisError(f"{self.prog.loc(fi, n)}: argument {pname} of {tname}(...) not found")
            self._value(fi, b[pname], f"{fi.qualname}: {pname} of {tname}()", n)

    def _value(self, fi, value, desc, node):
        from .model import AnalysisError

        if isinstance(value, ast.Constant) and value.value is None:
            self.sources.append(("none", desc, fi, node))
            return
        r = root_of(fi.node, value)
        if r[0] == "unknown":
            raise AnalysisError(f"{self.prog.loc(fi, node)}: origin of {ast.unparse(value)[:50]} not understood ({r[2]})")
        if r[0] == "broken":
            self.broken.append((desc, fi, r[1] if hasattr(r[1], "lineno") else node, r[2]))
            return
        if r[0] == "param":
            self.links.append((f"{desc} <- parameter {r[1]}", fi, node))
            self.from_param(fi, r[1])
        elif r[0] == "chain":
            parts = r[1].split(".")
            if parts[0] == "self" and len(parts) == 2 and fi.cls:
                self.links.append((f"{desc} <- {r[1]}", fi, node))
                self.from_attr(fi.qualname.rsplit(".", 1)[0], parts[1])
            else:
                self.sources.append(("chain", r[1], fi, node))
        elif r[0] == "elem":
            self.sources.append(("elem", r[1], fi, node))
        elif r[0] == "call":
            self.sources.append(("call", ast.unparse(r[1])[:60], fi, node))
