from ghedesigner.manager import GHEManager
g=GHEManager()
g.set_single_u_tube_pipe(inner_diameter=0.03404, outer_diameter=0.04216, shank_spacing=0.01856, roughness=1.0e-6, conductivity=0.4, rho_cp=1542000.0)
g.set_soil(conductivity=2.0, rho_cp=2343493.0, undisturbed_temp=18.3); g.set_grout(conductivity=1.0, rho_cp=3901000.0); g.set_fluid()
g.set_borehole(height=96.0, buried_depth=2.0, diameter=0.140)
g.set_simulation_parameters(num_months=12, max_eft=35, min_eft=5, max_height=135, min_height=60, max_boreholes=2)
g.set_ground_loads_from_hourly_list([-1000.0]*8760)
g.set_geometry_constraints_bi_rectangle_constrained(b_min=5, b_max_x=10, b_max_y=10, property_boundary=[[[12,12],[38,12],[38,38],[12,38]]], no_go_boundaries=[])
g.set_design(flow_rate=0.3, flow_type_str="borehole")
print("smallest surviving fields:", [len(f) for f in g._design.coordinates_domain_nested[0][:5]])
try:
    g.find_design()
    print("design", g._search.ghe.nbh)
except Exception as e:
    print("RESULT:", type(e).__name__, e)
