import itertools, math
from ghedesigner.domains import rectangular, bi_rectangle_nested, bi_rectangle_zoned_nested, square_and_near_square
def chk(name, dom, L, W, bmin):
    bad=0; worst=None
    for k,f in enumerate(dom):
        xs=[p[0] for p in f]; ys=[p[1] for p in f]
        out = max(xs)>L+1e-9 or max(ys)>W+1e-9 or min(xs)<-1e-9 or min(ys)<-1e-9
        md=min([math.dist(a,b) for a,b in itertools.combinations(f,2)], default=1e9)
        if out or md<bmin-1e-9:
            bad+=1
            if worst is None: worst=(k,len(f),max(xs),max(ys),md)
    sizes=[len(f) for f in dom]
    mono=all(a<=b for a,b in zip(sizes,sizes[1:]))
    print(name, "L,W=",L,W, "fields",len(dom),"bad",bad,"first bad",worst,"monotone",mono)
for (L,W) in [(85,40),(40,85),(20,200),(200,20),(50,50)]:
    bmin,bmx,bmy=5,10,12
    d,_=rectangular(L,W,bmin,bmx); chk("rect",d,L,W,bmin)
    dn,_=bi_rectangle_nested(L,W,bmin,bmx,bmy)
    for i,d in enumerate(dn): chk(f"birect[{i}]",d,L,W,bmin)
    dn,_=bi_rectangle_zoned_nested(L,W,bmin,bmx,bmy)
    for i,d in enumerate(dn): chk(f"bizoned[{i}]",d,L,W,bmin)
