#!/usr/bin/env python3
"""regenerate MANIFEST.json from the rule modules (run from /verif)"""
import importlib
import json
import os
import sys

sys.path.insert(0, os.path.dirname(os.path.dirname(os.path.abspath(__file__))))
from ghverif.cli import RULES  # noqa: E402

NOT_APPLICABLE = [
    {"property_id": "C14", "reason": "RowWise generation: termination of a floating-point approach loop and real-number geometry (containment, spacing, lattice, translation); no structural necessary condition decidable by static analysis that is more than a sliver of the statement (DESIGN.md section 5)."},
    {"property_id": "C16", "reason": "Exactness of a floating-point point-in-polygon classification for every polygon: a statement about computed values; only an executable or symbolic oracle can decide it (DESIGN.md section 5). Its return-code protocol is checked under C04."},
]

ENGINES = [
    {"name": "E0 program model", "path": "ghverif/model.py", "kind_free_text": "ast-based symbol index, MRO, name/call resolution over {module: source}", "serves_properties": sorted(RULES)},
    {"name": "E1 path enumeration", "path": "ghverif/paths.py", "kind_free_text": "structured path enumeration with substitution environment, sign-domain assumptions, infeasible-path pruning, backward slicing", "serves_properties": ["C01", "C02", "C03", "C05", "C06", "C07", "C08", "C11", "C12", "C13", "C18", "C20"]},
    {"name": "E2 rational normal forms", "path": "ghverif/sym.py", "kind_free_text": "quotients of multivariate polynomials over atoms, structured atoms (log/sqrt/DOT/array elements with offsets), equality by cross-multiplication", "serves_properties": ["C01", "C06", "C07", "C08", "C09", "C10", "C11", "C12", "C15", "C20"]},
]


def main():
    here = os.path.dirname(os.path.dirname(os.path.abspath(__file__)))
    checks = []
    built = []
    for prop, modname in sorted(RULES.items()):
        try:
            mod = importlib.import_module(f"ghverif.rules.{modname}")
        except ModuleNotFoundError:
            continue
        built.append(prop)
        doc = " ".join((mod.__doc__ or "").split())
        checks.append({
            "property_id": prop,
            "quick_cmd": f"./check {prop} --tier quick",
            "thorough_cmd": f"./check {prop} --tier thorough",
            "evidence_file": f"/verif/evidence/{prop}.json",
            "replay_cmd_template": f"./check {prop} --replay {{path}}",
            "engine": "ghverif (E0 program model, E1 path enumeration, E2 normal forms)",
            "level_claimed": {
                "category": "other",
                "text": getattr(mod, "LEVEL_TEXT", None) or (
                    "Static analysis of /repo's current sources (nothing is imported or executed). Structural / algebraic "
                    "obligations that are necessary conditions of the property are discharged on every path / construct; "
                    "clauses that quantify over runtime values are explicitly not decided. " + doc),
                "design_ref": f"DESIGN.md section 4, {prop}",
            },
            "level_note": getattr(mod, "LEVEL_NOTE", None) or ("Trusted: CPython's ast; frozen slot tables in the rule module; library contracts named in the evidence assumptions: " + "; ".join(getattr(mod, "ASSUMPTIONS", []))),
            "technique": getattr(mod, "TECHNIQUE", "static analysis: path-sensitive AST dataflow + rational normal forms (custom checker)"),
        })
    na = list(NOT_APPLICABLE)
    for prop in sorted(RULES):
        if prop not in built:
            na.append({"property_id": prop, "reason": "checker not built yet in this session (planned, see DESIGN.md section 4); not claimed until it is"})
    for e in ENGINES:
        e["serves_properties"] = [p for p in e["serves_properties"] if p in built]
    man = {
        "version": 1,
        "setup_cmd": "true",
        "hooks": {
            "guard": "BETSRG_GHEDESIGNER_VERIF",
            "enable": "no hooks: the analysers only parse /repo's sources; nothing in /repo is instrumented",
            "baseline_off_cmd": "cd /repo && /venv/bin/python -m pytest -ra -q -p no:cacheprovider --timeout=900 --continue-on-collection-errors",
            "source_commits": [],
            "add_only": True,
        },
        "engines": ENGINES,
        "checks": checks,
        "notes": "All checks are static: ./check <id> parses /repo/ghedesigner (and the installed click for C18) on every run. "
                 "Exit 0 holds / 1 VIOLATION / 2 ANALYSIS-ERROR (fail closed). thorough = quick rules with wider bounds + "
                 "in-memory self-validation (seeded breaks must be reported, benign rewrites must stay silent).",
        "not_applicable": sorted(na, key=lambda x: x["property_id"]),
    }
    with open(os.path.join(here, "MANIFEST.json"), "w") as f:
        json.dump(man, f, indent=1)
    print("checks:", [c["property_id"] for c in checks])
    print("not_applicable:", [n["property_id"] for n in man["not_applicable"]])


if __name__ == "__main__":
    main()
