#!/venv/bin/python
"""prints the table of DESIGN 10.6: per property the number of break / benign / repair variants of its rule module plus the generic
package-wide rewrites, and the obligations of the last evidence file"""
import importlib, json, os, sys
sys.path.insert(0, os.path.dirname(os.path.dirname(os.path.abspath(__file__))))
from ghverif import selftest

props = ["C01", "C02", "C03", "C04", "C05", "C06", "C07", "C08", "C09", "C10", "C11", "C12", "C13", "C15", "C17", "C18", "C19", "C20"]
generic = len(selftest.generic_variants()) if hasattr(selftest, "generic_variants") else None
rows = []
tb = tn = tr = 0
for p in props:
    m = importlib.import_module(f"ghverif.rules.{p.lower()}")
    vs = getattr(m, "VARIANTS", [])
    b = sum(1 for v in vs if v.kind == "break")
    n = sum(1 for v in vs if v.kind == "benign")
    r = sum(1 for v in vs if v.kind == "repair")
    ev = json.load(open(os.path.join(os.path.dirname(__file__), "..", "evidence", f"{p}.json")))
    ob = ev["coverage"].get("obligations")
    rows.append((p, b, n, r, ob))
    tb, tn, tr = tb + b, tn + n, tr + r
half = (len(rows) + 1) // 2
print("| prop | breaks | benign (own) | repair | obligations on the tree | | prop | breaks | benign (own) | repair | obligations on the tree |")
print("|---|---|---|---|---|---|---|---|---|---|---|")
for a, b in zip(rows[:half], rows[half:]):
    print("| " + " | ".join(str(x) for x in a) + " | | " + " | ".join(str(x) for x in b) + " |")
print(f"\ntotals: {tb} breaks, {tn} own benign variants, {tr} repairs; generic rewrites per check: {generic}")
