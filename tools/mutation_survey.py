"""research tool (not a check): generate small syntactic mutants of the functions the checks analyse and report which
mutants no check notices.  Survivors are either equivalent / irrelevant to the properties, or blind spots worth a rule.
usage: /venv/bin/python tools/mutation_survey.py [--props C06,C07] [--func substring] [--jobs 16] [--out file.json]"""
import argparse
import ast
import copy
import json
import sys
from multiprocessing import get_context

sys.path.insert(0, "/verif")
from ghverif.cli import RULES, run_check  # noqa: E402
from ghverif.model import AnalysisError, Program, load_sources  # noqa: E402

SWAP_PAIRS = [("_cl", "_hl"), ("_x", "_y"), ("x_", "y_"), ("min", "max"), ("lower", "upper"), ("_in", "_out"), ("_1", "_2"), ("rejection", "extraction"),
              ("first", "last"), ("start", "end"), ("cooling", "heating"), ("_pk", "_nm"), ("west", "east"), ("_l_", "_r_"), ("inner", "outer")]


def swap_name(n: str):
    for a, b in SWAP_PAIRS:
        if a in n:
            return n.replace(a, b, 1)
        if b in n:
            return n.replace(b, a, 1)
    return None


def mutants_of(fn: ast.FunctionDef):
    """yield (description, mutated copy of fn)"""
    nodes = [n for n in ast.walk(fn)]
    locals_ = {x.id for x in nodes if isinstance(x, ast.Name)} | {a.arg for a in fn.args.args}
    attrs_ = {x.attr for x in nodes if isinstance(x, ast.Attribute)}
    for k, n in enumerate(nodes):
        def mk(desc, edit):
            c = copy.deepcopy(fn)
            target = [m for m in ast.walk(c)][k]
            if edit(target) is False:
                return None
            ast.fix_missing_locations(c)
            return (f"L{getattr(n, 'lineno', '?')}: {desc}", c)

        if isinstance(n, ast.BinOp):
            rep = {ast.Add: ast.Sub, ast.Sub: ast.Add, ast.Mult: ast.Div, ast.Div: ast.Mult}.get(type(n.op))
            if rep is not None and not (isinstance(n.left, (ast.List, ast.Constant)) and isinstance(n.left.value if isinstance(n.left, ast.Constant) else None, str)):
                yield mk(f"{type(n.op).__name__} -> {rep.__name__} in '{ast.unparse(n)[:50]}'", lambda t, rep=rep: setattr(t, "op", rep()))
        if isinstance(n, ast.Compare) and len(n.ops) == 1:
            rep = {ast.Lt: ast.LtE, ast.LtE: ast.Lt, ast.Gt: ast.GtE, ast.GtE: ast.Gt, ast.Eq: ast.NotEq, ast.NotEq: ast.Eq}.get(type(n.ops[0]))
            if rep is not None:
                yield mk(f"{type(n.ops[0]).__name__} -> {rep.__name__} in '{ast.unparse(n)[:50]}'", lambda t, rep=rep: setattr(t, "ops", [rep()]))
        if isinstance(n, ast.Constant) and isinstance(n.value, (int, float)) and not isinstance(n.value, bool):
            v = n.value
            for nv in ({v + 1, v - 1} if isinstance(v, int) else ({v * 2.0} if v != 0 else {1.0})):
                yield mk(f"constant {v!r} -> {nv!r}", lambda t, nv=nv: setattr(t, "value", nv))
        if isinstance(n, ast.Name) and isinstance(n.ctx, ast.Load):
            o = swap_name(n.id)
            if o and o in locals_:
                yield mk(f"name {n.id} -> {o}", lambda t, o=o: setattr(t, "id", o))
        if isinstance(n, ast.Attribute) and isinstance(n.ctx, ast.Load):
            o = swap_name(n.attr)
            if o and o in attrs_:
                yield mk(f"attribute .{n.attr} -> .{o}", lambda t, o=o: setattr(t, "attr", o))
        if isinstance(n, ast.If):
            yield mk(f"negate test '{ast.unparse(n.test)[:50]}'", lambda t: setattr(t, "test", ast.UnaryOp(op=ast.Not(), operand=t.test)))
        if isinstance(n, ast.Subscript) and isinstance(n.ctx, ast.Load) and not isinstance(n.slice, (ast.Slice, ast.Tuple, ast.Constant)):
            yield mk(f"index + 1 in '{ast.unparse(n)[:50]}'", lambda t: setattr(t, "slice", ast.BinOp(left=t.slice, op=ast.Add(), right=ast.Constant(value=1))))
    # statement deletion (simple statements only)
    for parent in nodes:
        for fld in ("body", "orelse"):
            blk = getattr(parent, fld, None)
            if not isinstance(blk, list) or isinstance(parent, ast.ClassDef):
                continue
            for i, s_ in enumerate(blk):
                if isinstance(s_, (ast.Assign, ast.AugAssign)) or (isinstance(s_, ast.Expr) and isinstance(s_.value, ast.Call) and not (isinstance(s_.value.func, ast.Name) and s_.value.func.id == "print")):
                    if len(blk) == 1:
                        continue
                    kpar = nodes.index(parent)

                    def dele(t, fld=fld, i=i):
                        getattr(t, fld).pop(i)

                    c = copy.deepcopy(fn)
                    dele([m for m in ast.walk(c)][kpar])
                    yield (f"L{s_.lineno}: delete '{ast.unparse(s_)[:60]}'", c)


def _job(job):
    mod, qual, desc, new_src, props, base = job
    src = dict(SOURCES)
    src[mod] = new_src
    noticed = []
    for p in props:
        try:
            _, r = run_check(p, src, "quick")
            keys = {f.key for f in r.findings}
            if keys - set(base[p]) or r.floor_failures():
                noticed.append(p + ":violation")
        except AnalysisError:
            noticed.append(p + ":analysis-error")
        except Exception as e:  # noqa: BLE001
            noticed.append(p + f":crash:{type(e).__name__}")
    return (qual, desc, noticed)


SOURCES = {}


def main():
    global SOURCES
    ap = argparse.ArgumentParser()
    ap.add_argument("--props", default=",".join(RULES))
    ap.add_argument("--func", default="")
    ap.add_argument("--jobs", type=int, default=16)
    ap.add_argument("--out", default="/tmp/mutation_survey.json")
    ap.add_argument("--max-per-func", type=int, default=400)
    ap.add_argument("--all-checks", action="store_true", help="run every selected check on every mutant (not only those that list the function as analysed)")
    a = ap.parse_args()
    props = a.props.split(",")
    SOURCES = load_sources("/repo")
    base, analysed = {}, {}
    for p in props:
        _, r = run_check(p, SOURCES, "quick")
        base[p] = sorted(f.key for f in r.findings)
        for q in r.functions:
            analysed.setdefault(q, []).append(p)
    prog = Program(SOURCES)
    jobs = []
    for q, ps in sorted(analysed.items()):
        if a.func and a.func not in q:
            continue
        fi = prog.funcs.get(q)
        if fi is None or fi.parent is not None:
            continue
        # mutate on the ORIGINAL (un-normalised) source of the module
        tree = ast.parse(SOURCES[fi.module])
        target = None
        for n in ast.walk(tree):
            if isinstance(n, ast.FunctionDef) and n.name == fi.name and n.lineno == fi.node.lineno:
                target = n
        if target is None:
            for n in ast.walk(tree):
                if isinstance(n, ast.FunctionDef) and n.name == fi.name:
                    target = n
        if target is None:
            continue
        cnt = 0
        for m in mutants_of(target):
            if m is None:
                continue
            desc, newfn = m
            t2 = copy.deepcopy(tree)
            for n in ast.walk(t2):
                for fld in ("body",):
                    blk = getattr(n, fld, None)
                    if isinstance(blk, list):
                        for i, s_ in enumerate(blk):
                            if isinstance(s_, ast.FunctionDef) and s_.name == target.name and s_.lineno == target.lineno:
                                blk[i] = newfn
            try:
                new_src = ast.unparse(t2) + "\n"
                compile(new_src, fi.module, "exec")
            except Exception:  # noqa: BLE001
                continue
            jobs.append((fi.module, q, desc, new_src, (props if a.all_checks else ps), base))
            cnt += 1
            if cnt >= a.max_per_func:
                break
    print(f"{len(jobs)} mutants over {len({j[1] for j in jobs})} functions", flush=True)
    with get_context("fork").Pool(a.jobs) as pool:
        results = pool.map(_job, jobs, chunksize=4)
    per = {}
    for q, desc, noticed in results:
        d = per.setdefault(q, {"mutants": 0, "violation": 0, "analysis_error": 0, "survivors": []})
        d["mutants"] += 1
        if any(x.endswith(":violation") for x in noticed):
            d["violation"] += 1
        elif noticed:
            d["analysis_error"] += 1
        else:
            d["survivors"].append(desc)
    json.dump({"props": props, "per_function": per}, open(a.out, "w"), indent=1)
    tot = sum(d["mutants"] for d in per.values())
    print(f"total {tot}: violation {sum(d['violation'] for d in per.values())}, fail-closed {sum(d['analysis_error'] for d in per.values())}, survivors {sum(len(d['survivors']) for d in per.values())}")
    for q, d in sorted(per.items(), key=lambda kv: -len(kv[1]["survivors"])):
        print(f"{q.replace('ghedesigner.', ''):75s} {d['mutants']:4d} mutants  viol {d['violation']:4d}  closed {d['analysis_error']:4d}  survive {len(d['survivors']):4d}")


if __name__ == "__main__":
    main()
