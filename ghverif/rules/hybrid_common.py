"""shared by C06 / C07 / C08: emission analysis of HybridLoad.process_month_loads

One iteration of the month loop is enumerated path by path (backward slice on the
appends to self.load / self.hour).  Each path yields the word of (load, hour) pairs the
month contributes, with loads and hours as normal forms over

    CL, HL          self.monthly_cl[i], self.monthly_hl[i]
    PCL, PHL        self.monthly_peak_cl[i], self.monthly_peak_hl[i]
    DCL, DHL        self.monthly_peak_*_duration[i]
    KCL, KHL        self.monthly_peak_*_day[i]
    FMH, LMH, MD    first_month_hour(i, years), last_month_hour(i, years), monthdays(i, .)
"""
from __future__ import annotations

import ast
from dataclasses import dataclass, field
from typing import Dict, List, Optional, Tuple

from .. import sym
from ..model import AnalysisError, Program, attr_chain, norm_stmt
from ..paths import Engine, Hooks, Opaque, State, describe_trail
from ..sym import Rat

FUNC = "ghedesigner.ground_loads.HybridLoad.process_month_loads"

SLOTS = {
    "CL": "self.monthly_cl",
    "HL": "self.monthly_hl",
    "PCL": "self.monthly_peak_cl",
    "PHL": "self.monthly_peak_hl",
    "DCL": "self.monthly_peak_cl_duration",
    "DHL": "self.monthly_peak_hl_duration",
    "KCL": "self.monthly_peak_cl_day",
    "KHL": "self.monthly_peak_hl_day",
}


class _EmitHooks(Hooks):
    def __init__(self):
        self.bad_writes: List[ast.stmt] = []

    @staticmethod
    def classify(s: ast.stmt) -> Optional[Tuple[str, ast.expr]]:
        """self.load = np.append(self.load, X) -> ('LOAD', X); same for self.hour"""
        if isinstance(s, ast.Assign) and len(s.targets) == 1:
            t = attr_chain(s.targets[0])
            if t in ("self.load", "self.hour"):
                v = s.value
                if (isinstance(v, ast.Call) and attr_chain(v.func) in ("np.append", "numpy.append") and len(v.args) == 2
                        and attr_chain(v.args[0]) == t and not v.keywords):
                    return ("LOAD" if t == "self.load" else "HOUR", v.args[1])
                return ("BAD", s.value)
        if isinstance(s, ast.AugAssign) and attr_chain(s.target) in ("self.load", "self.hour"):
            return ("BAD", s.value)
        return None

    @staticmethod
    def other_mutation(s: ast.stmt) -> Optional[str]:
        """element / slice stores, deletions and in-place methods on self.load / self.hour (anything but the append idiom)"""
        tg = s.targets if isinstance(s, (ast.Assign, ast.Delete)) else ([s.target] if isinstance(s, (ast.AugAssign, ast.AnnAssign)) else [])
        for t in tg:
            if isinstance(t, ast.Subscript) and attr_chain(t.value) in ("self.load", "self.hour"):
                return f"{ast.unparse(t)[:40]} is written in place"
        if isinstance(s, ast.Expr) and isinstance(s.value, ast.Call):
            c = s.value
            f = attr_chain(c.func) or ""
            if f.rsplit(".", 1)[0] in ("self.load", "self.hour") and f.rsplit(".", 1)[-1] in ("sort", "put", "fill", "resize", "itemset", "partition", "append", "extend", "insert", "pop", "clear", "reverse"):
                return f"{f}() changes the array in place"
            if f in ("np.put", "numpy.put", "np.place", "np.copyto", "np.putmask") and c.args and attr_chain(c.args[0]) in ("self.load", "self.hour"):
                return f"{f}({ast.unparse(c.args[0])}, ..) changes the array in place"
        return None

    def on_stmt(self, s, st: State, eng: Engine):
        c = self.classify(s)
        if c is None:
            return None
        kind, x = c
        if kind == "BAD":
            self.bad_writes.append(s)
            return [st]
        st.emit(kind, eng.eval(x, st), s)
        return [st]


@dataclass
class MonthPath:
    loads: List[object]
    hours: List[object]
    order: List[str]  # sequence of 'LOAD'/'HOUR' as emitted
    nodes: List[ast.stmt]
    state: State
    ipf: Optional[bool]
    has_cl: Optional[bool]
    has_hl: Optional[bool]
    clamped: bool
    day_rel: str  # '<' cooling day before heating day, '>' after, '=' same, '?' unknown
    n_clamps: int = 0

    def signature(self) -> str:
        return (f"ipf={self.ipf} cl_peak={self.has_cl} hl_peak={self.has_hl} days(cl?hl)={self.day_rel} "
                f"clamped={self.clamped} pairs={len(self.loads)}")


@dataclass
class MonthAnalysis:
    fi: object
    loop: ast.For
    loop_var: str
    paths: List[MonthPath]
    atoms: Dict[str, Rat]
    pre_events: List[Tuple[str, object, ast.stmt]]  # LOAD/HOUR emitted before the month loop (function level)
    bad_writes: List[ast.stmt] = field(default_factory=list)
    years_key: str = "self.years"
    flag_name: str = ""  # local list of include-peak flags, as the month loop tests it


def _find_month_loop(fn: ast.FunctionDef) -> ast.For:
    cands = []
    for n in ast.walk(fn):
        if isinstance(n, ast.For):
            for s in ast.walk(n):
                if isinstance(s, ast.stmt) and _EmitHooks.classify(s) and _EmitHooks.classify(s)[0] in ("LOAD", "HOUR"):
                    cands.append(n)
                    break
    # outermost loops only
    outer = [c for c in cands if not any(c is not o and any(c is x for x in ast.walk(o)) for o in cands)]
    if len(outer) != 1:
        raise AnalysisError(f"{FUNC}: expected exactly one month loop emitting load/hour pairs, found {len(outer)}")
    return outer[0]


def flag_list_name(loop: ast.For, iv: str) -> str:
    """the local list the month loop tests as  if <name>[<loop var>] ...  (the include-peak flags)"""
    names = set()
    for n in ast.walk(loop):
        if isinstance(n, ast.If):
            tests = n.test.values if isinstance(n.test, ast.BoolOp) else [n.test]
            for t in tests:
                if isinstance(t, ast.UnaryOp) and isinstance(t.op, ast.Not):
                    t = t.operand
                if isinstance(t, ast.Subscript) and isinstance(t.value, ast.Name) and isinstance(t.slice, ast.Name) and t.slice.id == iv:
                    names.add(t.value.id)
    if len(names) != 1:
        raise AnalysisError(f"{FUNC}: the month loop does not test exactly one local flag list by its loop variable (found {sorted(names)})")
    return next(iter(names))


def analyse(prog: Program, loop_bound: int = 1) -> MonthAnalysis:
    fi = prog.func(FUNC)
    loop = _find_month_loop(fi.node)
    if not isinstance(loop.target, ast.Name):
        raise AnalysisError(f"{FUNC}: month loop target is not a simple name")
    iv = loop.target.id
    hooks = _EmitHooks()
    eng = Engine(prog, fi, hooks, loop_bound=loop_bound)
    eng.slice(loop.body, lambda s: _EmitHooks.classify(s) is not None)
    st0 = State()
    st0.env[iv] = Rat.atom(iv)
    # domain facts: durations are positive (an absent pulse carries the sentinel 1e-6), peaks and totals are >= 0
    Iv = Rat.atom(iv)
    for nm, ss in (("DCL", "+"), ("DHL", "+"), ("PCL", "0+"), ("PHL", "0+")):
        a = Rat.atom(f"{SLOTS[nm]}[{Iv.key()}]")
        st0.signs[a.key()] = (a, frozenset(ss))
    # clamp-shaped ifs:  if X < c: X = const   (no else)
    clamp_lines = set()
    for n in ast.walk(loop):
        if (isinstance(n, ast.If) and not n.orelse and len(n.body) == 1 and isinstance(n.body[0], ast.Assign)
                and isinstance(n.test, ast.Compare) and isinstance(n.test.left, ast.Name)
                and len(n.body[0].targets) == 1 and isinstance(n.body[0].targets[0], ast.Name)
                and n.body[0].targets[0].id == n.test.left.id and isinstance(n.body[0].value, ast.Constant)):
            clamp_lines.add(n.lineno)
    finals = eng.run_block(loop.body, [st0])
    I = Rat.atom(iv)
    A = {k: Rat.atom(f"{v}[{I.key()}]") for k, v in SLOTS.items()}
    flag_name = flag_list_name(loop, iv)
    ipf_key = f"{flag_name}[{I.key()}]"
    paths: List[MonthPath] = []
    for st in finals:
        if st.exit is not None and st.exit[0] not in ("continue",):
            raise AnalysisError(f"{FUNC}: month loop body leaves by {st.exit[0]} - shape not understood")
        loads, hours, order, nodes = [], [], [], []
        for e in st.events:
            if e.kind == "LOAD":
                loads.append(e.data)
                order.append("LOAD")
                nodes.append(e.node)
            elif e.kind == "HOUR":
                hours.append(e.data)
                order.append("HOUR")
                nodes.append(e.node)
        ipf = st.facts.get(ipf_key)
        has_cl = _sign_fact(st, A["PCL"])
        has_hl = _sign_fact(st, A["PHL"])
        n_clamps = len({ln for k, tr, ln in st.trail if tr and ln in clamp_lines and k.startswith("sign(")})
        clamped = n_clamps > 0
        # relation of the two peak days on this path
        dd = st.sign_of(A["KCL"] - A["KHL"])
        if ipf is False:
            rel = "="  # the code forces peak_day_diff = 0 when peaks are not retained
        elif dd == frozenset("-"):
            rel = "<"
        elif dd == frozenset("+"):
            rel = ">"
        elif dd == frozenset("0"):
            rel = "="
        else:
            rel = "?"
        variants = [(st, rel)]
        if rel == "?" and ipf is not False and len(dd) == 2 and any(o == "LOAD" for o in order):
            # the code did not separate two of the three orders of the peak days on this path (e.g. a `>=`): the path stands for
            # both, and what it emits must be right for each - analyse it once per order
            from ..paths import Cond

            variants = []
            for sgn in sorted(dd):
                s2 = st.fork()
                if s2.assume(Cond("cmp", A["KCL"] - A["KHL"], frozenset(sgn)), True, 0):
                    variants.append((s2, {"-": "<", "+": ">", "0": "="}[sgn]))
        for st_v, rel_v in variants:
            mp = MonthPath(loads, hours, order, nodes, st_v, ipf, has_cl, has_hl, clamped, rel_v)
            mp.n_clamps = n_clamps
            paths.append(mp)
    # events before the loop (function level), evaluated straight-line
    pre: List[Tuple[str, object, ast.stmt]] = []
    eng2 = Engine(prog, fi, Hooks())
    st = State()
    for s in fi.node.body:
        if s is loop or any(s is x for x in ast.walk(loop)):
            break
        c = _EmitHooks.classify(s)
        if c is not None and c[0] in ("LOAD", "HOUR"):
            pre.append((c[0], eng2.eval(c[1], st), s))
        elif isinstance(s, ast.Assign):
            eng2._s_Assign(s, st)
    ma = MonthAnalysis(fi, loop, iv, paths, A, pre, hooks.bad_writes)
    ma.flag_name = flag_name
    return ma


def _sign_fact(st: State, x: Rat) -> Optional[bool]:
    """True if the path assumes x > 0, False if it assumes not (x > 0), None if unconstrained"""
    s = st.sign_of(x)
    if s == frozenset("+"):
        return True
    if "+" not in s:
        return False
    return None


def calendar_atoms(ma: MonthAnalysis):
    """atoms FMH / LMH as the code writes them (call normal forms), and the MD atom pattern"""
    I = Rat.atom(ma.loop_var)
    Y = Rat.atom(ma.years_key)
    return sym.call("first_month_hour", [I, Y]), sym.call("last_month_hour", [I, Y])


def find_md_atom(r: Rat, loop_var: str) -> Optional[str]:
    for a in r.all_atoms():
        df = sym.ATOM_DEF.get(a)
        if df and df[0] == "call" and df[1] == "monthdays" and df[2] and isinstance(df[2][0], Rat) and df[2][0].key() == loop_var:
            return a
    return None


def path_where(prog: Program, ma: MonthAnalysis, p: MonthPath, k: Optional[int] = None) -> str:
    node = p.nodes[k] if (k is not None and 0 <= k < len(p.nodes)) else (p.nodes[0] if p.nodes else ma.loop)
    return prog.loc(ma.fi, node)


# ---------------------------------------------------------------------------
# premise of the no-pulse paths: a direction without load carries the sentinel duration
# ---------------------------------------------------------------------------

SENTINEL_MAX = 1.0e-5  # hours; the code uses 1e-6


def sentinel_premise(prog: Program) -> Dict[str, Tuple[bool, str, str]]:
    """for tag in cl / hl: on every path through one month of find_peak_durations on which monthly_peak_<tag>[i] == 0,
    is the value stored in monthly_peak_<tag>_duration[i] a constant <= SENTINEL_MAX?   -> {tag: (ok, where, detail)}"""
    q = "ghedesigner.ground_loads.HybridLoad.find_peak_durations"
    fi = prog.func(q)
    loops = [n for n in fi.node.body if isinstance(n, ast.For)]
    if len(loops) != 1 or not isinstance(loops[0].target, ast.Name):
        raise AnalysisError(f"{q}: month loop not found")
    loop = loops[0]
    iv = loop.target.id
    out: Dict[str, Tuple[bool, str, str]] = {}

    def store_of(s):
        if isinstance(s, ast.Assign) and len(s.targets) == 1 and isinstance(s.targets[0], ast.Subscript):
            t = attr_chain(s.targets[0].value) or ""
            if t in ("self.monthly_peak_cl_duration", "self.monthly_peak_hl_duration") and ast.unparse(s.targets[0].slice) == iv:
                return t[len("self.monthly_peak_"):-len("_duration")]
        return None

    for tag in ("cl", "hl"):
        class H(Hooks):
            def on_stmt(self, s, st, eng):
                if store_of(s) == tag:
                    st.emit("STORE", eng.eval(s.value, st), s)
                    return [st]
                return None

        eng = Engine(prog, fi, H(), loop_bound=1)
        eng.slice(loop.body, lambda s, tag=tag: store_of(s) == tag)
        st0 = State()
        I = Rat.atom(iv)
        st0.env[iv] = I
        pk = Rat.atom(f"self.monthly_peak_{tag}[{I.key()}]")
        st0.signs[pk.key()] = (pk, frozenset("0"))
        st0.env[f"self.monthly_peak_{tag}[{I.key()}]"] = Rat.const(0)  # the month has no load in this direction: the peak IS 0
        finals = eng.run_block(loop.body, [st0])
        n_paths, bad = 0, None
        for st in finals:
            ev = [e for e in st.events if e.kind == "STORE"]
            if len(ev) != 1:
                bad = bad or (loop, f"{len(ev)} stores into monthly_peak_{tag}_duration[{iv}] on a path")
                continue
            n_paths += 1
            v = ev[0].data
            c = float(v.const_value()) if isinstance(v, Rat) and v.is_const() else None
            if c is None or not (0 < c <= SENTINEL_MAX):
                shown = v.key() if hasattr(v, "key") else str(v)
                bad = bad or (ev[0].node, f"on the path [{"; ".join(describe_trail(st)[-4:])}] with monthly_peak_{tag}[{iv}] == 0 the stored duration is {shown[:70]}, not the 1e-6 h sentinel")
        if n_paths == 0 and bad is None:
            raise AnalysisError(f"{q}: no path stores monthly_peak_{tag}_duration[{iv}]")
        if bad:
            out[tag] = (False, prog.loc(fi, bad[0]), bad[1])
        else:
            out[tag] = (True, prog.loc(fi, loop), f"{n_paths} path(s) with monthly_peak_{tag}[{iv}] == 0 all store a constant <= {SENTINEL_MAX} h")
    return out


def resolve_ite(x: Rat, st: State) -> Rat:
    """conditional expressions that were undecided where they were evaluated, decided with what the path assumed later
    (sound here: the conditions read only the month's input arrays, which the loop does not write)"""
    for _ in range(6):
        mp = {}
        for a in x.all_atoms():
            df = sym.ATOM_DEF.get(a)
            if df and df[0] == "call" and df[1] == "ite" and isinstance(df[2][0], Rat):
                c = sym.ITE_COND.get(df[2][0].key())
                d = st.decide(c) if c is not None else None
                if d is True:
                    mp[a] = df[2][1]
                elif d is False:
                    mp[a] = df[2][2]
        if not mp:
            return x
        x = x.subs(mp)
    return x


def split_minmax(x: Rat, st: State, limit: int = 8):
    """min(a, b) / max(a, b) atoms are replaced by each of their arguments that the path's assumptions allow:
    -> [(expression without such atoms, [description of the case, ...])]"""
    out = [(x, [])]
    for _ in range(4):
        nxt, changed = [], False
        for e, why in out:
            hit = None
            for a in e.all_atoms():
                df = sym.ATOM_DEF.get(a)
                if df and df[0] == "call" and df[1] in ("min", "max") and len(df[2]) == 2 and all(isinstance(v, Rat) for v in df[2]):
                    hit = (a, df[1], df[2][0], df[2][1])
                    break
            if hit is None:
                nxt.append((e, why))
                continue
            changed = True
            a, fn, u, v = hit
            sg = st.sign_of(u - v)
            # min picks u when u <= v ; max picks u when u >= v
            pick_u = ("-" in sg or "0" in sg) if fn == "min" else ("+" in sg or "0" in sg)
            pick_v = ("+" in sg or "0" in sg) if fn == "min" else ("-" in sg or "0" in sg)
            if pick_u:
                nxt.append((e.subs({a: u}), why + [f"{fn} takes {u.key()[:40]}"]))
            if pick_v:
                nxt.append((e.subs({a: v}), why + [f"{fn} takes {v.key()[:40]}"]))
        out = nxt[:limit]
        if not changed:
            break
    return out


def shape_findings(prog: Program, ma: MonthAnalysis):
    """writes to self.load / self.hour that are not the append idiom of the month loop, anywhere in the class
    -> [(key, where, qualname, message)]"""
    fi = ma.fi
    out = []
    for s_ in ma.bad_writes:
        out.append((norm_stmt(s_), prog.loc(fi, s_), fi.qualname,
                    "self.load / self.hour is written by something other than the append idiom (the sequence is no longer the concatenation of the emitted pairs)"))
    for q_, f_ in prog.funcs.items():
        if f_.module != fi.module or f_.cls != fi.cls:
            continue
        for n_ in ast.walk(f_.node):
            if isinstance(n_, ast.stmt):
                why_ = _EmitHooks.other_mutation(n_)
                if why_:
                    out.append((f"{f_.qualname}:inplace:{norm_stmt(n_)[:80]}", prog.loc(f_, n_), f_.qualname,
                                f"{why_}: the sequence is no longer the concatenation of the pairs the month loop emits ('{norm_stmt(n_)[:80]}')"))
            if f_ is not fi and f_.name != "__init__" and isinstance(n_, (ast.Assign, ast.AugAssign)):
                for t in (n_.targets if isinstance(n_, ast.Assign) else [n_.target]):
                    if attr_chain(t) in ("self.load", "self.hour"):
                        out.append((f"{f_.qualname}:{norm_stmt(n_)}", prog.loc(f_, n_), f_.qualname, "self.load / self.hour is written outside process_month_loads"))
    # the calendar helpers the breakpoints come from are functions of their arguments: no stored answer under a key that cannot
    # tell two calls apart (month ends cached per (month, number of years) are handed to a load year of another length)
    from ..memo import memo_bypass

    for hn in ("first_month_hour", "last_month_hour", "monthdays"):
        hq = f"{fi.module}.{hn}"
        if prog.has_func(hq):
            hf = prog.func(hq)
            for r_, store_, key_, missing_ in memo_bypass(prog, hf):
                if missing_:
                    out.append((f"{hq}:memo:{store_}:{missing_}", prog.loc(hf, r_), hq,
                                f"{hn}() returns the stored {store_}[{key_[:50]}], and the key does not carry {missing_}: breakpoints computed for another calendar year are reused, "
                                "while the month's duration is computed afresh - the month's energy integral and the time axis no longer match the loads"))
    # the month loop runs over exactly the requested months: range(start_month, end_month + 1), however the bounds are written
    it = ma.loop.iter
    ok_iter = False
    if isinstance(it, ast.Call) and attr_chain(it.func) == "range" and len(it.args) == 2:
        from ..model import inline_single_defs

        eng = Engine(prog, fi, Hooks())
        lo = eng.eval(inline_single_defs(fi.node, it.args[0]), State())
        hi = eng.eval(inline_single_defs(fi.node, it.args[1]), State())
        ok_iter = isinstance(lo, Rat) and isinstance(hi, Rat) and lo.equals(Rat.atom("self.start_month")) and hi.equals(Rat.atom("self.end_month") + Rat.const(1))
    if not ok_iter:
        out.append(("loop-range:" + ast.unparse(it), prog.loc(fi, ma.loop), fi.qualname,
                    f"the month loop does not cover exactly the requested months start_month..end_month: {ast.unparse(it)} - the sequence ends before or after the requested horizon"))
    return out
