"""F13 witness: a month without rejection that follows a month whose LAST day carries rejection gets a non-trivial cooling
'peak duration' (the two-day window reaches into the previous month); process_month_loads subtracts it from the hours of
the average although no pulse is placed, so the month's energy is not conserved.
exit 0 = every month conserves energy, exit 1 = violated"""
import os, sys, warnings
os.environ.setdefault("OMP_NUM_THREADS", "1"); os.environ.setdefault("OPENBLAS_NUM_THREADS", "1")
import numpy as np
from ghedesigner.borehole import GHEBorehole
from ghedesigner.borehole_heat_exchangers import SingleUTube
from ghedesigner.ground_loads import HybridLoad
from ghedesigner.media import GHEFluid, Grout, Pipe, Soil
from ghedesigner.radial_numerical_borehole import RadialNumericalBH
from ghedesigner.simulation import SimulationParameters

DAYS = [31, 28, 31, 30, 31, 30, 31, 31, 30, 31, 30, 31]
fluid = GHEFluid(fluid_str="WATER", percent=0)
borehole = GHEBorehole(height=100.0, buried_depth=2.0, radius=0.075, x=0.0, y=0.0)
grout = Grout(k=1.0, rho_cp=3901000.0)
pipe = Pipe(Pipe.place_pipes(0.01856, 0.04216 / 2, 1), 0.03404 / 2, 0.04216 / 2, 0.01856, 1e-6, 0.4, 1542000.0)
soil = Soil(k=2.0, rho_cp=2343493.0, ugt=18.3)
bh = SingleUTube(0.5, fluid, borehole, pipe, grout, soil)
rn = RadialNumericalBH(bh); rn.calc_sts_g_functions(bh)

t = np.arange(8760)
raw = 3000.0 + 2000.0 * np.sin(2 * np.pi * (t % 24) / 24.0)      # W, heating (extraction) all year, never negative
ms = lambda m: 24 * sum(DAYS[:m])
# rejection (negative raw) in January only, including an afternoon block on Jan 31; February has no rejection at all
for d in (9, 30):
    raw[ms(0) + 24 * d + 12: ms(0) + 24 * d + 18] = -20000.0
sp = SimulationParameters(1, 12, 35.0, 5.0, 135.0, 60.0)
with warnings.catch_warnings():
    warnings.simplefilter("ignore")
    hl = HybridLoad(list(raw), bh, rn, sp)
print("monthly_peak_cl[1..3]         =", hl.monthly_peak_cl[1:4])
print("monthly_peak_cl_duration[1..3]=", hl.monthly_peak_cl_duration[1:4])
hour = np.asarray(hl.hour, float); load = np.asarray(hl.load, float)
ends = np.cumsum([24 * d for d in DAYS])
k = 1; bad = []
for m, e in enumerate(ends):
    j = next(i for i in range(k + 1, len(hour)) if abs(hour[i] - e) < 1e-9)
    got = sum(load[i] * (hour[i] - hour[i - 1]) for i in range(k + 1, j + 1)); k = j
    exp = -raw[ms(m): ms(m) + 24 * DAYS[m]].sum() / 1000.0
    rel = abs(got - exp) / max(abs(exp), 1.0)
    print(f"month {m+1:2d}: hybrid {got:12.4f} kWh  input {exp:12.4f} kWh  rel {rel:.2e}")
    if rel > 1e-6:
        bad.append(m + 1)
if bad:
    print("energy NOT conserved in months", bad); sys.exit(1)
print("all months conserve energy")
