"""C02 - height bounds, borehole cap, unmet-design policy, exception type.

Decided:
  R02.1  height value-set: the height GHE.size() publishes is the value solve_root returns, which on every
         path is one of {lower, upper, brentq(f, lower, upper, ...), the initial guess}; size() binds
         lower / upper to min_height / max_height and the guess to their mean (brentq's contract
         "root inside [a, b]" is trusted)
  R02.2  cap discipline: with max_boreholes given, the right end of the search is drawn from the indices
         whose field has fewer (or at most as many) boreholes than the cap; every index at which a
         candidate is evaluated or recorded is the left end, the right end or a midpoint
         ceil|floor((l + r) / 2) between them  (the ordering premise is C03's, not decided here)
  R02.3  unmet policy: on every path of Bisection1D.search / RowWise search that finds no bracket,
         "smallest field already oversized" returns the smallest field initialised at min_height,
         "largest field fails" returns the largest allowed field initialised at max_height - both only under
         continue_if_design_unmet, otherwise ValueError
  R02.4  raise discipline: every explicit raise in the package is ValueError, or is reached only when one subject
         equals no member of its enum (else of an if-chain, or the statement after a run of returning ifs);
         no expression adds text and a number (TypeError instead of the ValueError that was meant)
  R02.5  empty selection: a constant subscript is never applied to a filtered comprehension (directly or
         through a local) without a dominating non-emptiness test - that IndexError would escape
  R02.7  the fields of SimulationParameters (height window, cap, temperature limits, unmet-design policy) are written by
         its constructor only - no search overrides the user's policy or limits on the shared object
  R02.8  no handler around a call of the search entry points can turn the search's ValueError into a normal return
         (one recorded exception: the scan over candidate lists in BisectionZD.search_successive)
  R02.6  maybe-None use: in the search classes no path reaches len() / subscript / return-as-coordinates
         with a local that is still None

Not decided: ZeroDivisionError from sign(0.0); exceptions raised inside numpy / scipy / pygfunction.
"""
from __future__ import annotations

import ast

from .. import sym
from ..model import AnalysisError, Program, attr_chain, bind_args, norm_stmt, walk_no_nested
from ..paths import Const, Engine, Hooks, Obj, Opaque, Seq, State, describe_trail, vkey
from ..report import Result
from ..selftest import Variant
from ..sym import Rat
from . import search_common as sc

PROP = "C02"
TITLE = "Height bounds, borehole cap and the unmet-design policy are honoured"
EXPLANATION = (
    "Path analysis of utilities.solve_root, GHE.size, Bisection1D.search and RowWiseModifiedBisectionSearch.search with "
    "calculate_excess modelled as a pure function EXC(field, height); value-set of the published height; definitions "
    "that reach every domain index; policy table over the no-bracket paths; package-wide scan of raise statements, of "
    "constant subscripts on filtered comprehensions and of uses of locals that are still None on an enumerated path."
)
ASSUMPTIONS = ["scipy.optimize.brentq returns a value inside its bracket", "candidate lists are ordered by borehole count (C03, not decided)"]

UT = "ghedesigner.utilities"
GHX = "ghedesigner.ground_heat_exchangers"
SR = sc.SR


def check(prog: Program, tier: str) -> Result:
    res = Result(PROP)
    lb = 1 if tier == "quick" else 2
    _height_value_set(prog, res)
    _cap_and_policy(prog, res, lb)
    _rowwise_policy_and_none(prog, res, lb)
    _raise_discipline(prog, res)
    _empty_selection(prog, res)
    _inputs_read_only(prog, res)
    _search_error_reaches_caller(prog, res)
    return res


SEARCH_ENTRY = {"find_design", "search", "search_successive", "calculate_excess", "initialize_ghe", "size"}
# an exception other than ValueError that the PINNED code raises at the same place, only implicitly (hand-confirmed): spelling it
# out changes nothing for the caller
RAISE_ACCEPT = {
    ("ghedesigner.ground_heat_exchangers.BaseGHE.combine_sts_lts", "IndexError"):
        "the pinned walk `while log_time_sts[i] <= min(log_time_lts): i += 1` runs off the end with exactly this IndexError when no short-time point lies beyond the first long-time one; "
        "a rewrite of the walk (for / enumerate / else) has to raise it itself to keep that behaviour",
}

SWALLOW_ACCEPT = {
    "ghedesigner.search_routines.BisectionZD.search_successive": "a candidate list on which the search fails ends the scan of lists; the lists scanned before it decide (R05.3)",
}


def _search_error_reaches_caller(prog: Program, res: Result):
    """R02.8: the ValueError with which a search gives up reaches whoever started the run: no handler for ValueError / Exception
    around a call of the search entry points can complete without raising (returning a status code instead leaves the object
    with the PREVIOUS design, and the command-line worker - which ignores the status - then fails with another exception type)."""
    n = 0
    for q, fi in sorted(prog.funcs.items()):
        for t in walk_no_nested(fi.node):
            if not isinstance(t, ast.Try):
                continue
            called = {(attr_chain(c.func) or "").split(".")[-1] for b_ in t.body for c in ast.walk(b_) if isinstance(c, ast.Call)}
            if not (called & SEARCH_ENTRY):
                continue
            for h in t.handlers:
                names = [attr_chain(x) for x in (h.type.elts if isinstance(h.type, ast.Tuple) else [h.type])] if h.type is not None else [None]
                if not any(nm in (None, "ValueError", "Exception", "BaseException") for nm in names):
                    continue
                n += 1
                always_raises = bool(h.body) and isinstance(h.body[-1], ast.Raise) and not any(isinstance(x, (ast.Return, ast.Break, ast.Continue)) for b_ in h.body for x in ast.walk(b_))
                acc = SWALLOW_ACCEPT.get(q)
                ok = always_raises or acc is not None
                res.ob("R02.8", f"{q}: the handler for {names} around {sorted(called & SEARCH_ENTRY)} " + ("re-raises on every path" if always_raises else f"is accepted: {acc}" if acc else "can complete without raising"), ok, prog.loc(fi, h))
                if not ok:
                    res.violation("R02.8", f"swallowed|{q}|{sorted(called & SEARCH_ENTRY)}", prog.loc(fi, h), q,
                                  f"a ValueError raised by {sorted(called & SEARCH_ENTRY)} can be turned into a normal return by this handler: the run then neither ends with the error nor with a design of ITS inputs "
                                  "(the object keeps the previous design; the command-line worker ignores the status and fails later with another exception type)")
    res.count("search_error_handlers", n)
    res.floor("search_error_handlers", 1)


def _inputs_read_only(prog: Program, res: Result):
    """R02.7: the limits and the unmet-design policy the user set (the fields of SimulationParameters) are written by the
    constructor of that class only.  The object is shared by manager, design, search and GHE: a search that overrides a field
    'for a moment' changes the policy / window of everything that runs afterwards, on every path that does not put it back."""
    init = prog.func("ghedesigner.simulation.SimulationParameters.__init__")
    fields = {attr_chain(t).split(".")[1] for s_ in ast.walk(init.node) if isinstance(s_, ast.Assign) for t in s_.targets if (attr_chain(t) or "").startswith("self.") and attr_chain(t).count(".") == 1}
    if len(fields) < 6:
        raise AnalysisError("SimulationParameters: fields not found")
    n = 0
    for q, fi in sorted(prog.funcs.items()):
        if fi is init:
            continue
        for x in walk_no_nested(fi.node):
            tg = []
            if isinstance(x, ast.Assign):
                tg = [t for t in x.targets]
            elif isinstance(x, (ast.AugAssign, ast.AnnAssign)):
                tg = [x.target]
            elif isinstance(x, ast.Call) and attr_chain(x.func) == "setattr" and len(x.args) >= 2 and isinstance(x.args[1], ast.Constant) and x.args[1].value in fields:
                tg = [ast.Attribute(value=x.args[0], attr=x.args[1].value, ctx=ast.Store())]
            for t in tg:
                for a in ([t] if not isinstance(t, (ast.Tuple, ast.List)) else t.elts):
                    if isinstance(a, ast.Attribute) and a.attr in fields:
                        ch = attr_chain(a) or ast.unparse(a)
                        base = ch.rsplit(".", 1)[0]
                        # an object's own field of the same name (HybridLoad.start_month) is not the user's parameter object
                        own = base == "self" and fi.cls and fi.cls != "SimulationParameters"
                        if own:
                            continue
                        restored = any(isinstance(t_, ast.Try) and any(isinstance(f_, ast.Assign) and any(attr_chain(tt) == ch for tt in f_.targets) and isinstance(f_.value, ast.Name) for f_ in t_.finalbody)
                                       for t_ in ast.walk(fi.node))
                        if restored:
                            # an override that a finally clause undoes on every way out: what it does to the run in between is not decided here
                            raise AnalysisError(f"{q}: {ch} is overridden temporarily and restored in a finally clause - the effect on the run in between is not decided statically")
                        n += 1
                        res.ob("R02.7", f"{q}: writes {ch}", False, prog.loc(fi, x))
                        res.violation("R02.7", f"input-written|{q}|{ch}", prog.loc(fi, x), q,
                                      f"'{norm_stmt(x)[:90]}' overwrites a limit / policy the user set on the shared parameter object: whatever runs afterwards (the inner search, the sizing, a later design on the "
                                      "same manager) sees the overridden value unless every path restores it")
    res.ob("R02.7", f"height window, borehole cap, temperature limits and the unmet-design policy are written only by SimulationParameters.__init__ ({len(fields)} fields)", n == 0, "ghedesigner/simulation.py")


# ---------------------------------------------------------------------------
def solve_root_paths(prog: Program, values=()):
    """paths of utilities.solve_root; `values`: [(expression, constant)] - a local that is assigned the expression gets the
    constant instead.  Used to ask 'what is returned when the objective is negative at both bounds' without depending on how
    the function tests for it."""
    fi = prog.func(f"{UT}.solve_root")

    class H(Hooks):
        def on_call(self, node, fname, args, kwargs, st, eng):
            if fname == "objective_function" and len(args) == 1 and isinstance(args[0], Rat):
                st.emit("OBJ", args[0], node)
                return sym._plain_call("OBJ", [args[0]])
            if fname == "brentq":
                st.emit("BRENT", (args, kwargs), node)
                return Rat.atom("BRENTQ_ROOT")
            callee = eng._resolve_callee(fname) if fname else None
            if callee is not None and args and not kwargs and all(isinstance(a, Rat) and a.is_const() for a in args):
                # a predicate of the package applied to the signs given as constants (check_bracket(-1, 1)): its value
                got = sc.concrete_predicate(callee.node, [a.const_value() for a in args])
                if got is not None:
                    return Const(got)
            return None

        def on_assign(self, key, val, stmt, st, eng):
            if isinstance(val, Rat):
                for e_, c_ in values:
                    if val.equals(e_):
                        st.env[key] = c_

    eng = Engine(prog, fi, H())
    st = State()
    for p in fi.params():
        st.env[p] = Rat.atom(p)
    # the callers under analysis supply both bounds: the default-filling of lower / upper (by statements or by conditional
    # expressions) is taken on its 'given' side only
    st.facts["None == lower"] = False
    st.facts["None == upper"] = False
    return fi, eng.run_function(st)


def solve_root_cases(prog: Program):
    """what solve_root returns in each sign case of the objective at the two bounds - decided by running its paths once per
    case with the two signs given as constants, so that it does not matter how (in which order, by statements or conditional
    expressions) the function tests for the case.  Yields (tag, description, wanted text, ok, value, where, function, path, all paths)"""
    from .hybrid_common import resolve_ite

    lower, upper = Rat.atom("lower"), Rat.atom("upper")
    so = lambda a: sym.call("int", [sym._plain_call("OBJ", [a]) / sym.call("abs", [sym._plain_call("OBJ", [a])])])  # noqa: E731
    sl, su = so(lower), so(upper)
    one = Rat.const(1)
    BR = Rat.atom("BRENTQ_ROOT")
    cases = [
        ("differ", [(su, one), (sl, -one)], BR, "the Brent root", "objective negative at lower, positive at upper -> Brent root"),
        ("differ", [(su, -one), (sl, one)], BR, "the Brent root", "objective positive at lower, negative at upper -> Brent root"),
        ("both-negative", [(su, -one), (sl, -one)], lower, "the lower bound (for sizing: an over-sized field must be clamped at min_height)", "objective negative at both bounds -> lower bound"),
        ("both-positive", [(su, one), (sl, one)], upper, "the upper bound (for sizing: an under-sized field must be reported at max_height)", "objective positive at both bounds -> upper bound"),
    ]
    for tag, pre, want, wtxt, desc in cases:
        fi, fins = solve_root_paths(prog, values=pre)
        for f in fins:
            if f.exit is None or f.exit[0] != "return":
                continue
            if f.facts.get("None == lower") is True or f.facts.get("None == upper") is True:
                continue
            rv = f.exit[1]
            v = resolve_ite(rv, f) if isinstance(rv, Rat) else rv
            ok = isinstance(v, Rat) and v.equals(want)
            yield tag, desc, wtxt, ok, v, prog.loc(fi, f.exit[2]), fi, f, fins


def size_publications(prog: Program):
    """per returning path of GHE.size: (path, the value of the last write of bhe.b.H - the height the object is left at -, its
    node, 'solver' | 'min-met' | 'other').  'min-met': the path left the object at min_height having established that the
    excess there is <= 0 - what the solver's clamp would have returned too."""
    q = f"{GHX}.GHE.size"
    sfi = prog.func(q)
    closures = sc.height_closures(sfi.node)

    class H(Hooks):
        def on_call(self, node, fname, args, kwargs, st, eng):
            if fname == "solve_root":
                return Rat.atom("SOLVE_ROOT_RESULT")
            if fname == "self.simulate":
                return Seq([Rat.atom("MX"), Rat.atom("MN")], "tuple")
            if fname in closures and len(args) > closures[fname] and isinstance(args[closures[fname]], Rat):
                st.emit("HWRITE", args[closures[fname]], node)
                return sym._plain_call("OBJ", [args[closures[fname]]])
            return None

        def on_assign(self, key, val, stmt, st, eng):
            if key == "self.bhe.b.H":
                st.emit("HWRITE", val, stmt)

    eng = Engine(prog, sfi, H())
    out = []
    for f in eng.run_function(State()):
        if f.exit is not None and f.exit[0] != "return":
            continue
        hw = [e for e in f.events if e.kind == "HWRITE"]
        if not hw:
            raise AnalysisError(f"{q}: no height write on a returning path")
        v = hw[-1].data
        kind = "other"
        if isinstance(v, Rat) and v.equals(Rat.atom("SOLVE_ROOT_RESULT")):
            kind = "solver"
        elif isinstance(v, Rat) and v.equals(sc.MINH) and f.sign_of(sym._plain_call("OBJ", [sc.MINH])) <= frozenset("-0"):
            kind = "min-met"
        out.append((f, v, hw[-1].node, kind))
    return sfi, out


def ite_leaves(x: Rat, depth: int = 4):
    """the values a conditional expression  a if c else b  (kept as an ite(...) atom) can take; [x] for anything else"""
    if depth > 0 and len(x.all_atoms()) >= 1:
        for a in x.all_atoms():
            df = sym.ATOM_DEF.get(a)
            if df and df[0] == "call" and df[1] == "ite" and x.equals(Rat.atom(a)):
                return ite_leaves(df[2][1], depth - 1) + ite_leaves(df[2][2], depth - 1)
    return [x]


def _height_value_set(prog: Program, res: Result):
    fi, finals = solve_root_paths(prog)
    res.analysed(fi.qualname)
    lower, upper, x0 = Rat.atom("lower"), Rat.atom("upper"), Rat.atom("x")
    n = 0
    for f in finals:
        if f.exit is None or f.exit[0] != "return":
            if f.exit is None:
                res.violation("R02.1", "solve_root-falls-off", prog.loc(fi, fi.node), fi.qualname, "solve_root can end without returning a value")
            continue
        # only the paths on which the caller supplied both bounds (lower / upper not None)
        if f.facts.get("None == lower") is True or f.facts.get("None == upper") is True:
            continue
        n += 1
        rv = f.exit[1]
        sig = " & ".join(k for k, tr, ln in f.trail if "None ==" not in k)[:140]
        allowed = {"lower": lower, "upper": upper, "brentq": Rat.atom("BRENTQ_ROOT"), "initial guess": x0}
        leaves = ite_leaves(rv) if isinstance(rv, Rat) else [rv]
        names = [next((nm for nm, v in allowed.items() if isinstance(lf, Rat) and lf.equals(v)), None) for lf in leaves]
        which = " or ".join(sorted(set(names))) if names and all(nm is not None for nm in names) else None
        res.ob("R02.1", f"solve_root [{sig}]: returns {which or vkey(rv)} (one of lower / upper / brentq root / initial guess)", which is not None, prog.loc(fi, f.exit[2]))
        if which is None:
            res.violation("R02.1", f"solve_root-value|{vkey(rv)[:80]}", prog.loc(fi, f.exit[2]), fi.qualname,
                          f"solve_root returns {vkey(rv)[:160]}, which is not lower, upper, a brentq root between them or the initial guess")
        for e in f.events:
            if e.kind == "BRENT":
                args, kwargs = e.data
                ok = len(args) >= 3 and isinstance(args[1], Rat) and isinstance(args[2], Rat) and args[1].equals(lower) and args[2].equals(upper)
                res.ob("R02.1", "brentq is bracketed by (lower, upper)", ok, prog.loc(fi, e.node))
                if not ok:
                    res.violation("R02.1", "brentq-bracket", prog.loc(fi, e.node), fi.qualname, f"brentq is called with the bracket ({vkey(args[1]) if len(args) > 1 else '?'}, {vkey(args[2]) if len(args) > 2 else '?'}) instead of (lower, upper)")
    res.count("solve_root_paths", n)
    res.floor("solve_root_paths", 2)
    # which bound: limits met with room to spare at both ends of the window -> min_height ; unmet at both ends -> max_height
    m = 0
    for tag, desc, wtxt, ok, v, where, fi_, f, _ in solve_root_cases(prog):
        if tag == "differ":
            continue
        m += 1
        res.ob("R02.1", f"solve_root: {desc}", ok, where)
        if not ok:
            res.violation("R02.1", f"clamp|{tag}|{vkey(v)[:40]}", where, fi_.qualname,
                          f"with the objective {tag.split('-')[1]} at both bounds solve_root returns {vkey(v)[:80]} instead of {wtxt}: the design is reported at the wrong end of the height window")
    res.count("clamp_cases", m)
    res.floor("clamp_cases", 2)

    # GHE.size binds the window and publishes the solver's value
    q = f"{GHX}.GHE.size"
    sfi = prog.func(q)
    res.analysed(q)
    calls = [c for c in ast.walk(sfi.node) if isinstance(c, ast.Call) and attr_chain(c.func) == "solve_root"]
    if len(calls) != 1:
        raise AnalysisError(f"{q}: solve_root call not found")

    closures = sc.height_closures(sfi.node)

    class H2(Hooks):
        def on_call(self, node, fname, args, kwargs, st, eng):
            if fname == "solve_root":
                return Rat.atom("SOLVE_ROOT_RESULT")
            if fname in closures and len(args) > closures[fname] and isinstance(args[closures[fname]], Rat):
                st.emit("HWRITE", args[closures[fname]], node)  # the objective writes its trial height, then simulates
                return sym._plain_call("OBJ", [args[closures[fname]]])
            if fname == "self.simulate":
                return Seq([Rat.atom("MX"), Rat.atom("MN")], "tuple")
            return None

        def on_assign(self, key, val, stmt, st, eng):
            if key == "self.bhe.b.H":
                st.emit("HWRITE", val, stmt)

    eng = Engine(prog, sfi, H2())
    st = State()
    fin = [f for f in eng.run_function(st) if f.exit is None or f.exit[0] == "return"]
    b = bind_args(prog.func(f"{UT}.solve_root"), calls[0])
    e0 = Engine(prog, sfi, H2())
    s0 = State()
    for s in sfi.node.body:
        if isinstance(s, ast.Assign) and any(c is calls[0] for c in ast.walk(s)):
            break
        if isinstance(s, ast.Assign):
            e0._s_Assign(s, s0)
    lo, up, x = (e0.eval(b[k], s0) if k in b else None for k in ("lower", "upper", "x"))
    ok = isinstance(lo, Rat) and lo.equals(sc.MINH) and isinstance(up, Rat) and up.equals(sc.MAXH)
    res.ob("R02.1", f"size(): solve_root(lower=min_height, upper=max_height) (got {vkey(lo)}, {vkey(up)})", ok, prog.loc(sfi, calls[0]))
    if not ok:
        res.violation("R02.1", f"size-window|{vkey(lo)}|{vkey(up)}", prog.loc(sfi, calls[0]), q,
                      f"size() searches the height in [{vkey(lo)}, {vkey(up)}] instead of [min_height, max_height]")
    okx = isinstance(x, Rat) and x.equals((sc.MAXH + sc.MINH) / Rat.const(2))
    res.ob("R02.1", f"size(): initial guess is the mean of the bounds (got {vkey(x)})", okx, prog.loc(sfi, calls[0]))
    if not okx:
        res.violation("R02.1", f"size-guess|{vkey(x)}", prog.loc(sfi, calls[0]), q, f"the initial height guess {vkey(x)} is not inside [min_height, max_height] by construction")
    for f in fin:
        hw = [e for e in f.events if e.kind == "HWRITE"]
        if not hw:
            raise AnalysisError(f"{q}: no height write on a returning path")
        last = hw[-1]
        solved = isinstance(last.data, Rat) and last.data.equals(Rat.atom("SOLVE_ROOT_RESULT"))
        bound = isinstance(last.data, Rat) and (last.data.equals(sc.MINH) or last.data.equals(sc.MAXH))
        ok = solved or bound
        res.ob("R02.1", "size(): the height it publishes is exactly the value solve_root returned" if solved else f"size(): a path publishes {vkey(last.data)[:60]}, one of the two bounds", ok, prog.loc(sfi, last.node))
        if not ok:
            res.violation("R02.1", f"size-publish|{vkey(last.data)[:80]}", prog.loc(sfi, last.node), q,
                          f"size() publishes {vkey(last.data)[:120]} instead of the solver's value: the height can leave [min_height, max_height]")


# ---------------------------------------------------------------------------
def _cap_and_policy(prog: Program, res: Result, lb: int):
    q = f"{SR}.Bisection1D.search"
    fi, eng, paths = sc.run_search(prog, q, loop_bound=lb)
    res.analysed(q)
    res.count("bisection1d_paths", len(paths))
    res.floor("bisection1d_paths", 20)
    cap_none = "None == self.sim_params.max_boreholes"
    cont = "self.sim_params.continue_if_design_unmet"

    # ---- R02.2 right end under the cap: structural check of the defining statement
    cap_defs = []
    right_name = sc.bisect_names(fi.node)["right"]
    for n in ast.walk(fi.node):
        if isinstance(n, ast.If) and "max_boreholes" in ast.unparse(n.test):
            for s in ast.walk(n):
                if isinstance(s, ast.Assign) and len(s.targets) == 1 and isinstance(s.targets[0], ast.Name) and s.targets[0].id == right_name:
                    t_ = n.test
                    # which branch is taken when a cap is given?  test is  <cap> is None  |  <cap> is not None  |  <cap>
                    given_branch = n.body
                    if isinstance(t_, ast.Compare) and len(t_.ops) == 1 and isinstance(t_.ops[0], (ast.Is, ast.Eq)) and isinstance(t_.comparators[0], ast.Constant) and t_.comparators[0].value is None:
                        given_branch = n.orelse
                    cap_defs.append((s, any(s is x for b in given_branch for x in ast.walk(b))))
    cap_branch = [s for s, in_body in cap_defs if in_body]
    if not cap_branch:
        raise AnalysisError(f"{q}: definition of the right end under a borehole cap not found")
    for s in cap_branch:
        alt = _first_over_minus_one(fi.node, s.value)
        if alt is not None:
            ok, detail = alt
            res.ob("R02.2", f"right end under the cap: (first index whose field reaches max_boreholes) - 1, defaulting to one past the end ({detail})", ok, prog.loc(fi, s))
            if not ok:
                res.violation("R02.2", f"cap-first-over|{detail[:80]}", prog.loc(fi, s), q,
                              f"the right end of the capped search is not the last field below max_boreholes: {detail}")
            continue
        stale = _cached_cap_index(prog, fi, s.value)
        if stale is not None:
            attr, writers, unsynced = stale
            ok = not unsynced
            res.ob("R02.2", f"right end under the cap comes from the cached {attr}; every assignment of self.coordinates_domain recomputes it", ok, prog.loc(fi, s))
            if not ok:
                f2, n2 = unsynced[0]
                res.violation("R02.2", f"cap-cached-stale|{attr}|{f2.qualname}", prog.loc(f2, n2), q,
                              f"the capped right end of search() is read from {attr}, computed in {', '.join(w.qualname.split('.')[-2] + '.' + w.name for w in writers)} from the domain of that moment, "
                              f"but {f2.qualname.split('.')[-2]}.{f2.name} replaces self.coordinates_domain without recomputing it: the cap index is stale, fields above max_boreholes become selectable")
            continue
        comp, how = _filtered_index_comp(fi.node, s.value)
        if comp is None:
            # the loop form of the same thing:  right = None; for i, f in enumerate(domain): if len(f) < cap: right = i   keeps the LAST
            # admissible index - read as the comprehension [i for i, f in enumerate(domain) if len(f) < cap] taken at [-1]
            lp = _keep_last_loop(fi.node, s)
            if lp is not None:
                comp, how = lp, "last"
            elif isinstance(s.value, ast.Constant) and s.value.value is None and any(_keep_last_loop(fi.node, s2) is not None for s2 in cap_branch) \
                    and any(isinstance(n_, ast.If) and isinstance(n_.test, ast.Compare) and ast.unparse(n_.test) == f"{right_name} is None" and n_.body and isinstance(n_.body[-1], ast.Raise)
                            for n_ in ast.walk(fi.node)):
                continue  # the 'nothing admissible yet' marker: the loop overwrites it, and a search with nothing admissible raises
        ok = False
        detail = "shape not understood"
        if comp is not None:
            ok, detail = _cap_filter_ok(fi.node, comp)
        res.ob("R02.2", f"right end under the cap: last index whose field size is below / at most max_boreholes ({detail})", ok, prog.loc(fi, s))
        if comp is None:
            raise AnalysisError(f"{q}: '{norm_stmt(s)}' - shape of the capped right end not understood")
        if not ok:
            res.violation("R02.2", f"cap-filter|{detail}", prog.loc(fi, s), q,
                          f"the right end of the search is not restricted to fields with at most max_boreholes boreholes: {detail}")
        if how != "last":
            res.violation("R02.2", f"cap-pick|{how}", prog.loc(fi, s), q, f"the capped right end takes the {how} admissible index instead of the last one")
    # ---- indices at which candidates are evaluated / recorded
    XL0 = Rat.const(0)
    bad_idx = set()
    n_eval = 0
    for p in paths:
        xr0 = next((e.data for e in p.events if e.kind == "XR0" and isinstance(e.data, Rat)), None)
        if xr0 is None:
            if p.exit_kind == "raise" and not p.evals():
                continue  # left before the right end was fixed (e.g. nothing below the cap)
            raise AnalysisError(f"{q}: initial right end of the search interval not identified")
        allowed = [XL0, xr0]
        for e in p.events:
            if e.kind not in ("EVAL", "CT_STORE", "INIT"):
                continue
            idx = _index_of(e)
            if idx is None:
                continue
            n_eval += 1
            if any(idx.equals(a) for a in allowed):
                continue
            if _is_midpoint(idx, allowed):
                allowed.append(idx)
                continue
            # the stray re-evaluation at the iteration counter (harmless: not recorded, not selected) is EVAL-only
            if e.kind == "EVAL" and idx.is_const():
                continue
            if e.kind == "INIT" and not isinstance(idx, Rat):
                continue
            key = (e.kind, idx.key())
            if key not in bad_idx and e.kind != "INIT":
                bad_idx.add(key)
                res.violation("R02.2", f"index|{e.kind}|{idx.key()[:80]}", prog.loc(fi, e.node), q,
                              f"a candidate is {'recorded' if e.kind == 'CT_STORE' else 'evaluated'} at index {idx.key()[:120]}, which is neither an end of the "
                              f"(capped) search interval nor a midpoint between them")
    res.count("index_uses", n_eval)
    res.floor("index_uses", 100)
    res.ob("R02.2", f"every evaluated / recorded index is the left end, the capped right end or a midpoint ({n_eval} uses on {len(paths)} paths)", not bad_idx, prog.loc(fi, fi.node))

    # ---- R02.3 policy table
    n_pol = 0
    for p in paths:
        st = p.state
        t0l = sc.exc(Rat.atom("self.coordinates_domain[0]"), sc.MINH)
        br1 = [tr for k, tr, ln in st.trail if k.startswith(("sign(check_bracket(", "not (sign(check_bracket(")) and "min_height" in k]
        # classify by the signs assumed on the path
        s_low = st.sign_of(t0l)
        bracket_true = any(("check_bracket(" in k) and tr and not k.startswith("not (") for k, tr, ln in st.trail)
        unmet_small = s_low == frozenset("-") and not bracket_true
        tm1 = [e.data[3] for e in p.evals() if len(p.evals()) >= 3][2:3]
        unmet_large = bool(tm1) and st.sign_of(tm1[0]) == frozenset("+") and not bracket_true and not unmet_small
        if not (unmet_small or unmet_large):
            continue
        n_pol += 1
        c = st.facts.get(cont)
        what = "smallest field already oversized" if unmet_small else "largest allowed field fails"
        where = prog.loc(fi, st.exit[2]) if st.exit else prog.loc(fi, fi.node)
        # "no candidate can meet the limits" has to be ESTABLISHED before the policy applies: both brackets (in height on the
        # smallest field, in field size at max height) examined and found absent on this path
        okb = _no_bracket(st, 2)
        res.ob("R02.3", f"[{what}] the unmet-design branch is reached only after both brackets were examined and found absent", okb, where)
        if not okb:
            res.violation("R02.3", f"escape-before-brackets|{what}", where, q,
                          f"[{what}] the search leaves by the unmet-design branch on a path that has not examined both brackets: when the smallest field meets the limits and the "
                          "largest allowed one does not (a non-monotone excess), a candidate that was just found feasible is ignored - the run ends with an error or the largest field",
                          path=describe_trail(st))
        if c is True:
            ok = p.exit_kind == "return"
            init = p.inits()[-1].data if p.inits() else None
            want_h = sc.MINH if unmet_small else sc.MAXH
            okh = init is not None and isinstance(init[1], Rat) and init[1].equals(want_h)
            ret = p.ret
            okf = (isinstance(ret, Seq) and len(ret.items) == 2 and init is not None and vkey(ret.items[1]) == vkey(init[0]))
            want_idx_ok = False
            if isinstance(ret, Seq) and isinstance(ret.items[0], Rat):
                if unmet_small:
                    want_idx_ok = ret.items[0].equals(Rat.const(0))
                else:
                    want_idx_ok = tm1 and ("F<" + vkey(ret.items[1]) + ">") in tm1[0].key()
            good = ok and okh and okf and want_idx_ok
            res.ob("R02.3", f"[{what}, continue] returns the {'smallest' if unmet_small else 'largest allowed'} field initialised at {'min' if unmet_small else 'max'}_height", good, where)
            if not good:
                res.violation("R02.3", f"policy-continue|{what}|{vkey(ret)[:60]}|{vkey(init[1]) if init else None}", where, q,
                              f"[{what}] with continue_if_design_unmet the search {'raises' if p.exit_kind == 'raise' else 'returns ' + vkey(ret)[:80]} with the GHE initialised at "
                              f"{vkey(init[1]) if init else 'nothing'}; expected the {'smallest' if unmet_small else 'largest allowed'} field at "
                              f"{'min' if unmet_small else 'max'}_height", path=describe_trail(st))
        elif c is False:
            ok = p.exit_kind == "raise" and p.ret == "ValueError"
            res.ob("R02.3", f"[{what}, no continue] ends with ValueError", ok, where)
            if not ok:
                res.violation("R02.3", f"policy-raise|{what}|{p.exit_kind}|{p.ret if isinstance(p.ret, str) else vkey(p.ret)[:40]}", where, q,
                              f"[{what}] without continue_if_design_unmet the search {p.exit_kind}s {p.ret if isinstance(p.ret, str) else vkey(p.ret)[:80]} instead of raising ValueError",
                              path=describe_trail(st))
        else:
            res.ob("R02.3", f"[{what}] consults continue_if_design_unmet", False, where)
            res.violation("R02.3", f"policy-unconsulted|{what}|{p.exit_kind}", where, q,
                          f"[{what}] the search {p.exit_kind}s without consulting continue_if_design_unmet", path=describe_trail(st))
    res.count("unmet_policy_paths", n_pol)
    res.floor("unmet_policy_paths", 4)


def _no_bracket(st: State, n: int) -> bool:
    ks = [(k, tr) for k, tr, ln in st.trail if "check_bracket(" in k]
    falses = [k for k, tr in ks if k.startswith("not (")]
    return len(falses) >= n


def _index_of(e):
    """index into the candidate domain used by an EVAL / INIT / CT_STORE event (None: not a domain subscript)"""
    if e.kind == "CT_STORE":
        return e.data[2]
    if e.kind == "EVAL":
        return e.data[4]
    if e.kind == "INIT":
        return e.data[3]
    return None


def _is_midpoint(idx: Rat, allowed) -> bool:
    """idx = ceil|floor((a + b) / 2) or (a + b) // 2 for two admissible indices a, b"""
    for i, a in enumerate(allowed):
        for b in allowed[i:]:
            half = (a + b) / Rat.const(2)
            for cand in (sym.call("ceil", [half]), sym.call("floor", [half]), sym.call("floordiv", [a + b, Rat.const(2)]), sym.call("int", [half])):
                if idx.equals(cand):
                    return True
    return False


def sym_single(r: Rat):
    from ..paths import _single_atom

    return _single_atom(r)


def _filtered_index_comp(fn, value: ast.expr):
    """value is  [idx for idx, x in enumerate(SEQ) if COND][-1]  (or via a guarded local) -> (ListComp, 'last'|'first'|...)"""
    if isinstance(value, ast.Subscript) and isinstance(value.slice, (ast.Constant, ast.UnaryOp)):
        try:
            k = ast.literal_eval(value.slice)
        except Exception:
            return None, None
        how = "last" if k == -1 else ("first" if k == 0 else f"[{k}]")
        base = value.value
        if isinstance(base, ast.ListComp):
            return base, how
        if isinstance(base, ast.Name):
            for s in ast.walk(fn):
                if isinstance(s, ast.Assign) and len(s.targets) == 1 and isinstance(s.targets[0], ast.Name) and s.targets[0].id == base.id and isinstance(s.value, ast.ListComp):
                    return s.value, how
    if isinstance(value, ast.Call) and attr_chain(value.func) in ("max", "min") and len(value.args) == 1:
        a = value.args[0]
        comp = a if isinstance(a, (ast.ListComp, ast.GeneratorExp)) else None
        if isinstance(a, ast.Name):
            for s in ast.walk(fn):
                if isinstance(s, ast.Assign) and len(s.targets) == 1 and isinstance(s.targets[0], ast.Name) and s.targets[0].id == a.id and isinstance(s.value, ast.ListComp):
                    comp = s.value
        if comp is not None:
            return comp, "last" if attr_chain(value.func) == "max" else "first"
    return None, None


def _first_over_minus_one(fn, value: ast.expr):
    """value is  F - 1  with  F = next((idx for idx, x in enumerate(D) if size(x) >= cap), DEFAULT)  -> (ok, detail) | None"""
    if not (isinstance(value, ast.BinOp) and isinstance(value.op, ast.Sub) and isinstance(value.right, ast.Constant) and value.right.value == 1):
        return None
    f = value.left
    if isinstance(f, ast.Name):
        fname = f.id
        for s in ast.walk(fn):
            if isinstance(s, ast.Assign) and len(s.targets) == 1 and isinstance(s.targets[0], ast.Name) and s.targets[0].id == fname:
                f = s.value
    if not (isinstance(f, ast.Call) and attr_chain(f.func) == "next" and len(f.args) == 2 and isinstance(f.args[0], ast.GeneratorExp)):
        return None
    gen, default = f.args
    g = gen.generators
    if len(g) != 1 or len(g[0].ifs) != 1 or not (isinstance(g[0].iter, ast.Call) and attr_chain(g[0].iter.func) == "enumerate"):
        return False, f"generator '{ast.unparse(gen)[:80]}' not understood"
    t = g[0].ifs[0]
    cap = "self.sim_params.max_boreholes"
    okf = isinstance(t, ast.Compare) and len(t.ops) == 1 and ((isinstance(t.ops[0], (ast.GtE, ast.Gt)) and ast.unparse(t.comparators[0]) == cap) or (isinstance(t.ops[0], (ast.LtE, ast.Lt)) and ast.unparse(t.left) == cap))
    if not okf:
        return False, f"filter '{ast.unparse(t)}' does not select the fields that reach max_boreholes"
    dname = ast.unparse(g[0].iter.args[0])
    dtxt = ast.unparse(default).replace(" ", "")
    if isinstance(default, ast.Name):
        dn = default.id
        for s in ast.walk(fn):
            if isinstance(s, ast.Assign) and len(s.targets) == 1 and isinstance(s.targets[0], ast.Name) and s.targets[0].id == dn:
                dtxt = ast.unparse(s.value).replace(" ", "")
    if dtxt != f"len({dname})":
        return False, f"when no field reaches the cap the default '{dtxt}' - 1 is not the last index (len({dname}) - 1): the largest candidate is silently dropped"
    return True, ast.unparse(t)


def _cached_cap_index(prog: Program, fi, expr: ast.expr):
    """the capped right end is read from an attribute self.<a> (possibly clamped with min(.., len(domain) - 1)) that some
    method computes from self.coordinates_domain / its constructor argument.  -> (attr, [writer functions],
    [(function, stmt) that assign self.coordinates_domain without assigning self.<a> afterwards]) or None"""
    attrs = [attr_chain(n) for n in ast.walk(expr) if isinstance(n, ast.Attribute) and (attr_chain(n) or "").startswith("self.")
             and attr_chain(n) not in ("self.coordinates_domain", "self.sim_params.max_boreholes", "self.sim_params")]
    attrs = [a for a in attrs if a and a.count(".") == 1]
    if len(set(attrs)) != 1:
        return None
    attr = attrs[0]
    writers, dom_writers = [], []
    for q2, f2 in prog.funcs.items():
        if not q2.startswith(SR + "."):
            continue
        for n in walk_no_nested(f2.node):
            if isinstance(n, ast.Assign):
                for t in n.targets:
                    c = attr_chain(t)
                    if c == attr and not (isinstance(n.value, ast.Constant) and n.value.value is None):
                        writers.append((f2, n))
                    if c == "self.coordinates_domain":
                        dom_writers.append((f2, n))
    if not writers:
        return None
    unsynced = []
    for f2, n in dom_writers:
        later = [w for wf, w in writers if wf is f2 and w.lineno > n.lineno]
        same_fn_before = [w for wf, w in writers if wf is f2]
        if not later and not (same_fn_before and f2.name == "__init__" and f2 is writers[0][0]):
            unsynced.append((f2, n))
    wf_ = []
    for w in writers:
        if not any(w[0] is x for x in wf_):
            wf_.append(w[0])
    return attr, sorted(wf_, key=lambda f: f.qualname), unsynced


def _keep_last_loop(fn, s):
    """s is  `name = <loop index>`  as the only statement under the only `if` of a for loop: the synthetic comprehension
    [<value> for <target> in <iter> if <test>] whose last element the loop leaves in `name`; else None"""
    for lp in ast.walk(fn):
        if isinstance(lp, ast.For) and not lp.orelse and len(lp.body) == 1 and isinstance(lp.body[0], ast.If) and not lp.body[0].orelse \
                and len(lp.body[0].body) == 1 and lp.body[0].body[0] is s and isinstance(s.value, ast.Name):
            return ast.ListComp(elt=s.value, generators=[ast.comprehension(target=lp.target, iter=lp.iter, ifs=[lp.body[0].test], is_async=0)])
    return None


def _cap_filter_ok(fn, comp) -> tuple:
    g = comp.generators
    if len(g) != 1 or len(g[0].ifs) != 1:
        return False, f"comprehension has {len(g[0].ifs) if g else 0} filters"
    test = g[0].ifs[0]
    if not (isinstance(test, ast.Compare) and len(test.ops) == 1):
        return False, f"filter {ast.unparse(test)}"
    l, op, r = test.left, test.ops[0], test.comparators[0]
    lt, rt = ast.unparse(l), ast.unparse(r)
    cap = "self.sim_params.max_boreholes"
    size_side = None
    if rt == cap and isinstance(op, (ast.Lt, ast.LtE)):
        size_side = l
    elif lt == cap and isinstance(op, (ast.Gt, ast.GtE)):
        size_side = r
    else:
        return False, f"filter '{ast.unparse(test)}' does not bound the field size by max_boreholes from above"
    # the element must be the index and the tested quantity the size of that index's field
    tgt = g[0].target
    it = g[0].iter
    if isinstance(tgt, ast.Tuple) and len(tgt.elts) == 2 and isinstance(it, ast.Call) and attr_chain(it.func) == "enumerate":
        idx_name, x_name = tgt.elts[0].id, tgt.elts[1].id
        if not (isinstance(comp.elt, ast.Name) and comp.elt.id == idx_name):
            return False, "the comprehension does not yield the index"
        seq = it.args[0]
        # x is the field size:  seq = [len(x) for x in self.coordinates_domain]  or tested as len(x) with seq = domain
        if isinstance(size_side, ast.Name) and size_side.id == x_name:
            sizes = seq
            if isinstance(sizes, ast.Name):
                nm = sizes.id
                for s in ast.walk(fn):
                    if isinstance(s, ast.Assign) and len(s.targets) == 1 and isinstance(s.targets[0], ast.Name) and s.targets[0].id == nm:
                        sizes = s.value
            if isinstance(sizes, ast.ListComp) and isinstance(sizes.elt, ast.Call) and attr_chain(sizes.elt.func) == "len" and ast.unparse(sizes.generators[0].iter) == "self.coordinates_domain":
                return True, ast.unparse(test)
            return False, f"'{x_name}' is not the size of the field at that index"
        if isinstance(size_side, ast.Call) and attr_chain(size_side.func) == "len" and ast.unparse(size_side.args[0]) == x_name and ast.unparse(seq) == "self.coordinates_domain":
            return True, ast.unparse(test)
    return False, f"shape of '{ast.unparse(comp)}' not understood"


# ---------------------------------------------------------------------------
class _RWHooks(sc.SearchHooks):
    def __init__(self):
        super().__init__()
        self.none_uses = []

    def on_call(self, node, fname, args, kwargs, st, eng):
        if fname in ("field_optimization_fr", "field_optimization_wp_space_fr"):
            sp = args[0] if fname == "field_optimization_fr" else (args[1] if len(args) > 1 else None)
            tag = f"FIELD({vkey(sp)})"
            return Seq([Obj(tag), Rat.atom(f"SPEC({vkey(sp)})")], "tuple")
        if fname == "gen_shape":
            return Seq([Rat.atom("PROP"), Rat.atom("NOGO")], "tuple")
        perms = self._perms(eng)
        if fname in perms and len(args) > perms[fname][1]:
            return Obj(f"PERM({vkey(args[perms[fname][1]])})")  # the same boreholes, reordered (a helper whose every return is a plain reordering)
        if fname and fname.endswith(".append") and fname.startswith("self."):
            return Const(None)
        return super().on_call(node, fname, args, kwargs, st, eng)

    def on_listcomp(self, node, st, eng):
        pts = sc.reordered_points(node)
        if pts is not None and pts in st.env:
            return Obj(f"PERM({vkey(st.env[pts])})")  # the same boreholes, reordered in place (no helper)
        return None

    def _perms(self, eng):
        if not hasattr(self, "_perm_tab"):
            self._perm_tab = sc.permutation_helpers(eng.prog, eng.fi)
        return self._perm_tab

    def on_misc(self, kind, node, st, eng):
        if kind == "none-use":
            st.emit("NONE_USE", ast.unparse(node)[:60], node)


def run_rowwise(prog: Program, lb: int):
    q = f"{SR}.RowWiseModifiedBisectionSearch.search"
    fi = prog.func(q)
    hooks = _RWHooks()
    eng = Engine(prog, fi, hooks, loop_bound=lb, max_paths=400000, zero_trip=False)
    final, via, extra = sc.rowwise_names(fi.node)

    def sd(s):
        if sc.seed(s):
            return True
        for n in ast.walk(s):
            if isinstance(n, ast.Name) and n.id in (final | via) and isinstance(n.ctx, ast.Store):
                return True
            if isinstance(n, ast.Call) and attr_chain(n.func) == "len":
                return True
        return False

    eng.slice(fi.node.body, sd, extra_names=set(extra))
    st = State()
    for p in fi.params():
        st.env[p] = Rat.atom(p)
    out = []
    for f in eng.run_function(st):
        if f.exit is not None and f.exit[0] in ("return", "raise"):
            out.append(sc.SearchPath(f, f.exit[0], f.exit[1], f.events))
        elif f.exit is None:
            out.append(sc.SearchPath(f, "falls-off", None, f.events))
    return fi, out


def _rowwise_policy_and_none(prog: Program, res: Result, lb: int):
    fi, paths = run_rowwise(prog, lb)
    q = fi.qualname
    res.analysed(q)
    res.count("rowwise_paths", len(paths))
    res.floor("rowwise_paths", 10)
    cont = "self.sim_params.continue_if_design_unmet"
    seen = set()
    n_pol = 0
    for p in paths:
        st = p.state
        ev = p.evals()
        if len(ev) < 2:
            raise AnalysisError(f"{q}: the two bounding fields are not evaluated first")
        t_up, t_lo = ev[0].data[3], ev[1].data[3]
        both_fail = st.sign_of(t_up) == frozenset("+") and st.sign_of(t_lo) == frozenset("+")
        where = prog.loc(fi, st.exit[2]) if st.exit else prog.loc(fi, fi.node)
        if both_fail:
            n_pol += 1
            c = st.facts.get(cont)
            if c is True:
                ret = p.ret
                good = p.exit_kind == "return" and isinstance(ret, Seq) and vkey(ret.items[0]) == vkey(ev[0].data[0])
                # the densest field is the one generated with the smallest target spacing
                dens = "min_spacing" in vkey(ev[0].data[0])
                res.ob("R02.3", "[rowwise: both bounding fields fail, continue] returns the densest field (min spacing)", good and dens, where)
                if not (good and dens):
                    res.violation("R02.3", f"rowwise-policy-continue|{vkey(ret)[:60]}", where, q,
                                  f"[rowwise: loads too large, continue] returns {vkey(ret)[:100]} instead of the field generated at the minimum spacing", path=describe_trail(st))
            elif c is False:
                good = p.exit_kind == "raise" and p.ret == "ValueError"
                res.ob("R02.3", "[rowwise: both bounding fields fail, no continue] ends with ValueError", good, where)
                if not good:
                    res.violation("R02.3", f"rowwise-policy-raise|{p.exit_kind}", where, q, "[rowwise: loads too large] does not end with ValueError", path=describe_trail(st))
            else:
                res.violation("R02.3", "rowwise-policy-unconsulted", where, q, "[rowwise: loads too large] continue_if_design_unmet is not consulted", path=describe_trail(st))
        # ---- R02.6
        for e in p.events:
            if e.kind == "NONE_USE":
                key = (e.node.lineno, e.data)
                if key in seen:
                    continue
                seen.add(key)
                res.violation("R02.6", f"none-use|{e.data}", prog.loc(fi, e.node), q,
                              f"'{e.data}' is reached on a path where the value is still None (TypeError instead of a design or a ValueError)",
                              path=describe_trail(st)[-6:])
        if p.exit_kind == "return" and isinstance(p.ret, Seq) and p.ret.items and isinstance(p.ret.items[0], Const) and p.ret.items[0].value is None:
            key = ("ret-none", st.exit[2].lineno)
            if key not in seen:
                seen.add(key)
                res.violation("R02.6", "returns-none-coordinates", where, q,
                              "search() can return None as the selected coordinates (the constructor then passes it to initialize_ghe: TypeError)",
                              path=describe_trail(st)[-6:])
    res.count("rowwise_unmet_paths", n_pol)
    res.floor("rowwise_unmet_paths", 2)
    res.ob("R02.6", f"no path of the row-wise search uses or returns a local that is still None ({len(paths)} paths)", not any(f.rule == "R02.6" for f in res.findings), prog.loc(fi, fi.node))


# ---------------------------------------------------------------------------
def _raise_discipline(prog: Program, res: Result):
    n = 0
    for q, fi in sorted(prog.funcs.items()):
        for r in walk_no_nested(fi.node):
            if not isinstance(r, ast.Raise):
                continue
            n += 1
            if r.exc is None:
                continue
            name = attr_chain(r.exc.func) if isinstance(r.exc, ast.Call) else attr_chain(r.exc)
            if name == "ValueError":
                continue
            acc = RAISE_ACCEPT.get((q, name))
            if acc is not None:
                res.ob("R02.4", f"{q}: raise {name} - accepted: {acc[:110]}", True, prog.loc(fi, r))
                continue
            # exhaustive-else exception
            okx, why = _exhaustive_else(prog, fi, r)
            res.ob("R02.4", f"{q}: raise {name} sits in the else of a chain exhaustive over its enum ({why})", okx, prog.loc(fi, r))
            if not okx:
                res.violation("R02.4", f"{q}|raise {name}", prog.loc(fi, r), q,
                              f"raise {name}: a run must end with a design or a ValueError ({why})")
    res.count("raise_statements", n)
    res.floor("raise_statements", 25)
    # an expression that cannot be evaluated ends the run with TypeError whatever is being raised or returned: text + number
    n_add = 0
    for q, fi in sorted(prog.funcs.items()):
        for b in walk_no_nested(fi.node):
            if isinstance(b, ast.BinOp) and isinstance(b.op, ast.Add):
                ta, tb = _static_type(fi.node, b.left), _static_type(fi.node, b.right)
                if "str" in (ta, tb):
                    n_add += 1
                if {ta, tb} == {"str", "num"}:
                    res.ob("R02.4", f"{q}: '{ast.unparse(b)[:60]}' adds text and a number", False, prog.loc(fi, b))
                    res.violation("R02.4", f"{q}|str+num|{norm_stmt(b)[:50]}", prog.loc(fi, b), q,
                                  f"'{ast.unparse(b)[:90]}' concatenates text with a number ({ast.unparse(b.right if tb == 'num' else b.left)[:40]}): evaluating it raises TypeError, "
                                  "so the run ends with neither a design nor the ValueError that was meant")
    res.count("text_concatenations", n_add)
    res.ob("R02.4", f"every explicit raise in the package is ValueError or unreachable by exhaustiveness ({n} raise statements)", not any(f.rule == "R02.4" for f in res.findings), "ghedesigner/")


NUM_CALLS = {"len", "int", "float", "round", "abs", "sum", "floor", "ceil", "sqrt", "math.floor", "math.ceil"}
STR_CALLS = {"str", "repr", "format"}


def _static_type(fn, e, depth: int = 4):
    """'str' | 'num' | None (unknown) - only what is certain from the expression itself and single local definitions"""
    if depth <= 0:
        return None
    if isinstance(e, ast.Constant):
        if isinstance(e.value, str):
            return "str"
        if isinstance(e.value, (int, float)) and not isinstance(e.value, bool):
            return "num"
        return None
    if isinstance(e, ast.JoinedStr):
        return "str"
    if isinstance(e, ast.Call):
        cn = attr_chain(e.func)
        if cn in NUM_CALLS:
            return "num"
        if cn in STR_CALLS or (isinstance(e.func, ast.Attribute) and e.func.attr in ("format", "join", "upper", "lower", "strip", "title")):
            return "str"
        return None
    if isinstance(e, ast.BinOp):
        ta, tb = _static_type(fn, e.left, depth - 1), _static_type(fn, e.right, depth - 1)
        if isinstance(e.op, ast.Add):
            return ta if ta == tb else ("str" if "str" in (ta, tb) and None in (ta, tb) else None)
        if isinstance(e.op, ast.Mod) and ta == "str":
            return "str"
        if isinstance(e.op, (ast.Sub, ast.Div, ast.FloorDiv, ast.Pow)) and "str" not in (ta, tb):
            return "num" if (ta == "num" or tb == "num") else None
        if isinstance(e.op, ast.Mult):
            if ta == tb == "num":
                return "num"
            if {ta, tb} == {"str", "num"}:
                return "str"
        return None
    if isinstance(e, ast.UnaryOp) and isinstance(e.op, (ast.USub, ast.UAdd)):
        return _static_type(fn, e.operand, depth - 1)
    if isinstance(e, ast.Name):
        defs = [s_ for s_ in walk_no_nested(fn) if isinstance(s_, ast.Assign) and len(s_.targets) == 1 and isinstance(s_.targets[0], ast.Name) and s_.targets[0].id == e.id]
        others = [x for x in walk_no_nested(fn) if isinstance(x, ast.Name) and x.id == e.id and isinstance(x.ctx, ast.Store)]
        if len(defs) == 1 and len(others) == 1 and e.id not in [a.arg for a in fn.args.args + fn.args.kwonlyargs]:
            return _static_type(fn, defs[0].value, depth - 1)
    return None


def _exhaustive_else(prog: Program, fi, r: ast.Raise):
    """is the raise reached only when one subject compared equal to NO member of its enum?  Accepted shapes: the final else of
    an if / elif chain, and the statement after a run of ifs whose bodies all end in return / raise / continue / break (the same
    chain written without else) - or any mixture of the two."""
    blocks = {}  # id(stmt) -> (block list, index, owner node, field)
    for n in ast.walk(fi.node):
        for fld in ("body", "orelse", "finalbody"):
            b = getattr(n, fld, None)
            if isinstance(b, list):
                for i, s_ in enumerate(b):
                    if isinstance(s_, ast.stmt):
                        blocks[id(s_)] = (b, i, n, fld)

    def ends(body):
        return bool(body) and isinstance(body[-1], (ast.Return, ast.Raise, ast.Continue, ast.Break))

    def chain_tests(if_node):
        """tests of an if / elif chain whose every branch ends the block, without a final else; None otherwise"""
        out, cur = [], if_node
        while True:
            if not ends(cur.body):
                return None
            out.append(cur.test)
            if len(cur.orelse) == 1 and isinstance(cur.orelse[0], ast.If):
                cur = cur.orelse[0]
            elif not cur.orelse:
                return out
            else:
                return None

    def table_keys(name_node):
        """the keys of a dict display bound once to this name in the function or at module level"""
        if not isinstance(name_node, ast.Name):
            return None
        defs = [a for a in ast.walk(fi.node) if isinstance(a, ast.Assign) and any(isinstance(t_, ast.Name) and t_.id == name_node.id for t_ in a.targets)]
        v = defs[0].value if len(defs) == 1 else (prog.modules[fi.module].constants.get(name_node.id) if not defs else None)
        return v.keys if isinstance(v, ast.Dict) and all(k is not None for k in v.keys) else None

    def exhaustive_keys(keys):
        mem, enum_ = set(), None
        for k in keys:
            c = attr_chain(k)
            if not (c and c.count(".") == 1) or (enum_ is not None and enum_ != c.split(".")[0]):
                return False, "the table is not keyed by the members of one enum"
            enum_ = c.split(".")[0]
            mem.add(c.split(".")[1])
        rr_ = prog.resolve_name(fi.module, enum_) if enum_ else None
        if rr_ and rr_[0] == "class":
            allm_ = set(prog.enum_members(rr_[1].qualname))
            return (True, f"{enum_}: {sorted(mem)} (table)") if mem == allm_ else (False, f"{enum_} members missing from the table: {sorted(allm_ - mem)}")
        return False, "the table is not keyed by the members of one enum"

    # the same dispatch written with a table:  try: x = TABLE[k]  except KeyError: raise ...   |   x = TABLE.get(k); if x is None: raise ...
    for n in ast.walk(fi.node):
        if isinstance(n, ast.Try) and any(any(r is x for x in ast.walk(h)) for h in n.handlers):
            h = next(h for h in n.handlers if any(r is x for x in ast.walk(h)))
            htypes = {attr_chain(e) for e in (h.type.elts if isinstance(h.type, ast.Tuple) else [h.type])} if h.type is not None else set()
            subs = [x for s_ in n.body for x in ast.walk(s_) if isinstance(x, ast.Subscript) and isinstance(x.ctx, ast.Load) and table_keys(x.value) is not None]
            if htypes and htypes <= {"KeyError", "TypeError"} and len(n.body) == 1 and len(subs) == 1:
                return exhaustive_keys(table_keys(subs[0].value))
        if isinstance(n, ast.If) and any(r is x for b_ in n.body for x in ast.walk(b_)) and isinstance(n.test, ast.Compare) and len(n.test.ops) == 1 and isinstance(n.test.ops[0], ast.Is) \
                and isinstance(n.test.left, ast.Name) and isinstance(n.test.comparators[0], ast.Constant) and n.test.comparators[0].value is None:
            x_ = n.test.left.id
            defs_ = [a for a in walk_no_nested(fi.node) if isinstance(a, ast.Assign) and any(isinstance(t_, ast.Name) and t_.id == x_ for t_ in a.targets)]
            if len(defs_) == 1 and isinstance(defs_[0].value, ast.Call) and isinstance(defs_[0].value.func, ast.Attribute) and defs_[0].value.func.attr == "get" and table_keys(defs_[0].value.func.value) is not None \
                    and (len(defs_[0].value.args) == 1 or (isinstance(defs_[0].value.args[1], ast.Constant) and defs_[0].value.args[1].value is None)):
                return exhaustive_keys(table_keys(defs_[0].value.func.value))
            # ... or already expanded into  if k == E.A: x = ..  elif k == E.B: x = .. else: x = None
            nones = [a for a in defs_ if isinstance(a.value, ast.Constant) and a.value.value is None]
            if len(defs_) >= 3 and len(nones) == 1 and id(nones[0]) in blocks and isinstance(blocks[id(nones[0])][2], ast.If) and blocks[id(nones[0])][3] == "orelse":
                tests_ = []
                cur = blocks[id(nones[0])][2]
                while True:
                    tests_.append(cur.test)
                    if id(cur) in blocks and isinstance(blocks[id(cur)][2], ast.If) and blocks[id(cur)][3] == "orelse" and len(blocks[id(cur)][0]) == 1:
                        cur = blocks[id(cur)][2]
                    else:
                        break
                keys_ = [t_.comparators[0] for t_ in tests_ if isinstance(t_, ast.Compare) and len(t_.ops) == 1 and isinstance(t_.ops[0], ast.Eq)]
                if len(keys_) == len(tests_) == len(defs_) - 1 and len({ast.unparse(t_.left) for t_ in tests_}) == 1:
                    return exhaustive_keys(keys_)
    tests = []
    node = r
    while id(node) in blocks:
        blk, i, owner, fld = blocks[id(node)]
        for prev in reversed(blk[:i]):
            ct = chain_tests(prev) if isinstance(prev, ast.If) else None
            if ct is None:
                break
            tests.extend(ct)
        if isinstance(owner, ast.If) and fld == "orelse":
            tests.append(owner.test)
            node = owner
        else:
            break
    if len(tests) < 2:
        return False, "not in the else of an enum chain"
    members = set()
    enum = None
    subj = None
    for t in tests:
        if isinstance(t, ast.Compare) and len(t.ops) == 1 and isinstance(t.ops[0], ast.Eq):
            c = attr_chain(t.comparators[0])
            s = ast.unparse(t.left)
            if c and "." in c and (subj is None or subj == s) and (enum is None or enum == c.split(".")[0]):
                subj = s
                enum = c.split(".")[0]
                members.add(c.split(".")[1])
                continue
        return False, "chain is not a comparison of one subject with enum members"
    rr = prog.resolve_name(fi.module, enum)
    if rr and rr[0] == "class":
        allm = set(prog.enum_members(rr[1].qualname))
        if members == allm:
            return True, f"{enum}: {sorted(members)}"
        return False, f"{enum} members not handled: {sorted(allm - members)}"
    return False, "not in the else of an enum chain"


# ---------------------------------------------------------------------------
def _empty_selection(prog: Program, res: Result):
    n = 0
    for q, fi in sorted(prog.funcs.items()):
        if fi.module.endswith(".output"):
            continue
        comps = {}
        for s in walk_no_nested(fi.node):
            if isinstance(s, ast.Assign) and len(s.targets) == 1 and isinstance(s.targets[0], ast.Name) and isinstance(s.value, ast.ListComp) and any(g.ifs for g in s.value.generators):
                comps[s.targets[0].id] = s
        for sub in walk_no_nested(fi.node):
            if not (isinstance(sub, ast.Subscript) and isinstance(sub.ctx, ast.Load)):
                continue
            try:
                k = ast.literal_eval(sub.slice)
            except Exception:
                continue
            if not isinstance(k, int):
                continue
            base = sub.value
            if isinstance(base, ast.ListComp) and any(g.ifs for g in base.generators):
                n += 1
                res.violation("R02.5", f"{q}|{norm_stmt(sub)[:100]}", prog.loc(fi, sub), q,
                              f"'{ast.unparse(sub)[:120]}': constant subscript on a filtered comprehension - IndexError escapes when nothing passes the filter "
                              f"(a run must end with a design or a ValueError)")
            elif isinstance(base, ast.Name) and base.id in comps:
                n += 1
                guarded = _guarded_nonempty(fi.node, base.id, sub)
                res.ob("R02.5", f"{q}: {ast.unparse(sub)} on a filtered comprehension is dominated by a non-emptiness test", guarded, prog.loc(fi, sub))
                if not guarded:
                    res.violation("R02.5", f"{q}|{base.id}|{ast.unparse(sub)}", prog.loc(fi, sub), q,
                                  f"'{ast.unparse(sub)}' indexes the filtered comprehension '{base.id}' without a non-emptiness test before it: IndexError escapes")
    res.count("const_subscripts_on_filtered_comprehensions", n)
    res.ob("R02.5", f"no unguarded constant subscript on a filtered comprehension ({n} candidate sites)", not any(f.rule == "R02.5" for f in res.findings), "ghedesigner/")


def _guarded_nonempty(fn, name: str, use: ast.AST) -> bool:
    """an earlier 'if not name / len(name) == 0: raise|return' or an enclosing 'if name / len(name) > 0'"""
    for n in ast.walk(fn):
        if isinstance(n, ast.If) and n.lineno < use.lineno:
            t = ast.unparse(n.test).replace(" ", "")
            neg = t in (f"not{name}", f"len({name})==0", f"len({name})<1", f"{name}==[]")
            pos = t in (name, f"len({name})>0", f"len({name})>=1", f"len({name})!=0")
            if neg and n.body and isinstance(n.body[-1], (ast.Raise, ast.Return)) and not any(use is x for x in ast.walk(n)):
                return True
            if pos and any(use is x for b in n.body for x in ast.walk(b)):
                return True
            if neg and any(use is x for b in n.orelse for x in ast.walk(b)):
                return True
    return False


VARIANTS = [
    Variant("the 'largest allowed field fails' branch moved in front of the bracket tests (seeded C05_l)", "break",
            [(SR, "        if check_bracket(sign(t_0_lower), sign(t_0_upper)):\n            if self.disp:\n                print(\"Size between min and max of lower bound in domain.\")",
              "        if t_m1 > 0.0:\n            if self.sim_params.continue_if_design_unmet:\n                selection_key = x_r_idx\n                self.initialize_ghe(self.coordinates_domain[selection_key], self.sim_params.max_height, self.fieldDescriptors[selection_key])\n                return selection_key, self.coordinates_domain[selection_key]\n            else:\n                raise ValueError(\"Search failed.\")\n        elif check_bracket(sign(t_0_lower), sign(t_0_upper)):\n            if self.disp:\n                print(\"Size between min and max of lower bound in domain.\")")], "R02.3"),
    Variant("find_design reports a failed search as a status code when throw is off (seeded C02_h)", "break",
            [("ghedesigner.manager", "        self._search = self._design.find_design()\n", "        try:\n            self._search = self._design.find_design()\n        except ValueError as error:\n            print(f\"Design search failed: {error}\", file=stderr)\n            if throw:\n                raise\n            return 1\n")], "R02.8"),
    Variant("find_design logs a failed search and re-raises it", "benign",
            [("ghedesigner.manager", "        self._search = self._design.find_design()\n", "        try:\n            self._search = self._design.find_design()\n        except ValueError as error:\n            print(f\"Design search failed: {error}\", file=stderr)\n            raise\n")]),
    Variant("the outer pass of the nested search overrides the user's unmet-design policy and restores it only on failure (seeded C02_g)", "break",
            [(SR, "        selection_key, _ = self.search()\n\n        self.calculated_temperatures_nested.append(self.calculated_temperatures)",
              "        unmet_policy = self.sim_params.continue_if_design_unmet\n        self.sim_params.continue_if_design_unmet = True\n        try:\n            selection_key, _ = self.search()\n        except ValueError:\n            self.sim_params.continue_if_design_unmet = unmet_policy\n            raise\n\n        self.calculated_temperatures_nested.append(self.calculated_temperatures)")], "R02.7"),
    Variant("solve_root without a sign change takes the bound 'closest to the root' (seeded C02_e)", "break",
            [(UT, "    elif kg_plus_sign == -1 and kg_minus_sign == -1:\n        x = lower\n    elif kg_plus_sign == 1 and kg_minus_sign == 1:\n        x = upper\n", "    else:\n        x = lower if abs(minus) < abs(plus) else upper\n")], "R02.1"),
    Variant("solve_root without a sign change chooses the bound by a conditional expression on the sign", "benign",
            [(UT, "    elif kg_plus_sign == -1 and kg_minus_sign == -1:\n        x = lower\n    elif kg_plus_sign == 1 and kg_minus_sign == 1:\n        x = upper\n", "    else:\n        x = lower if kg_plus_sign == -1 else upper\n")]),
    Variant("solve_root: the two clamp branches exchanged", "break",
            [(UT, "    elif kg_plus_sign == -1 and kg_minus_sign == -1:\n        x = lower\n    elif kg_plus_sign == 1 and kg_minus_sign == 1:\n        x = upper\n", "    elif kg_plus_sign == -1 and kg_minus_sign == -1:\n        x = upper\n    elif kg_plus_sign == 1 and kg_minus_sign == 1:\n        x = lower\n")], "R02.1"),
    Variant("failed search: message built by adding a count to the text (seeded C02_f)", "break",
            [(SR, '                raise ValueError("Search failed.")\n        else:\n            # if we\'ve gotten here', '                n_excluded = len(self.coordinates_domain) - 1 - x_r_idx\n                if n_excluded > 0:\n                    raise ValueError("Search failed. Note: " + n_excluded + " larger field(s) were not considered.")\n                raise ValueError("Search failed.")\n        else:\n            # if we\'ve gotten here')], "R02.4"),
    Variant("failed search: message with the count formatted into the text", "benign",
            [(SR, '                raise ValueError("Search failed.")\n        else:\n            # if we\'ve gotten here', '                n_excluded = len(self.coordinates_domain) - 1 - x_r_idx\n                if n_excluded > 0:\n                    raise ValueError("Search failed. Note: " + str(n_excluded) + " larger field(s) were not considered.")\n                raise ValueError("Search failed.")\n        else:\n            # if we\'ve gotten here')]),
    Variant("cap index cached in the base constructor, stale after subclasses swap the domain (seeded C02_d)", "break",
            [(SR, "        self.max_iter = max_iter\n        self.disp = disp\n\n        b = borehole_spacing(borehole, coordinates)",
              "        self.max_iter = max_iter\n        self.disp = disp\n\n        self.last_allowed_idx = None\n        if sim_params.max_boreholes is not None:\n            allowed = [idx for idx, x in enumerate(coordinates_domain) if len(x) < sim_params.max_boreholes]\n            if not allowed:\n                raise ValueError(\"Search failed: every field in the domain has at least max_boreholes boreholes.\")\n            self.last_allowed_idx = allowed[-1]\n\n        b = borehole_spacing(borehole, coordinates)"),
             (SR, "            num_coordinates_in_each = [len(x) for x in self.coordinates_domain]\n            allowed = [idx for idx, x in enumerate(num_coordinates_in_each) if x < self.sim_params.max_boreholes]\n            if not allowed:\n                raise ValueError(\"Search failed: every field in the domain has at least max_boreholes boreholes.\")\n            x_r_idx = allowed[-1]",
              "            x_r_idx = min(self.last_allowed_idx, len(self.coordinates_domain) - 1)")], "R02.2"),
    Variant("published height scaled by 1.01", "break", [(GHX, "        self.bhe.b.H = returned_height\n", "        self.bhe.b.H = returned_height * 1.01\n")], "R02.1"),
    Variant("solve_root: both-negative clamps beyond the lower bound", "break", [(UT, "        x = lower\n    elif kg_plus_sign == 1", "        x = lower / 2.0\n    elif kg_plus_sign == 1")], "R02.1"),
    Variant("cap filter selects fields ABOVE the cap", "break",
            [(SR, "if x < self.sim_params.max_boreholes]", "if x > self.sim_params.max_boreholes]")], "R02.2"),
    Variant("unmet-large branch ignores continue_if_design_unmet and always returns", "break",
            [(SR, """            print(condition_msg)
            if self.sim_params.continue_if_design_unmet:
                print("Largest available configuration selected.")
                selection_key = x_r_idx
                self.initialize_ghe(
                    self.coordinates_domain[selection_key],
                    self.sim_params.max_height,
                    self.fieldDescriptors[selection_key],
                )
                return selection_key, self.coordinates_domain[selection_key]
            else:
                raise ValueError("Search failed.")""", """            print(condition_msg)
            print("Largest available configuration selected.")
            selection_key = x_r_idx
            self.initialize_ghe(
                self.coordinates_domain[selection_key],
                self.sim_params.max_height,
                self.fieldDescriptors[selection_key],
            )
            return selection_key, self.coordinates_domain[selection_key]""")], "R02.3"),
    Variant("unmet-small branch raises RuntimeError", "break",
            [(SR, """                return selection_key, self.coordinates_domain[selection_key]
            else:
                raise ValueError("Search failed.")
        elif t_m1 > 0.0:""", """                return selection_key, self.coordinates_domain[selection_key]
            else:
                raise RuntimeError("Search failed.")
        elif t_m1 > 0.0:""")], "R02."),
    Variant("unmet-large with continue returns the smallest field", "break",
            [(SR, """                print("Largest available configuration selected.")
                selection_key = x_r_idx""", """                print("Largest available configuration selected.")
                selection_key = x_l_idx""")], "R02.3"),
    Variant("unmet-small with continue initialises at max_height", "break",
            [(SR, """                self.initialize_ghe(
                    self.coordinates_domain[selection_key],
                    self.sim_params.min_height,""", """                self.initialize_ghe(
                    self.coordinates_domain[selection_key],
                    self.sim_params.max_height,""")], "R02.3"),
    Variant("bisection midpoint recorded under a shifted index", "break",
            [(SR, "            self.calculated_temperatures[c_idx] = c_t_excess", "            self.calculated_temperatures[c_idx + 1] = c_t_excess")], "R02.2"),
    Variant("capped right end taken directly from the filtered comprehension (repaired defect F9 returns)", "break",
            [(SR, """            allowed = [idx for idx, x in enumerate(num_coordinates_in_each) if x < self.sim_params.max_boreholes]
            if not allowed:
                raise ValueError("Search failed: every field in the domain has at least max_boreholes boreholes.")
            x_r_idx = allowed[-1]""", """            x_r_idx = [idx for idx, x in enumerate(num_coordinates_in_each) if x < self.sim_params.max_boreholes][-1]""")], "R02.5"),
    Variant("non-emptiness guard of the capped right end removed", "break",
            [(SR, """            if not allowed:
                raise ValueError("Search failed: every field in the domain has at least max_boreholes boreholes.")
""", "")], "R02.5"),
    Variant("row-wise removal branch no longer defaults to the full sparse field (repaired defect F11 returns)", "break",
            [(SR, "                selected_coordinates = starting_field\n                selected_specifier = lower_field_specifier", "                selected_specifier = lower_field_specifier")], "R02.6"),
    Variant("'<' -> '<=' in the cap filter", "benign",
            [(SR, "if x < self.sim_params.max_boreholes]", "if x <= self.sim_params.max_boreholes]")]),
    Variant("message text of the ValueError changed", "benign",
            [(SR, "                raise ValueError(\"Search failed.\")\n        elif t_m1 > 0.0:", "                raise ValueError(\"No design: loads too small for the smallest field.\")\n        elif t_m1 > 0.0:")]),
    Variant("midpoint rounded down", "benign", [(SR, "            c_idx = ceil((x_l_idx + x_r_idx) / 2)", "            c_idx = (x_l_idx + x_r_idx) // 2")]),
]
