"""C05 - the design is not oversized (structural part).

Not decided: "the returned height is a root of the excess" (numerical), and "the candidate preceding the
selected one fails" for every threshold position (a loop-invariant argument over sign patterns - model
checking, another family).  Decided:

  R05.0  the live GHE the manager sizes is the selected field (shared with C01 R01.2)
  R05.1  final pick of Bisection1D.search: keys and values come from the same dictionary of evaluated
         candidates; the candidates are ordered by their borehole count ascending (plain sorted, no reverse /
         key); the first one with negative excess replaces the pick and the scan stops; the pick is mapped
         back to its own key
  R05.2  bisection roles: the reference sign is the sign of the excess at the LEFT end at max height; in the
         loop the midpoint is ceil|floor((l + r) / 2); when its sign equals the reference sign the midpoint
         becomes the left end (right end untouched), otherwise the right end (left end untouched); the loop
         leaves when the midpoint coincides with an end
  R05.3  nested lists: per list the recorded drilling is len(selected field) * sized height; the list with
         the MINIMUM recorded drilling is chosen, and inside it a field with non-positive excess
         (provenance shared with C01); the loop stops as soon as the drilling increases
         the value compared with the reference sign is -1 for a negative and +1 for a positive excess, however written
  R05.6  nothing the search constructors compute from a stored parameter (the first candidate list) goes stale when a
         method replaces that attribute (ghverif/derived.py)
  R05.4  sizing tolerances: GHE.size asks solve_root for abs_tol, rel_tol <= 1e-6 and they reach brentq
"""
from __future__ import annotations

import ast

from .. import sym
from ..model import AnalysisError, Program, attr_chain, bind_args, norm_stmt, src_line, walk_no_nested
from ..paths import Const, Engine, Hooks, Opaque, Seq, State, describe_trail, vkey
from ..report import Result
from ..selftest import Variant
from ..sym import Rat
from . import search_common as sc

PROP = "C05"
TITLE = "Design is not oversized: final pick, bisection roles, nested-list choice (structural part)"
EXPLANATION = (
    "Role discipline from def-use and path analysis: which index the reference sign was taken at, which end each "
    "branch of the bisection moves, how the final candidate is ordered and picked, which nested list is chosen.  "
    "The numerical root property and the exhaustive 'predecessor fails' argument are not decided."
)
ASSUMPTIONS = ["sorted() is stable and ascending; list.index returns the first match"]

SR = sc.SR
Q = f"{SR}.Bisection1D.search"


def check(prog: Program, tier: str) -> Result:
    res = Result(PROP)
    _live_object(prog, res)
    _final_pick(prog, res)
    _roles(prog, res)
    _nested(prog, res)
    _tolerances(prog, res)
    _search_state(prog, res)
    return res


def _search_state(prog: Program, res: Result):
    """R05.6: the nested searches (bi-rectangle, bi-zoned, constrained) construct the base search with their FIRST candidate
    list and then replace self.coordinates_domain / self.fieldDescriptors for every further list.  Whatever the base
    constructor computes from the list it is given (an iteration budget, a cached length, a bracket end ...) is stale for
    the later lists unless the method that swaps the list recomputes it: the bisection then stops early or probes the
    wrong end, and the candidate before the selected one is never evaluated."""
    from ..derived import constructor_dependencies, derived_closure, stale_derived
    from ..model import walk_no_nested

    n_cls = 0
    for cq in (f"{SR}.Bisection1D", f"{SR}.RowWiseModifiedBisectionSearch"):
        cinfo = prog.cls(cq)
        init = prog.method(cq, "__init__")
        defs, alias = constructor_dependencies(init.node)
        swapped = set()
        for c in [cinfo] + prog.subclasses(cq):
            for mname, m in c.methods.items():
                if mname == "__init__":
                    continue
                for s_ in walk_no_nested(m.node):
                    if isinstance(s_, ast.Assign):
                        for t in s_.targets:
                            ch = attr_chain(t)
                            if ch and ch.startswith("self.") and ch.count(".") == 1:
                                swapped.add(ch)
        n_cls += 1
        n_links, bad = stale_derived(prog, cq)
        # only derivations from attributes that some method really replaces matter; 'self.ghe' is rebuilt per evaluation by initialize_ghe
        bad = [b for b in bad if b[4] != "self.ghe"]
        res.ob("R05.6", f"{cinfo.name}: nothing the constructor computes from a stored parameter goes stale when a method replaces that parameter's attribute "
                        f"({len(defs)} derived attribute(s), {len(swapped & set(alias.values()))} replaceable source(s))", not bad, f"{cinfo.module.replace('.', '/')}.py:{src_line(cinfo.node)}")
        for c, m, st_, y, x, how, dstmt in bad[:4]:
            res.violation("R05.6", f"stale|{c.name}.{m.name}|{y}|{x}", prog.loc(m, st_), m.qualname,
                          f"{c.name}.{m.name}() replaces {y}, but {x} - which the constructor computed from it ({norm_stmt(dstmt)[:100]}) - {how}: "
                          "for every list after the first the search runs with a value that belongs to another list")
    if n_cls < 2:
        raise AnalysisError("search classes not found")


def _live_object(prog: Program, res: Result):
    """R05.0: what the manager sizes is the field the search selected (shared with C01 R01.2): otherwise the reported
    drilling belongs to another candidate than the one the search found sufficient"""
    from . import c01

    tmp = Result("C01")
    c01._bisection1d(prog, tmp, 1)
    c01._successive(prog, tmp, 1)
    c01._nested_ctors(prog, tmp)
    for o in tmp.obligations:
        if o.rule == "R01.2":
            res.ob("R05.0", o.desc, o.ok, o.where)
    for f in tmp.findings:
        if f.rule == "R01.2":
            res.violation("R05.0", f.key.split("|", 2)[-1], f.where, f.func, f.message + " - the drilling that is sized and reported is not that of the selected candidate")
        if f.rule == "R01.1" and " records " in f.message:
            # an excess filed under another candidate's index: the final pick (smallest field with negative excess) reads the wrong table
            res.violation("R05.0", "recorded|" + f.key.split("|", 2)[-1], f.where, f.func, f.message + " - the final pick may return a candidate that was never evaluated (and is far larger than the smallest sufficient one)")
    for o in tmp.obligations:
        if o.rule == "R01.1" and "record" in o.desc:
            res.ob("R05.0", o.desc, o.ok, o.where)
    for fn in tmp.functions:
        res.analysed(fn)


def _def_of(fn, name, before=None):
    best = None
    for s in walk_no_nested(fn):
        if isinstance(s, ast.Assign) and (before is None or s.lineno < before):
            for t in s.targets:
                if isinstance(t, ast.Name) and t.id == name:
                    if best is None or s.lineno > best.lineno:
                        best = s
                if isinstance(t, ast.Tuple) and any(isinstance(e, ast.Name) and e.id == name for e in t.elts):
                    if best is None or s.lineno > best.lineno:
                        best = s
    return best


def _final_pick(prog: Program, res: Result):
    fi = prog.func(Q)
    res.analysed(Q)
    fn = fi.node
    pick = None
    for n in ast.walk(fn):
        if isinstance(n, ast.Call) and isinstance(n.func, ast.Attribute) and n.func.attr == "index" and isinstance(n.func.value, ast.Name) and len(n.args) == 1 and isinstance(n.args[0], ast.Name):
            d = _def_of(fn, n.func.value.id, n.lineno)
            if d is not None and "self.calculated_temperatures.values()" in ast.unparse(d.value):
                pick = n
    if pick is None:
        alt = sc.argopt_final_pick(fn)
        if alt is None:
            raise AnalysisError(f"{Q}: final pick not found (neither '<values>.index(<excess>)' nor 'min|max(<feasible>, key=...)')")
        good = (alt["criterion"] == "size" and alt["func"] == "min") or (alt["criterion"] == "index" and alt["func"] == "min")
        res.ob("R05.1", f"final pick = the SMALLEST evaluated feasible field ({norm_stmt(alt['node'])[:80]})", good, prog.loc(fi, alt["node"]))
        if not good:
            how = {"excess": "by the value of the excess (closest to zero / most negative)", "size": "the LARGEST field", "index": "the largest index", "unknown": "by an unrecognised criterion"}[alt["criterion"]]
            res.violation("R05.1", f"final-pick-criterion|{alt['func']}|{alt['criterion']}", prog.loc(fi, alt["node"]), Q,
                          f"'{norm_stmt(alt['node'])[:100]}' picks the returned candidate {how}; under a non-monotone excess a larger field than the smallest evaluated feasible one is returned")
        return
    vals, var = pick.func.value.id, pick.args[0].id
    # (e) index mapped back through the keys of the same dictionary
    asg = next((s for s in walk_no_nested(fn) if isinstance(s, ast.Assign) and any(pick is x for x in ast.walk(s.value))), None)
    idxname = asg.targets[0].id if asg is not None and isinstance(asg.targets[0], ast.Name) else None
    sel = next((s for s in walk_no_nested(fn) if isinstance(s, ast.Assign) and isinstance(s.value, ast.Subscript) and isinstance(s.value.slice, ast.Name)
                and s.value.slice.id == idxname and isinstance(s.value.value, ast.Name) and s.lineno > pick.lineno), None)
    if sel is None and asg is not None:
        # keys[values.index(excess)] in one expression
        direct = next((x for x in ast.walk(asg.value) if isinstance(x, ast.Subscript) and x.slice is pick and isinstance(x.value, ast.Name)), None)
        if direct is not None:
            sel = ast.Assign(targets=asg.targets, value=direct, lineno=asg.lineno)
    ok = False
    if sel is not None:
        kd = _def_of(fn, sel.value.value.id, sel.lineno)
        ok = kd is not None and "self.calculated_temperatures.keys()" in ast.unparse(kd.value)
    res.ob("R05.1", "the picked excess is mapped back to its own key (values.index -> keys[...], both from calculated_temperatures)", ok, prog.loc(fi, pick))
    if not ok:
        res.violation("R05.1", "pick-key-mapping", prog.loc(fi, pick), Q, "the index of the picked excess is not mapped through the keys of the same dictionary of evaluated candidates")
    # (d) the scan: a for loop assigning var from its loop value under 'val < 0' and breaking
    scan = None
    for n in ast.walk(fn):
        if isinstance(n, ast.For) and n.lineno < pick.lineno:
            for s in ast.walk(n):
                if isinstance(s, ast.Assign) and len(s.targets) == 1 and isinstance(s.targets[0], ast.Name) and s.targets[0].id == var and isinstance(s.value, ast.Name):
                    scan = (n, s)
    gen_scan = None
    if scan is None:
        # the same scan as an expression:  x = next((val for _, val in <sorted pairs> if val < 0), None);  var = x
        for s in sorted((x for x in walk_no_nested(fn) if isinstance(x, ast.Assign) and len(x.targets) == 1 and isinstance(x.targets[0], ast.Name) and x.targets[0].id == var and x.lineno < pick.lineno),
                        key=lambda x: x.lineno):
            v_ = s.value
            if isinstance(v_, ast.Name):
                d_ = _def_of(fn, v_.id, s.lineno)
                v_ = d_.value if d_ is not None else v_
            if isinstance(v_, ast.Call) and attr_chain(v_.func) == "next" and v_.args and isinstance(v_.args[0], ast.GeneratorExp) and len(v_.args[0].generators) == 1:
                gen_scan = (v_.args[0], s)
    if gen_scan is not None:
        ge, s = gen_scan
        g = ge.generators[0]
        # next() stops at the first element by construction; the element must be the excess column under a negative-excess filter
        loop = ast.For(target=g.target, iter=g.iter, body=[], orelse=[], lineno=s.lineno)
        neg = isinstance(ge.elt, ast.Name) and any(isinstance(t_, ast.Compare) and len(t_.ops) == 1 and ast.unparse(t_.left) == ge.elt.id and isinstance(t_.ops[0], (ast.Lt, ast.LtE))
                                                      and isinstance(t_.comparators[0], ast.Constant) and t_.comparators[0].value == 0 for t_ in g.ifs)
        res.ob("R05.1", "the scan stops at the first candidate with negative excess (next() over the filtered candidates)", neg, prog.loc(fi, s))
        if not neg:
            res.violation("R05.1", "scan-no-break", prog.loc(fi, s), Q, "the scan over the ordered candidates does not take the first candidate with negative excess")
        s = ast.Assign(targets=s.targets, value=ge.elt, lineno=s.lineno)
        scan = (loop, s)
    if scan is None:
        res.ob("R05.1", "the final pick scans the candidates for the smallest feasible field", False, prog.loc(fi, pick))
        res.violation("R05.1", "no-smallest-feasible-scan", prog.loc(fi, pick), Q,
                      "the final pick is no longer corrected to the smallest evaluated field with negative excess (under a non-monotone excess a larger field is returned)")
        return
    loop, s = scan
    if gen_scan is None:
        guard = next((g for g in ast.walk(loop) if isinstance(g, ast.If) and any(s is x for b in g.body for x in ast.walk(b))), None)
        stops = guard is not None and any(isinstance(x, ast.Break) for b in guard.body for x in ast.walk(b))
        res.ob("R05.1", "the scan stops at the first candidate with negative excess (assignment followed by break)", stops, prog.loc(fi, s))
        if not stops:
            res.violation("R05.1", "scan-no-break", prog.loc(fi, s), Q, "the scan over the ordered candidates does not stop at the first feasible one: the LAST (largest) feasible field wins")
    # (c) the order: loop iterates zip(A, B) where (A, B) = unzip(sorted(zip(num_bh, values))), or the sorted pairs themselves
    it = loop.iter
    if isinstance(it, ast.Name):
        d0 = _def_of(fn, it.id, loop.lineno)
        it = d0.value if d0 is not None else it
    direct = isinstance(it, ast.Call) and attr_chain(it.func) == "sorted"
    if not direct and not (isinstance(it, ast.Call) and attr_chain(it.func) == "zip" and len(it.args) == 2 and all(isinstance(a, ast.Name) for a in it.args)):
        raise AnalysisError(f"{Q}: shape of the candidate scan '{ast.unparse(it)[:60]}' not understood")
    srt = None
    d = None
    if direct:
        srt = it
    else:
        d = _def_of(fn, it.args[1].id, loop.lineno)
        if d is not None:
            for c in ast.walk(d.value):
                if isinstance(c, ast.Call) and attr_chain(c.func) == "sorted":
                    srt = c
    if srt is None:
        res.ob("R05.1", "candidates are ordered by borehole count", False, prog.loc(fi, loop))
        res.violation("R05.1", "candidates-not-sorted", prog.loc(fi, loop), Q, "the candidates scanned for the final pick are not sorted by their borehole count")
        return
    kw = {k.arg: k.value for k in srt.keywords}
    asc = not kw or (set(kw) == {"reverse"} and isinstance(kw["reverse"], ast.Constant) and kw["reverse"].value is False)
    res.ob("R05.1", f"candidates are sorted ascending, plain sorted() ({ast.unparse(srt)[:60]})", asc, prog.loc(fi, srt))
    if not asc:
        res.violation("R05.1", f"sort-order|{sorted(kw)}", prog.loc(fi, srt), Q, f"the candidates are sorted with {', '.join(f'{k}={ast.unparse(v)}' for k, v in kw.items())}: the first feasible one is no longer the smallest")
    z = srt.args[0] if srt.args else None
    okz = False
    if isinstance(z, ast.Call) and attr_chain(z.func) == "zip" and len(z.args) == 2 and all(isinstance(a, ast.Name) for a in z.args):
        nb = _def_of(fn, z.args[0].id, srt.lineno)
        okn = (nb is not None and isinstance(nb.value, ast.ListComp) and isinstance(nb.value.elt, ast.Call) and attr_chain(nb.value.elt.func) == "len"
               and ast.unparse(nb.value.elt.args[0]).startswith("self.coordinates_domain[") and len(nb.value.generators) == 1)
        if okn:
            kd = _def_of(fn, ast.unparse(nb.value.generators[0].iter), srt.lineno)
            okn = kd is not None and "self.calculated_temperatures.keys()" in ast.unparse(kd.value) and ast.unparse(nb.value.elt.args[0]) == f"self.coordinates_domain[{nb.value.generators[0].target.id}]"
        okz = okn and z.args[1].id == vals
    res.ob("R05.1", "the sort key is the borehole count of each evaluated candidate, paired with its excess", okz, prog.loc(fi, srt))
    if not okz:
        res.violation("R05.1", "sort-key", prog.loc(fi, srt), Q, f"the candidates are ordered by '{ast.unparse(z)[:80] if z is not None else '?'}' rather than by (len(coordinates_domain[key]), excess)")
    # unzip keeps the pairing: (A, B) = (list(t) for t in zip(*sorted(...))) and the loop reads B's element
    tgt = d.targets[0] if d is not None else None
    okp = direct or (isinstance(tgt, ast.Tuple) and len(tgt.elts) == 2 and isinstance(tgt.elts[1], ast.Name) and tgt.elts[1].id == it.args[1].id)
    ltg = loop.target
    okp = okp and isinstance(ltg, ast.Tuple) and len(ltg.elts) == 2 and isinstance(ltg.elts[1], ast.Name) and ltg.elts[1].id == s.value.id
    res.ob("R05.1", "the scanned value is the excess column of the sorted pairs", bool(okp), prog.loc(fi, loop))
    if not okp:
        res.violation("R05.1", "scan-column", prog.loc(fi, loop), Q, "the scan reads the wrong column of the sorted (count, excess) pairs")


# ---------------------------------------------------------------------------
def _roles(prog: Program, res: Result):
    fi, eng, paths = sc.run_search(prog, Q, loop_bound=1)
    # reference sign
    bn = sc.bisect_names(fi.node)
    if bn["ref_sign"] is None:
        raise AnalysisError(f"{Q}: the bisection loop does not compare against a sign defined before it")
    tail = [p for p in paths if p.exit_kind == "return" and isinstance(p.state.env.get(bn["ref_sign"]), Rat)]
    if not tail:
        raise AnalysisError(f"{Q}: no path defines the reference sign {bn['ref_sign']}")
    ref = tail[0].state.env[bn["ref_sign"]]
    want = sym.call("sign", [sc.exc(Rat.atom("self.coordinates_domain[0]"), sc.MAXH)])
    ok = ref.equals(want)
    res.ob("R05.2", f"reference sign = sign of the excess at the left end (index 0) at max_height (got {ref.key()[:90]})", ok, prog.loc(fi, fi.node))
    if not ok:
        res.violation("R05.2", f"reference-sign|{ref.key()[:80]}", prog.loc(fi, fi.node), Q,
                      f"the sign the bisection compares against is {ref.key()[:120]}, not the sign of the excess of the left-end field at max_height")
    # one trip of the loop, symbolically
    loop = bn["loop"]
    if not any(isinstance(c, ast.Call) and attr_chain(c.func) == "self.calculate_excess" for c in ast.walk(loop)):
        raise AnalysisError(f"{Q}: the bisection loop does not evaluate candidates")
    e2 = Engine(prog, fi, sc.SearchHooks(), loop_bound=1)
    st = State()
    L, R, S = Rat.atom("L"), Rat.atom("R"), Rat.atom("S")
    st.env.update({bn["left"]: L, bn["right"]: R, bn["ref_sign"]: S})
    if bn["counter"]:
        st.env[bn["counter"]] = Rat.atom("i")
    finals = e2.run_block(loop.body, [st])
    n = 0
    half = (L + R) / Rat.const(2)
    mids = [sym.call("ceil", [half]), sym.call("floor", [half]), sym.call("floordiv", [L + R, Rat.const(2)]), sym.call("int", [half])]
    for f in finals:
        if f.exit is not None and f.exit[0] == "break":
            # left when the midpoint coincides with an end
            from ..paths import Cond, make_cmp

            okb = False
            for m in mids:
                a, b_ = make_cmp(m, "==", L), make_cmp(m, "==", R)
                for c_ in (Cond("or", [a, b_]), Cond("or", [b_, a]), a, b_):
                    if f.decide(c_) is True:
                        okb = True
            res.ob("R05.2", "the loop leaves when the midpoint coincides with an end", okb, prog.loc(fi, loop))
            if not okb:
                res.violation("R05.2", "loop-exit", prog.loc(fi, loop), Q, "the bisection loop is left on a condition other than 'the midpoint coincides with an end'")
            continue
        evs = [e for e in f.events if e.kind == "EVAL"]
        if len(evs) != 1 or evs[0].data[4] is None:
            raise AnalysisError(f"{Q}: one evaluation of a domain field per bisection step expected")
        c = evs[0].data[4]
        okm = any(c.equals(x) for x in mids)
        n += 1
        res.ob("R05.2", f"midpoint is ceil|floor((l + r) / 2) (got {c.key()[:60]})", okm, prog.loc(fi, loop))
        if not okm:
            res.violation("R05.2", f"midpoint|{c.key()[:60]}", prog.loc(fi, loop), Q, f"the bisection midpoint is {c.key()[:100]} instead of ceil|floor((l + r) / 2)")
        ev = evs
        okidx = ev[0].data[4] is not None and ev[0].data[4].equals(c) and isinstance(ev[0].data[1], Rat) and ev[0].data[1].equals(sc.MAXH)
        res.ob("R05.2", "each step evaluates the midpoint field at max_height", okidx, prog.loc(fi, ev[0].node))
        if not okidx:
            res.violation("R05.2", "step-evaluation", prog.loc(fi, ev[0].node), Q, "the bisection step does not evaluate the midpoint field at max_height")
        csign = sym.call("sign", [ev[0].data[3]])
        same = f.sign_of(csign - S)
        if same != frozenset("0") and "0" in same:
            # the step compared something else with the reference sign: it is still a bisection on the excess only if that
            # something is -1 for a negative and +1 for a positive excess (however it is written)
            from ..paths import make_cmp as _mc
            from .hybrid_common import resolve_ite

            E = ev[0].data[3]
            cands = [c_ for c_ in ast.walk(loop) if isinstance(c_, ast.Compare) and len(c_.ops) == 1 and isinstance(c_.ops[0], (ast.Eq, ast.NotEq))
                     and any(isinstance(x, ast.Name) and x.id == bn["ref_sign"] for x in (c_.left, c_.comparators[0]))]
            if len(cands) != 1:
                raise AnalysisError(f"{Q}: a bisection step does not compare the midpoint's sign with the reference sign")
            other = cands[0].comparators[0] if isinstance(cands[0].left, ast.Name) and cands[0].left.id == bn["ref_sign"] else cands[0].left
            xv = e2.eval(other, f)
            faithful = isinstance(xv, Rat)
            shown = vkey(xv)[:100]
            if faithful:
                for op_, const_ in ((">", 1), ("<", -1)):
                    g = f.fork()
                    if not g.assume(_mc(E, op_, Rat.const(0)), True):
                        continue
                    v_ = resolve_ite(xv, g)
                    if not (v_.equals(Rat.const(const_)) or v_.equals(csign)):
                        faithful = False
                        shown = f"{vkey(v_)[:90]} when the excess is {'positive' if const_ > 0 else 'negative'}"
            res.ob("R05.2", "the step compares the SIGN OF THE EVALUATED EXCESS with the reference sign", faithful, prog.loc(fi, cands[0]))
            if not faithful:
                res.violation("R05.2", f"step-sign|{vkey(xv)[:60]}", prog.loc(fi, cands[0]), Q,
                              f"the bisection step compares {shown} with the reference sign instead of the sign of the excess it evaluated: a candidate that misses the limits can be taken as meeting them (or the reverse), "
                              "while the final pick still requires excess < 0 - candidates between the bracket ends are then never evaluated")
                continue
            same = f.sign_of(xv - S)
        nl, nr = f.env.get(bn["left"]), f.env.get(bn["right"])
        if same == frozenset("0"):
            okr = isinstance(nl, Rat) and nl.equals(c) and isinstance(nr, Rat) and nr.equals(R)
            res.ob("R05.2", "midpoint sign = reference sign -> the midpoint becomes the LEFT end, right end unchanged", okr, prog.loc(fi, loop))
            if not okr:
                res.violation("R05.2", f"role-same|{vkey(nl)[:30]}|{vkey(nr)[:30]}", prog.loc(fi, loop), Q,
                              f"when the midpoint has the sign of the left end the interval becomes [{vkey(nl)[:40]}, {vkey(nr)[:40]}] instead of [midpoint, r]: the bracket no longer contains the sign change")
        elif "0" not in same:
            okr = isinstance(nr, Rat) and nr.equals(c) and isinstance(nl, Rat) and nl.equals(L)
            res.ob("R05.2", "midpoint sign != reference sign -> the midpoint becomes the RIGHT end, left end unchanged", okr, prog.loc(fi, loop))
            if not okr:
                res.violation("R05.2", f"role-diff|{vkey(nl)[:30]}|{vkey(nr)[:30]}", prog.loc(fi, loop), Q,
                              f"when the midpoint's sign differs from the left end's the interval becomes [{vkey(nl)[:40]}, {vkey(nr)[:40]}] instead of [l, midpoint]")
        else:
            raise AnalysisError(f"{Q}: a bisection step does not compare the midpoint's sign with the reference sign")
        # recorded
        st_ev = [e for e in f.events if e.kind == "CT_STORE"]
        okc = len(st_ev) == 1 and st_ev[0].data[2] is not None and st_ev[0].data[2].equals(c) and isinstance(st_ev[0].data[1], Rat) and st_ev[0].data[1].equals(ev[0].data[3])
        res.ob("R05.2", "each step records the midpoint's excess under the midpoint's index", okc, prog.loc(fi, loop))
        if not okc:
            res.violation("R05.2", "step-record", prog.loc(fi, loop), Q, "the excess evaluated in a bisection step is not recorded under the index it was evaluated at (the final pick cannot see it)")
    res.count("bisection_step_paths", n)
    res.floor("bisection_step_paths", 2)


# ---------------------------------------------------------------------------
def _nested(prog: Program, res: Result):
    q = f"{SR}.BisectionZD.search_successive"
    fi = prog.func(q)
    res.analysed(q)
    fn = fi.node
    loop = next((n for n in ast.walk(fn) if isinstance(n, (ast.While, ast.For)) and any(isinstance(c_, ast.Call) and attr_chain(c_.func) == "self.search" for c_ in ast.walk(n))), None)
    if loop is None:
        raise AnalysisError(f"{q}: loop not found")
    # each candidate list starts from an empty record: the dictionary the per-list search fills (and which is kept per list under
    # calculated_temperatures_nested[i]) is a NEW one in every trip, created before the search of that list
    search_call = next((c_ for c_ in ast.walk(loop) if isinstance(c_, ast.Call) and attr_chain(c_.func) == "self.search"), None)
    resets = [a_ for a_ in ast.walk(loop) if isinstance(a_, ast.Assign) and any(attr_chain(t_) == "self.calculated_temperatures" for t_ in a_.targets)
              and ((isinstance(a_.value, ast.Dict) and not a_.value.keys) or (isinstance(a_.value, ast.Call) and attr_chain(a_.value.func) == "dict" and not a_.value.args and not a_.value.keywords))]
    okr = search_call is not None and any(a_.lineno < search_call.lineno for a_ in resets)
    res.ob("R05.3", "every candidate list is searched with a fresh, empty record of evaluations", okr, prog.loc(fi, loop))
    if not okr:
        res.violation("R05.3", "records-not-reset", prog.loc(fi, loop), q,
                      "the record of evaluated candidates is not emptied for every candidate list: indices evaluated in an earlier list stay in it (and every stored per-list record is the same "
                      "dictionary), so the final pick takes an index whose excess belongs to another list - a larger field than the smallest feasible one of the chosen list")
    # recorded drilling
    e = Engine(prog, fi, sc.SearchHooks())
    st = State()
    # the loop's list index: the local that subscripts self.coordinates_domain_nested inside the loop
    cnt = next((n.slice.id for n in ast.walk(loop) if isinstance(n, ast.Subscript) and attr_chain(n.value) == "self.coordinates_domain_nested" and isinstance(n.slice, ast.Name)), None)
    if cnt is None:
        raise AnalysisError(f"{q}: the loop does not index self.coordinates_domain_nested by a local")
    st.env[cnt] = Rat.atom("i")
    finals = [f for f in e.run_block(loop.body, [st]) if f.exit is None or f.exit[0] in ("break", "continue")]
    rec = None
    for f in finals:
        for k, v in f.env.items():
            if k.startswith("self.calculated_heights[") and isinstance(v, Rat):
                rec = (k, v, f)
    if rec is None:
        raise AnalysisError(f"{q}: recorded total drilling not found")
    k, v, f = rec
    want = sym.call("len", [Rat.atom("SEARCH_COORDS")]) * Rat.atom("self.ghe.bhe.b.H")
    ok = v.equals(want) and k == "self.calculated_heights[i]"
    res.ob("R05.3", f"per list the recorded drilling is len(selected field) * sized height (got {v.key()[:80]})", ok, prog.loc(fi, loop))
    if not ok:
        res.violation("R05.3", f"recorded-drilling|{v.key()[:60]}", prog.loc(fi, loop), q, f"the drilling recorded for a candidate list is {v.key()[:100]} under {k}, not len(selected field) * sized height under the list's index")
    sized_first = [e_.kind if e_.kind != "GHE" else e_.data for e_ in f.events if e_.kind in ("SEARCH", "GHE")]
    ok = sized_first[:3] == ["SEARCH", "compute_g_functions", "size"]
    res.ob("R05.3", f"the drilling is read after the list's selection has been sized ({sized_first})", ok, prog.loc(fi, loop))
    if not ok:
        res.violation("R05.3", f"drilling-before-size|{sized_first}", prog.loc(fi, loop), q, "the drilling of a candidate list is recorded before its selection is sized")
    # stop rule
    stop = [n for n in ast.walk(loop) if isinstance(n, ast.If) and any(isinstance(b, ast.Break) for b in n.body)]
    oks = False
    for n in stop:
        t = n.test
        if isinstance(t, ast.Compare) and len(t.ops) == 1 and isinstance(t.left, ast.Name) and isinstance(t.comparators[0], ast.Name):
            l_, r_ = t.left.id, t.comparators[0].id
            # 'previous < current' (or 'current > previous'): previous is the name re-assigned from current somewhere in the loop body
            pairs = {(s_.targets[0].id, s_.value.id) for s_ in ast.walk(loop) if isinstance(s_, ast.Assign) and len(s_.targets) == 1 and isinstance(s_.targets[0], ast.Name) and isinstance(s_.value, ast.Name)}
            if isinstance(t.ops[0], (ast.Lt, ast.LtE)) and (l_, r_) in pairs:
                oks = True
            if isinstance(t.ops[0], (ast.Gt, ast.GtE)) and (r_, l_) in pairs:
                oks = True
    res.ob("R05.3", "the scan over lists stops when the drilling increases (old < new)", oks, prog.loc(fi, loop))
    if not oks:
        res.violation("R05.3", "stop-rule", prog.loc(fi, loop), q, "the scan over candidate lists no longer stops when the total drilling starts to increase")
    # choice of the list: min over calculated_heights values, mapped through its keys
    pick = sc.dict_argopt(fn, "self.calculated_heights")
    if pick is None:
        raise AnalysisError(f"{q}: choice among the recorded drillings not found")
    ch = pick["node"]
    ok = pick["func"] == "min"
    res.ob("R05.3", f"the list with the MINIMUM recorded drilling is chosen ({norm_stmt(ch)[:60]})", ok, prog.loc(fi, ch))
    if not ok:
        res.violation("R05.3", "list-choice-not-min", prog.loc(fi, ch), q, f"'{norm_stmt(ch)[:80]}' chooses the candidate list by something other than the minimum total drilling")
    D = "self.calculated_heights"
    okm = pick["keys_src"] == f"list({D}.keys())" and pick["index_src"] == f"list({D}.values())" and pick["opt_src"] == f"list({D}.values())"
    if okm:
        outer = pick["target"]
        uses = [n for n in ast.walk(fn) if isinstance(n, ast.Subscript) and ast.unparse(n.slice) == outer and attr_chain(n.value) in ("self.calculated_temperatures_nested", "self.coordinates_domain_nested", "self.nested_fieldDescriptors")]
        okm = {attr_chain(u.value) for u in uses} >= {"self.calculated_temperatures_nested", "self.coordinates_domain_nested"}
    res.ob("R05.3", "the chosen drilling is mapped to its own list (keys of calculated_heights) whose evaluations and fields are then used", okm, prog.loc(fi, ch))
    if not okm:
        res.violation("R05.3", "list-mapping", prog.loc(fi, ch), q, "the minimum drilling is not mapped back to its own candidate list for the final selection")


def _tolerances(prog: Program, res: Result):
    q = "ghedesigner.ground_heat_exchangers.GHE.size"
    fi = prog.func(q)
    res.analysed(q)
    # the height is sized against the time-step method that was asked for: every simulate() of size() - in the objective handed
    # to the root finder and after it - receives size()'s own `method` parameter
    sim_fi = prog.method("ghedesigner.ground_heat_exchangers.GHE", "simulate")
    sims = [c for c in ast.walk(fi.node) if isinstance(c, ast.Call) and attr_chain(c.func) == "self.simulate"]
    if not sims:
        raise AnalysisError(f"{q}: no simulate() call found")
    mpar = next((p_ for p_ in fi.params() if p_ != "self"), None)
    for c in sims:
        b_ = bind_args(sim_fi, c)
        v_ = b_.get("method")
        okm = isinstance(v_, ast.Name) and v_.id == mpar
        res.ob("R05.4", f"size(): '{norm_stmt(c)[:50]}' simulates with the method size() was asked for", okm, prog.loc(fi, c))
        if not okm:
            res.violation("R05.4", f"size-method|{ast.unparse(v_)[:40] if v_ is not None else 'default'}", prog.loc(fi, c), q,
                          f"inside size() a simulation runs with method = {ast.unparse(v_) if v_ is not None else '<default>'} instead of size()'s own parameter: the height is the root of another method's excess than the one that is reported")
    calls = [c for c in ast.walk(fi.node) if isinstance(c, ast.Call) and attr_chain(c.func) == "solve_root"]
    if len(calls) != 1:
        raise AnalysisError(f"{q}: solve_root call not found")
    sr = prog.func("ghedesigner.utilities.solve_root")
    b = bind_args(sr, calls[0])
    dfl = sr.defaults()
    for name in ("abs_tol", "rel_tol"):
        v = b.get(name, dfl.get(name))
        if isinstance(v, ast.Name) and v.id in prog.modules[fi.module].constants:
            v = prog.modules[fi.module].constants[v.id]  # a named module-level constant
        try:
            val = float(ast.literal_eval(v))
        except Exception:
            raise AnalysisError(f"{q}: tolerance {name} is not a literal")
        ok = 0 < val <= 1.0e-6
        res.ob("R05.4", f"size(): {name} = {val:g} <= 1e-6", ok, prog.loc(fi, calls[0]))
        if not ok:
            res.violation("R05.4", f"tolerance|{name}|{val:g}", prog.loc(fi, calls[0]), q, f"size() solves the height with {name} = {val:g}; the binding limit is then met only to that (coarser) tolerance")
    mi = b.get("max_iter", dfl.get("max_iter"))
    if isinstance(mi, ast.Name) and mi.id in prog.modules[fi.module].constants:
        mi = prog.modules[fi.module].constants[mi.id]
    try:
        mv = int(ast.literal_eval(mi))
    except Exception:
        raise AnalysisError(f"{q}: max_iter is not a literal")
    ok = mv >= 30
    res.ob("R05.4", f"size(): at least 30 Brent iterations allowed (max_iter = {mv})", ok, prog.loc(fi, calls[0]))
    if not ok:
        res.violation("R05.4", f"max_iter|{mv}", prog.loc(fi, calls[0]), q, f"size() allows only {mv} Brent iterations: the root may not be reached to tolerance")


GHX = "ghedesigner.ground_heat_exchangers"

_TAIL = """        keys = list(self.calculated_temperatures.keys())
        values = list(self.calculated_temperatures.values())

        # theoretically, the biggest negative value should be the field that is just undersized
        negative_excess_values = [v for v in values if v <= 0.0]
        excess_of_interest = max(negative_excess_values)

        # but some conditions don't yield this result
        # adding a check here to ensure we pick the smallest field with
        # negative excess temperature
        num_bh = [len(self.coordinates_domain[x]) for x in keys]
        sorted_num_bh, sorted_values = (list(t) for t in zip(*sorted(zip(num_bh, values))))
        for _, val in zip(sorted_num_bh, sorted_values):
            if val < 0:
                if excess_of_interest != val:
                    print(
                        'Loads resulted in odd behavior requiring the selected field configuration \\n'
                        'to be reset to the smallest field with negative excess temperature. \\n'
                        'Please forward the inputs to the developers for investigation.'
                    )
                excess_of_interest = val
                break

        idx = values.index(excess_of_interest)
        selection_key = keys[idx]
"""

VARIANTS = [
    Variant("per-list record of evaluations emptied once before the loop over candidate lists (seeded C05_k)", "break",
            [(SR, "        old_height = 99999\n", "        old_height = 99999\n        self.calculated_temperatures = {}\n"),
             (SR, "            self.fieldDescriptors = self.nested_fieldDescriptors[i]\n            self.calculated_temperatures = {}\n", "            self.fieldDescriptors = self.nested_fieldDescriptors[i]\n")], "R05.3"),
    Variant("per-list record of evaluations created with dict()", "benign",
            [(SR, "            self.fieldDescriptors = self.nested_fieldDescriptors[i]\n            self.calculated_temperatures = {}\n", "            self.fieldDescriptors = self.nested_fieldDescriptors[i]\n            self.calculated_temperatures = dict()\n")]),
    Variant("midpoint counted as feasible when its excess is within 0.01 K of the limit (seeded C05_e)", "break",
            [(SR, "            c_sign = sign(c_t_excess)\n", "            c_sign = sign(c_t_excess) if abs(c_t_excess) > 1.0e-2 else -1\n")], "R05.2"),
    Variant("midpoint sign written as a conditional expression on the excess", "benign",
            [(SR, "            c_sign = sign(c_t_excess)\n", "            c_sign = -1 if c_t_excess < 0 else 1\n")]),
    Variant("iteration budget derived in the constructor from the first candidate list (seeded C05_f)", "break",
            [(SR, "        self.fieldDescriptors = field_descriptors\n        self.max_iter = max_iter\n", "        self.fieldDescriptors = field_descriptors\n        self.max_iter = min(max_iter, max(1, ceil(sqrt(len(coordinates_domain)))))\n")], "R05.6"),
    Variant("constructor caches the length of the candidate list it is given", "break",
            [(SR, "        self.fieldDescriptors = field_descriptors\n        self.max_iter = max_iter\n", "        self.fieldDescriptors = field_descriptors\n        self.max_iter = max_iter\n        self.n_candidates = len(coordinates_domain)\n")], "R05.6"),
    Variant("sizing objective always simulates with the hybrid time step (seeded C05_d)", "break",
            [(GHX, "            self.bhe.b.H = h\n            max_hp_eft, min_hp_eft = self.simulate(method=method)", "            self.bhe.b.H = h\n            max_hp_eft, min_hp_eft = self.simulate(method=TimestepType.HYBRID)")], "R05.4"),
    Variant("final pick rewritten as arg-max of the excess among feasible candidates", "break",
            [(SR, _TAIL, "        negative_excess = {k: v for k, v in self.calculated_temperatures.items() if v <= 0.0}\n        selection_key = max(negative_excess, key=negative_excess.get)\n")], "R05.1"),
    Variant("final pick rewritten as arg-min of the field size among feasible candidates", "benign",
            [(SR, _TAIL, "        feasible = [k for k, v in self.calculated_temperatures.items() if v <= 0.0]\n        selection_key = min(feasible, key=lambda k: len(self.coordinates_domain[k]))\n")]),

    Variant("bracket updates swapped", "break",
            [(SR, "            if c_sign == x_l_sign:\n                x_l_idx = c_idx\n            else:\n                x_r_idx = c_idx", "            if c_sign == x_l_sign:\n                x_r_idx = c_idx\n            else:\n                x_l_idx = c_idx")], "R05.2"),
    Variant("candidates sorted descending", "break",
            [(SR, "zip(*sorted(zip(num_bh, values))))", "zip(*sorted(zip(num_bh, values), reverse=True)))")], "R05.1"),
    Variant("search_successive keeps the list with the largest drilling", "break",
            [(SR, "        minimum_total_drilling = min(values)", "        minimum_total_drilling = max(values)")], "R05.3"),
    Variant("reference sign taken at the right end", "break", [(SR, "        x_l_sign = sign(t_0_upper)", "        x_l_sign = sign(t_m1)")], "R05.2"),
    Variant("scan does not stop at the first feasible candidate", "break",
            [(SR, "                excess_of_interest = val\n                break\n", "                excess_of_interest = val\n")], "R05.1"),
    Variant("drilling recorded with max_height instead of the sized height", "break",
            [(SR, "            total_drilling = nbh * self.ghe.bhe.b.H\n            self.calculated_heights[i] = total_drilling", "            total_drilling = nbh * self.sim_params.max_height\n            self.calculated_heights[i] = total_drilling")], "R05.3"),
    Variant("sizing tolerance loosened to 0.5 m", "break", [(GHX, "            abs_tol=1.0e-6,\n            rel_tol=1.0e-6,", "            abs_tol=0.5,\n            rel_tol=1.0e-6,")], "R05.4"),
    Variant("midpoint excess not recorded", "break", [(SR, "            self.calculated_temperatures[c_idx] = c_t_excess\n", "")], "R05.2"),
    Variant("midpoint rounded down", "benign", [(SR, "            c_idx = ceil((x_l_idx + x_r_idx) / 2)", "            c_idx = (x_l_idx + x_r_idx) // 2")]),
    Variant("c_idx renamed", "benign",
            [(SR, """            c_idx = ceil((x_l_idx + x_r_idx) / 2)
            # if the solution is no longer making progress break the while
            # if c_idx == x_l_idx or c_idx == x_r_idx:
            if c_idx in (x_l_idx, x_r_idx):
                break

            c_t_excess = self.calculate_excess(
                self.coordinates_domain[c_idx],
                self.sim_params.max_height,
                field_specifier=self.fieldDescriptors[c_idx],
            )

            self.calculated_temperatures[c_idx] = c_t_excess
            c_sign = sign(c_t_excess)

            if c_sign == x_l_sign:
                x_l_idx = c_idx
            else:
                x_r_idx = c_idx""", """            mid = ceil((x_l_idx + x_r_idx) / 2)
            if mid == x_l_idx or mid == x_r_idx:
                break

            c_t_excess = self.calculate_excess(
                self.coordinates_domain[mid],
                self.sim_params.max_height,
                field_specifier=self.fieldDescriptors[mid],
            )

            self.calculated_temperatures[mid] = c_t_excess
            c_idx = mid
            if sign(c_t_excess) == x_l_sign:
                x_l_idx = mid
            else:
                x_r_idx = mid""")]),
]
