"""alpha-renaming of every function-local variable of the package (behaviour preserving): robustness probe for the rules.
usage: /venv/bin/python tools/rename_locals.py [Cxx ...]     prints, per check, whether the verdict is unchanged"""
import ast
import sys

sys.path.insert(0, "/verif")


from ghverif.selftest import _Renamer  # noqa: E402


def rename_sources(sources: dict, suffix: str = "_x") -> dict:
    return {m: (s if m.startswith(("schema:", "file:")) else _Renamer.module(s, suffix)) for m, s in sources.items()}


if __name__ == "__main__":
    from ghverif.cli import RULES, run_check
    from ghverif.model import AnalysisError, load_sources

    src = load_sources("/repo")
    out = rename_sources(src)
    for m, s in out.items():
        if not m.startswith(("schema:", "file:")):
            compile(s, m, "exec")
    for p in sys.argv[1:] or list(RULES):
        try:
            _, r0 = run_check(p, src, "quick")
            _, r1 = run_check(p, out, "quick")
            k0 = {f.key for f in r0.findings}
            k1 = {f.key for f in r1.findings}
            print(p, "ok" if k0 == k1 and not r1.floor_failures() else f"DIFF new={sorted(k1 - k0)[:3]} floors={r1.floor_failures()}")
        except AnalysisError as e:
            print(p, "ANALYSIS-ERROR", str(e)[:300])
        except Exception as e:  # noqa: BLE001
            import traceback
            print(p, "CRASH", type(e).__name__, str(e)[:200]); traceback.print_exc()
