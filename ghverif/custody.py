"""Chain of custody of a container value: where does the value an expression denotes come from, and is it still the
same sequence of elements?

root_of(fn, expr) follows an expression back through
  * plain locals (every binding of the local must lead to the same root),
  * value-preserving wrappers  list(x) tuple(x) x.copy() copy.copy(x) copy.deepcopy(x) np.array(x) np.asarray(x),
  * identity comprehensions  [(a, b) for a, b in X]  [tuple(t) for t in X]  [t for t in X]
and answers
  ('param', name)          the value of a parameter of fn, unchanged
  ('chain', 'self.a.b')    an attribute chain read
  ('elem', 'p[i]')         one element picked from a parameter / attribute chain (a field out of a domain)
  ('call', Call node)      the result of some other call
  ('broken', node, why)    provably a different sequence: elements computed, filtered, sliced, reordered, or the local is
                           mutated in place on the way
  ('unknown', node, why)   none of the above (callers fail closed)
"""
from __future__ import annotations

import ast
from typing import Tuple

from .model import MUTATORS, attr_chain, walk_no_nested

PRESERVING_CALLS = {"list", "tuple", "copy.copy", "copy.deepcopy", "deepcopy", "np.array", "np.asarray", "numpy.array", "numpy.asarray"}
REORDERING_CALLS = {"sorted", "reversed", "set", "frozenset", "filter", "map", "zip", "enumerate"}


def _params(fn: ast.FunctionDef):
    a = fn.args
    return [x.arg for x in a.posonlyargs + a.args + a.kwonlyargs]


def _bindings(fn: ast.AST, name: str):
    """[(value or None, position or None, stmt)] - None value = a binding this module does not follow (loop target, with, aug-assign)"""
    out = []
    for s in walk_no_nested(fn):
        if isinstance(s, ast.Assign):
            for t in s.targets:
                if isinstance(t, ast.Name) and t.id == name:
                    out.append((s.value, None, s))
                elif isinstance(t, (ast.Tuple, ast.List)):
                    for k, e in enumerate(t.elts):
                        if isinstance(e, ast.Name) and e.id == name:
                            out.append((s.value, k, s))
                        elif any(isinstance(x, ast.Name) and x.id == name for x in ast.walk(e)):
                            out.append((None, None, s))
        elif isinstance(s, (ast.AugAssign, ast.AnnAssign)) and isinstance(s.target, ast.Name) and s.target.id == name:
            out.append((None, None, s))
        elif isinstance(s, ast.For) and any(isinstance(x, ast.Name) and x.id == name for x in ast.walk(s.target)):
            out.append((None, None, s))
        elif isinstance(s, ast.withitem) and s.optional_vars is not None and any(isinstance(x, ast.Name) and x.id == name for x in ast.walk(s.optional_vars)):
            out.append((None, None, s))
        elif isinstance(s, ast.NamedExpr) and s.target.id == name:
            out.append((s.value, None, s))
    return out


def in_place_mutation(fn: ast.AST, name: str):
    """first statement of fn that mutates the container bound to the plain name in place, or None"""
    for n in walk_no_nested(fn):
        if isinstance(n, ast.Call) and isinstance(n.func, ast.Attribute) and n.func.attr in MUTATORS and isinstance(n.func.value, ast.Name) and n.func.value.id == name:
            return n
        if isinstance(n, (ast.Subscript,)) and isinstance(n.ctx, (ast.Store, ast.Del)) and isinstance(n.value, ast.Name) and n.value.id == name:
            return n
        if isinstance(n, ast.AugAssign) and isinstance(n.target, ast.Name) and n.target.id == name:
            return n
    return None


def _identity_elt(target: ast.expr, elt: ast.expr) -> bool:
    """is `elt` the loop element itself (possibly re-tupled)?"""
    if isinstance(elt, ast.Call) and attr_chain(elt.func) in ("tuple", "list") and len(elt.args) == 1 and not elt.keywords:
        return _identity_elt(target, elt.args[0])
    if isinstance(target, ast.Name):
        if isinstance(elt, ast.Name):
            return elt.id == target.id
        if isinstance(elt, (ast.Tuple, ast.List)) and elt.elts:
            # (t[0], t[1], ...)
            return all(isinstance(e, ast.Subscript) and isinstance(e.value, ast.Name) and e.value.id == target.id and isinstance(e.slice, ast.Constant) and e.slice.value == k
                       for k, e in enumerate(elt.elts))
        return False
    if isinstance(target, (ast.Tuple, ast.List)) and isinstance(elt, (ast.Tuple, ast.List)):
        return len(target.elts) == len(elt.elts) and all(isinstance(a, ast.Name) and isinstance(b, ast.Name) and a.id == b.id for a, b in zip(target.elts, elt.elts))
    return False


def root_of(fn: ast.FunctionDef, expr: ast.expr, depth: int = 8, _seen=None) -> Tuple:
    if depth <= 0:
        return ("unknown", expr, "definition chain too deep")
    _seen = _seen or set()
    if isinstance(expr, ast.Name):
        binds = _bindings(fn, expr.id)
        mut = in_place_mutation(fn, expr.id)
        if mut is not None:
            return ("broken", mut, f"'{expr.id}' is modified in place")
        if not binds:
            if expr.id in _params(fn):
                return ("param", expr.id)
            return ("unknown", expr, f"'{expr.id}' has no binding in the function")
        if expr.id in _params(fn):
            return ("unknown", binds[0][2], f"parameter '{expr.id}' is rebound")
        if expr.id in _seen:
            return ("unknown", expr, f"'{expr.id}' is defined through itself")
        roots = []
        for v, pos, stmt in binds:
            if v is None:
                return ("unknown", stmt, f"'{expr.id}' is bound by a statement that is not a plain assignment")
            if pos is not None:
                if isinstance(v, (ast.Tuple, ast.List)) and pos < len(v.elts):
                    v = v.elts[pos]
                else:
                    return ("unknown", stmt, f"'{expr.id}' is unpacked from {ast.unparse(v)[:60]}")
            roots.append(root_of(fn, v, depth - 1, _seen | {expr.id}))
        bad = next((r for r in roots if r[0] == "broken"), None)
        if bad:
            return bad
        unk = next((r for r in roots if r[0] == "unknown"), None)
        if unk:
            return unk
        keys = {(r[0], r[1] if r[0] != "call" else ast.unparse(r[1])) for r in roots}
        if len(keys) == 1:
            return roots[0]
        return ("unknown", binds[0][2], f"'{expr.id}' has bindings with different origins")
    if isinstance(expr, ast.Attribute):
        ch = attr_chain(expr)
        if ch is not None:
            head, _, rest = ch.partition(".")
            if head not in _params(fn) and _bindings(fn, head):
                # a local standing for an object: follow it, then read the attribute path off its origin
                b = root_of(fn, ast.Name(id=head, ctx=ast.Load()), depth - 1, _seen)
                if b[0] in ("param", "chain"):
                    return ("chain", f"{b[1]}.{rest}")
                return b if b[0] in ("broken", "unknown") else ("unknown", expr, f"attribute of {b[0]}")
            return ("chain", ch)
        return ("unknown", expr, "attribute of a computed object")
    if isinstance(expr, ast.Call):
        cn = attr_chain(expr.func)
        if cn in PRESERVING_CALLS and len(expr.args) >= 1 and not any(isinstance(a, ast.Starred) for a in expr.args):
            return root_of(fn, expr.args[0], depth - 1, _seen)
        if isinstance(expr.func, ast.Attribute) and expr.func.attr == "copy" and not expr.args:
            return root_of(fn, expr.func.value, depth - 1, _seen)
        if cn in REORDERING_CALLS:
            return ("broken", expr, f"{cn}(...) builds a different sequence")
        return ("call", expr)
    if isinstance(expr, (ast.ListComp, ast.GeneratorExp)):
        if len(expr.generators) != 1:
            return ("broken", expr, "nested comprehension builds a different sequence")
        g = expr.generators[0]
        if g.ifs:
            return ("broken", expr, "the comprehension filters its source")
        if _identity_elt(g.target, expr.elt):
            return root_of(fn, g.iter, depth - 1, _seen)
        return ("broken", expr, f"each element is computed ({ast.unparse(expr.elt)[:60]}) instead of taken over")
    if isinstance(expr, ast.Subscript):
        if isinstance(expr.slice, ast.Slice):
            s = expr.slice
            if s.lower is None and s.upper is None and s.step is None:
                return root_of(fn, expr.value, depth - 1, _seen)
            return ("broken", expr, "a slice drops or reorders elements")
        b = root_of(fn, expr.value, depth - 1, _seen)
        if b[0] in ("param", "chain", "elem"):
            return ("elem", f"{b[1]}[{ast.unparse(expr.slice)}]")
        return b if b[0] == "broken" else ("unknown", expr, "an element of something not followed")
    if isinstance(expr, ast.BinOp):
        return ("broken", expr, "arithmetic on the container")
    if isinstance(expr, (ast.List, ast.Tuple, ast.Set, ast.Dict, ast.Constant, ast.SetComp, ast.DictComp)):
        return ("broken", expr, "a literal / newly built container")
    if isinstance(expr, ast.IfExp):
        a, b = root_of(fn, expr.body, depth - 1, _seen), root_of(fn, expr.orelse, depth - 1, _seen)
        if a[0] == "broken":
            return a
        if b[0] == "broken":
            return b
        if a[:2] == b[:2] and a[0] in ("param", "chain", "elem"):
            return a
        return ("unknown", expr, "two alternatives with different origins")
    return ("unknown", expr, f"{type(expr).__name__} not followed")
