#!/bin/sh
# usage: tools/regress_refactors.sh [dir]   - every benign refactor <dir>/<P>/r<k>/patch.diff against all checks (8 at a time);
#   prints only the checks that did not pass: rc=1 is a FALSE ALARM (to be fixed in the machinery), rc=2 fails closed
D="${1:-/verif/refactors/round1}"
ls "$D"/*/r*/patch.diff | xargs -P 8 -I{} sh -c 'o=$(/verif/tools/try_seed.sh {} | grep -v "rc=0" | cut -c1-200 | tr "\n" "|"); echo "{}: $o"' | sort
