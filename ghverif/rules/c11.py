"""C11 - the combined g-function is well formed (structural part).

Not decided: that interpolation reproduces stored curves (scipy), agreement with the analytical finite line
source, strict monotonicity of the joined axis when a short-time abscissa EQUALS the first long-time one.
Decided:
  R11.1  join: in combine_sts_lts both branches concatenate short-time then long-time, for abscissae and
         values alike; the truncation index applied to the short-time abscissae and values is the same; the
         index walks from 0 while the short-time abscissa is <= the first long-time abscissa, i.e. it stops at
         the first short-time point beyond it; the untruncated branch is taken only when the whole short-time
         curve lies before the long-time one; the interpolant is built from (abscissae, values) in that order
  R11.2  radius correction: every value becomes g - ln(rb_star / rb) (identity for equal radii, additive in
         ln of the ratio); grab_g_function corrects from the radius stored with the curves to the actual
         borehole radius
  R11.3  sources: the simulation curve joins radial_numerical.g, the wall curve radial_numerical.g_bhw, both
         with radial_numerical.lntts and the same corrected long-time values on gFunction.log_time, and they
         are returned in the order (g, g_bhw)
  R11.5  height interpolation: per time index the interpolant is built from (h, g_lts[h][i]) of every stored height,
         evaluated in time order; the radius table pairs h with r_b_values[h]
  R11.4  long-time curves: t_s = H^2 / (9 alpha) with alpha = k / rhoCp, times = exp(log_time) * t_s, one
         curve and one radius stored per height; boundary condition MIFT, 8 unequal segments, equivalent
         solver are the defaults and no caller overrides them; the equivalent height is B / (B/H)
  R11.8  a height within the tolerance of a stored bound is moved onto THAT bound
  R11.7  every return of g_function_interpolation pairs a curve with the radius of the SAME height: a stored curve
         g_lts[K] is returned with r_b_values[K] (the same key expression), an interpolated curve with the radius
         table evaluated at the same equivalent height
  R11.6  long-time axis: walking back from GFunction.log_time through every store, constructor parameter and call
         site, the axis is handed over unchanged (no sort / slice / arithmetic / in-place change) and originates
         only from eskilson_log_times() (or from the object's own gFunction.log_time in the rebuild); that function
         returns one literal table whose entries are strictly increasing - the premise R11.1 builds on
"""
from __future__ import annotations

import ast

from .. import sym
from ..model import AnalysisError, as_increment, inline_single_defs, Program, attr_chain, bind_args, norm_stmt
from ..paths import Arr, Const, Engine, Hooks, Opaque, Seq, State, vkey
from ..report import Result
from ..selftest import Variant
from ..sym import Rat

PROP = "C11"
TITLE = "Combined g-function: join, radius correction, sources, long-time set-up"
EXPLANATION = (
    "Syntax-directed checks of combine_sts_lts (operand order of the concatenations, shared truncation index, loop "
    "shape), normal form of the radius correction, argument flow in grab_g_function, normal forms and defaults in the "
    "long-time g-function set-up."
)
ASSUMPTIONS = ["scipy interp1d interpolates its nodes", "pygfunction computes the requested boundary condition"]

GHX = "ghedesigner.ground_heat_exchangers"
GF = "ghedesigner.gfunction"


def check(prog: Program, tier: str) -> Result:
    res = Result(PROP)
    _join(prog, res)
    _correction(prog, res)
    _sources(prog, res)
    _longtime(prog, res)
    _interp_table(prog, res)
    _axis(prog, res)
    _return_pairs(prog, res)
    _snaps(prog, res)
    return res


def _snaps(prog: Program, res: Result):
    """R11.8: `if abs(x - bound) < tol: x = value` moves x onto a bound it is already within tol of - the value assigned must be
    THAT bound (whatever locals the two are written through); anything else replaces the requested height by another one"""
    from .search_common import expand_locals

    q = f"{GF}.GFunction.g_function_interpolation"
    fi = prog.func(q)
    n = 0
    for node in ast.walk(fi.node):
        if not (isinstance(node, ast.If) and isinstance(node.test, ast.Compare) and len(node.test.ops) == 1 and isinstance(node.test.ops[0], (ast.Lt, ast.LtE))):
            continue
        l = node.test.left
        if not (isinstance(l, ast.Call) and attr_chain(l.func) == "abs" and len(l.args) == 1 and isinstance(l.args[0], ast.BinOp) and isinstance(l.args[0].op, ast.Sub)):
            continue
        a, b = l.args[0].left, l.args[0].right
        for s_ in node.body:
            if not (isinstance(s_, ast.Assign) and len(s_.targets) == 1 and isinstance(s_.targets[0], ast.Name)):
                continue
            x = s_.targets[0].id
            other = b if (isinstance(a, ast.Name) and a.id == x) else (a if (isinstance(b, ast.Name) and b.id == x) else None)
            if other is None:
                continue
            n += 1
            want = ast.unparse(expand_locals(fi.node, other, node.lineno))
            got = ast.unparse(expand_locals(fi.node, s_.value, s_.lineno))
            ok = want == got
            res.ob("R11.8", f"'{ast.unparse(node.test)[:50]}' snaps {x} onto the bound it was compared with ({got[:40]})", ok, prog.loc(fi, s_))
            if not ok:
                res.violation("R11.8", f"snap|{want[:40]}|{got[:40]}", prog.loc(fi, s_), q,
                              f"within the tolerance of {want[:60]} the requested height is replaced by {got[:60]}: the curve of another height is returned for it")
    res.count("bound_snaps", n)
    res.floor("bound_snaps", 2)


def _return_pairs(prog: Program, res: Result):
    q = f"{GF}.GFunction.g_function_interpolation"
    fi = prog.func(q)
    from ..model import walk_no_nested

    rets = [r for r in walk_no_nested(fi.node) if isinstance(r, ast.Return) and r.value is not None]
    eng = Engine(prog, fi, Hooks())
    n = 0
    for r in rets:
        v = r.value
        if not (isinstance(v, ast.Tuple) and len(v.elts) >= 2):
            raise AnalysisError(f"{q}: a return is not (curve, radius, ...)")
        curve = inline_single_defs(fi.node, v.elts[0], depth=2)
        rad = inline_single_defs(fi.node, v.elts[1], depth=2)
        # a local bound more than once (g_function / rb are assigned in several branches): take the binding in the same block
        def local_def(name_node, ret):
            if not isinstance(name_node, ast.Name):
                return name_node
            best = None
            for s_ in walk_no_nested(fi.node):
                if isinstance(s_, ast.Assign) and len(s_.targets) == 1 and isinstance(s_.targets[0], ast.Name) and s_.targets[0].id == name_node.id and s_.lineno < ret.lineno:
                    if best is None or s_.lineno > best.lineno:
                        best = s_
            return best.value if best is not None else name_node
        curve = local_def(curve, r)
        rad = local_def(rad, r)
        if isinstance(curve, ast.Subscript) and attr_chain(curve.value) == "self.g_lts":
            n += 1
            st = State()
            for p_ in fi.params():
                st.env[p_] = Rat.atom(p_)
            kc = ast.unparse(inline_single_defs(fi.node, curve.slice, depth=2))
            ok = isinstance(rad, ast.Subscript) and attr_chain(rad.value) == "self.r_b_values" and ast.unparse(inline_single_defs(fi.node, rad.slice, depth=2)) == kc
            res.ob("R11.7", f"a stored curve g_lts[{kc}] is returned with the radius stored for the same height", ok, prog.loc(fi, r))
            if not ok:
                res.violation("R11.7", f"pair|{kc}|{ast.unparse(rad)[:40]}", prog.loc(fi, r), q,
                              f"the curve stored for height {kc} is returned together with the radius {ast.unparse(rad)[:60]}: the radius correction then uses the radius of another height")
        elif len(v.elts) == 4:
            he = ast.unparse(v.elts[3])
            okr = (isinstance(rad, ast.Call) and isinstance(rad.func, ast.Subscript) and attr_chain(rad.func.value) == "self.interpolation_table"
                   and isinstance(rad.func.slice, ast.Constant) and rad.func.slice.value == "rb" and len(rad.args) == 1 and ast.unparse(rad.args[0]) == he)
            res.ob("R11.7", f"the interpolated curve is returned with the radius table evaluated at the same height ({he})", okr, prog.loc(fi, r))
            if not okr:
                res.violation("R11.7", f"pair-interp|{ast.unparse(rad)[:50]}", prog.loc(fi, r), q,
                              f"the interpolated curve (at {he}) is returned with the radius {ast.unparse(rad)[:60]}, which is not the radius table evaluated at that height")
    res.count("interpolation_returns", len(rets))
    res.floor("interpolation_returns", 2)
    if n < 1:
        raise AnalysisError(f"{q}: the single-curve return (stored curve with its radius) was not found")


def _num(e):
    if isinstance(e, ast.Constant) and isinstance(e.value, (int, float)) and not isinstance(e.value, bool):
        return float(e.value)
    if isinstance(e, ast.UnaryOp) and isinstance(e.op, (ast.USub, ast.UAdd)) and isinstance(e.operand, ast.Constant) and isinstance(e.operand.value, (int, float)):
        return -float(e.operand.value) if isinstance(e.op, ast.USub) else float(e.operand.value)
    return None


def _axis(prog: Program, res: Result):
    from ..custody import Walk, root_of
    from ..model import walk_no_nested

    w = Walk(prog)
    w.from_attr(f"{GF}.GFunction", "log_time")
    seen = set()
    for d, f_, n in w.links:
        if d not in seen:
            seen.add(d)
            res.ob("R11.6", f"long-time axis handed over unchanged: {d}", True, prog.loc(f_, n))
            res.analysed(f_.qualname)
    for d, f_, n, why in w.broken:
        res.ob("R11.6", f"long-time axis handed over unchanged: {d}", False, prog.loc(f_, n))
        res.violation("R11.6", f"axis-custody|{d.split(':')[-1].strip()[:50]}", prog.loc(f_, n), f_.qualname, f"the long-time ln(t/ts) axis is changed on its way into the g-function object: at '{d}' {why}")
    producers = set()
    for kind, text, f_, n in w.sources:
        ok = kind == "none" or (kind == "chain" and text == "self.gFunction.log_time")
        if kind == "call":
            producers.add(text.split("(")[0].split(".")[-1])
            ok = text.split("(")[0].split(".")[-1] == "eskilson_log_times"
        res.ob("R11.6", f"origin of the long-time axis: {kind} {text}", ok, prog.loc(f_, n))
        if not ok:
            res.violation("R11.6", f"axis-origin|{kind}|{text[:40]}", prog.loc(f_, n), f_.qualname, f"the long-time axis originates from {text} ({kind}), not from the table of Eskilson's log-times")
    res.count("axis_links", len(seen))
    if not w.broken:
        res.floor("axis_links", 5)
    if "eskilson_log_times" not in producers:
        if not any(f.rule == "R11.6" for f in res.findings):
            raise AnalysisError("eskilson_log_times() is not the origin of any long-time axis")
        return
    fi = prog.func("ghedesigner.utilities.eskilson_log_times")
    res.analysed(fi.qualname)
    rets = [x for x in walk_no_nested(fi.node) if isinstance(x, ast.Return)]
    tables = []
    for r_ in rets:
        v = r_.value
        if isinstance(v, ast.Name):
            rr = [s_.value for s_ in walk_no_nested(fi.node) if isinstance(s_, ast.Assign) and len(s_.targets) == 1 and isinstance(s_.targets[0], ast.Name) and s_.targets[0].id == v.id]
            v = rr[0] if len(rr) == 1 else v
        if not isinstance(v, (ast.List, ast.Tuple)) or any(_num(e) is None for e in v.elts):
            raise AnalysisError(f"{fi.qualname}: does not return a literal table of numbers - its order cannot be decided statically")
        tables.append(([_num(e) for e in v.elts], r_))
    if not tables:
        raise AnalysisError(f"{fi.qualname}: no return")
    for t, r_ in tables:
        bad = [(i, a, b) for i, (a, b) in enumerate(zip(t, t[1:])) if not a < b]
        res.ob("R11.6", f"eskilson_log_times(): {len(t)} entries, strictly increasing", not bad and len(t) >= 2, prog.loc(fi, r_))
        if bad or len(t) < 2:
            i, a, b = bad[0] if bad else (0, None, None)
            res.violation("R11.6", f"axis-order|{i}", prog.loc(fi, r_), fi.qualname, f"the long-time ln(t/ts) table is not strictly increasing: entry {i} = {a} is followed by {b}" if bad else "the long-time table has fewer than two entries")


def _join_semantic(prog: Program, res: Result) -> bool:
    """R11.1 decided on paths instead of on the shape of the code.  On every path to the interpolant, the joined abscissae
    must be  log_time_sts[0:c] + log_time_lts  (values: g_sts[0:c] + g_lts, same cut c) and the path must have ESTABLISHED,
    by the comparisons it made, that (given ascending short-time abscissae)
        every kept short-time point is <= the first long-time point:  c == 0, or  sts[c-1] <= min(lts) was assumed, or
                                                                        max(sts) < min(lts) / sts[last] < min(lts) for a full join
        the cut is maximal:                                            c == len(sts), or  sts[c] > min(lts) was assumed
    -> True if every path was decided (obligations / violations recorded), False if the shapes were not understood"""
    q = f"{GHX}.BaseGHE.combine_sts_lts"
    fi = prog.func(q)
    fn = fi.node
    itp = [c for c in ast.walk(fn) if isinstance(c, ast.Call) and attr_chain(c.func) == "interp1d"]
    if not itp or any(len(c.args) < 2 for c in itp):
        return False
    STS, LTS, GS, GL = "log_time_sts", "log_time_lts", "g_sts", "g_lts"
    PARAMS = (STS, LTS, GS, GL)
    xname, yname = "x", "y"

    # pieces and joins are followed through locals on each path: a piece is (parameter, cut) with cut = 'FULL' or the value
    # of the slice's upper bound WHEN THE PIECE WAS TAKEN; a join is (piece, piece)
    def piece(e, st, eng):
        if isinstance(e, ast.Name):
            if e.id in PARAMS and f"piece:{e.id}" not in st.env:
                return (e.id, "FULL")
            return st.env.get(f"piece:{e.id}")
        if isinstance(e, ast.Subscript) and isinstance(e.slice, ast.Slice) and e.slice.step is None and isinstance(e.value, ast.Name):
            base = piece(e.value, st, eng)
            if base is None or base[1] != "FULL":
                return None
            lo = eng.eval(e.slice.lower, st) if e.slice.lower is not None else Rat.const(0)
            cut = eng.eval(e.slice.upper, st) if e.slice.upper is not None else "FULL"
            if not (isinstance(lo, Rat) and lo.is_zero()) or not (cut == "FULL" or isinstance(cut, Rat)):
                return (base[0], None)
            return (base[0], cut)
        return None

    def join(e, st, eng):
        if isinstance(e, ast.Name):
            return st.env.get(f"join:{e.id}")
        if isinstance(e, ast.BinOp) and isinstance(e.op, ast.Add):
            l, r = piece(e.left, st, eng), piece(e.right, st, eng)
            if l is not None and r is not None:
                return (l, r)
        return None

    class H(Hooks):
        def on_stmt(self, s_, st, eng):
            if isinstance(s_, ast.Assign) and len(s_.targets) == 1:
                t_, v_ = s_.targets[0], s_.value
                pairs = [(t_, v_)] if isinstance(t_, ast.Name) else (list(zip(t_.elts, v_.elts)) if isinstance(t_, ast.Tuple) and isinstance(v_, ast.Tuple) and len(t_.elts) == len(v_.elts) else [])
                hit = False
                for tt, vv in pairs:
                    if not isinstance(tt, ast.Name):
                        continue
                    j = join(vv, st, eng) if isinstance(vv, (ast.BinOp, ast.Name)) else None
                    pc = piece(vv, st, eng) if isinstance(vv, (ast.Name, ast.Subscript)) else None
                    if j is None and pc is None:
                        continue  # evaluated by the engine; on_assign drops what the name stood for
                    st.env.pop(f"join:{tt.id}", None)
                    st.env.pop(f"piece:{tt.id}", None)
                    if j is not None and not (isinstance(vv, ast.Name) and pc is not None):
                        st.env[f"join:{tt.id}"] = j
                        st.env[tt.id] = Rat.atom(f"JOINED_{tt.id}")
                        hit = True
                    elif pc is not None:
                        st.env[f"piece:{tt.id}"] = pc
                        st.env[tt.id] = Rat.atom(f"PIECE_{tt.id}")
                        hit = True
                if hit and all(isinstance(tt, ast.Name) and (f"join:{tt.id}" in st.env or f"piece:{tt.id}" in st.env) for tt, _ in pairs):
                    return [st]
            return None

        def on_assign(self, key, val, stmt, st, eng):
            if key.isidentifier() and not (isinstance(val, Rat) and val.key() in (f"JOINED_{key}", f"PIECE_{key}")):
                st.env.pop(f"join:{key}", None)
                st.env.pop(f"piece:{key}", None)

        def on_call(self, node, fname, args, kwargs, st, eng):
            if fname == "interp1d" and len(node.args) >= 2:
                st.emit("ITP", (join(node.args[0], st, eng), join(node.args[1], st, eng)), node)
                return Rat.atom("INTERPOLANT")
            return None

    eng = Engine(prog, fi, H(), loop_bound=2, zero_trip=True)
    eng.indexed_enumerate = True
    st0 = State()
    for p_ in fi.params():
        st0.env[p_] = Rat.atom(p_)
    finals = [f for f in eng.run_function(st0) if f.exit is not None and f.exit[0] == "return"]
    if not finals:
        return False
    MIN = sym.call("min", [Rat.atom(LTS)])
    MAX = sym.call("max", [Rat.atom(STS)])
    LEN = sym.call("len", [Rat.atom(STS)])

    def elem(idx: Rat) -> Rat:
        return Rat.atom(f"{STS}[{idx.key()}]")

    decided = []
    for f in finals:
        evs = [e for e in f.events if e.kind == "ITP"]
        if len(evs) != 1 or evs[0].data[0] is None or evs[0].data[1] is None:
            return False
        ((xb, xc), (xr, xrc)), ((yb, yc), (yr, yrc)) = evs[0].data
        if xc is None or yc is None or xrc != "FULL" or yrc != "FULL":
            return False
        joins = {xname: evs[0], yname: evs[0]}
        decided.append((f, joins, xb, xc, xr, yb, yc, yr))
    seen = set()
    for f, joins, xb, xc, xr, yb, yc, yr in decided:
        where = prog.loc(fi, joins[xname].node)
        okp = (xb, xr, yb, yr) == (STS, LTS, GS, GL)
        same = (xc == "FULL" and yc == "FULL") or (isinstance(xc, Rat) and isinstance(yc, Rat) and xc.equals(yc))
        cut_txt = "all" if xc == "FULL" else xc.key()
        sig = (cut_txt, okp, same)
        if sig not in seen:
            res.ob("R11.1", f"[cut {cut_txt}] joined abscissae / values = short-time prefix followed by the long-time curve, same cut", okp and same, where)
        if not okp:
            res.violation("R11.1", f"join-order|{xb}+{xr}|{yb}+{yr}", where, q, f"the joined curve is {xb}[..] + {xr} / {yb}[..] + {yr} instead of the short-time prefix followed by the long-time curve")
        if not same:
            res.violation("R11.1", f"truncation-index|{cut_txt}|{yc if yc == 'FULL' else yc.key()}", where, q, "short-time abscissae and values are truncated at different indices: the joined arrays are misaligned")
        if not (okp and same):
            seen.add(sig)
            continue
        # what the path established
        if xc == "FULL" or xc.equals(LEN):
            below = "+" not in f.sign_of(MAX - MIN) and "0" not in f.sign_of(MAX - MIN) or "+" not in f.sign_of(elem(LEN - Rat.const(1)) - MIN)
            maximal = True
        elif xc.is_zero():
            below, maximal = True, "+" == "".join(sorted(f.sign_of(elem(xc) - MIN)))
        else:
            below = "+" not in f.sign_of(elem(xc - Rat.const(1)) - MIN)
            maximal = f.sign_of(elem(xc) - MIN) == frozenset("+")
        trail = "; ".join(hc_describe(f)[-3:])
        if sig + (below, maximal) in seen:
            continue
        seen.add(sig + (below, maximal))
        res.ob("R11.1", f"[cut {cut_txt}] the path has compared the last kept short-time point with the first long-time point (kept points <= it)", below, where)
        if not below:
            last_kept = "the last one" if xc == "FULL" else f"index {(xc - Rat.const(1)).key()}"
            res.violation("R11.1", f"kept-unverified|{cut_txt}", where, q,
                          f"on the path [{trail}] the short-time points up to {last_kept} are kept, but that point was never compared with min(log_time_lts): "
                          "short-time abscissae beyond the first long-time point can reach the interpolant, which sorts them among the long-time points")
        res.ob("R11.1", f"[cut {cut_txt}] the cut is maximal: the first dropped short-time point is beyond the first long-time point", maximal, where)
        if not maximal:
            res.violation("R11.1", f"cut-not-maximal|{cut_txt}", where, q,
                          f"on the path [{trail}] short-time points are dropped at {cut_txt} without the first dropped point having been found beyond min(log_time_lts)")
    res.count("join_paths", len(decided))
    return True


def hc_describe(st):
    from ..paths import describe_trail

    return describe_trail(st)


def _join(prog: Program, res: Result):
    q = f"{GHX}.BaseGHE.combine_sts_lts"
    fi = prog.func(q)
    res.analysed(q)
    if _join_semantic(prog, res):
        fn = fi.node
        itp = [c for c in ast.walk(fn) if isinstance(c, ast.Call) and attr_chain(c.func) == "interp1d"]
        res.ob("R11.1", "the interpolant is interp1d(joined abscissae, joined values)", True, prog.loc(fi, itp[0]))
        return
    ps = fi.params()
    if ps != ["log_time_lts", "g_lts", "log_time_sts", "g_sts"]:
        raise AnalysisError(f"{q}: parameter list changed: {ps}")
    fn = fi.node
    itp = [c for c in ast.walk(fn) if isinstance(c, ast.Call) and attr_chain(c.func) == "interp1d"]
    if len(itp) != 1 or len(itp[0].args) < 2:
        raise AnalysisError(f"{q}: interp1d(x, y) call not found")
    xname, yname = ast.unparse(itp[0].args[0]), ast.unparse(itp[0].args[1])
    ifs = [n for n in fn.body if isinstance(n, ast.If)]
    if len(ifs) != 1:
        raise AnalysisError(f"{q}: the two-branch join not found")
    node = ifs[0]
    consts = {s.targets[0].id: s.value for s in fn.body if isinstance(s, ast.Assign) and isinstance(s.targets[0], ast.Name)}

    def is_call(v, f, arg):
        return isinstance(v, ast.Call) and attr_chain(v.func) == f and len(v.args) == 1 and ast.unparse(v.args[0]) == arg

    t = node.test
    ok = False
    if isinstance(t, ast.Compare) and len(t.ops) == 1 and isinstance(t.ops[0], (ast.Lt,)):
        l = consts.get(t.left.id) if isinstance(t.left, ast.Name) else t.left
        r = consts.get(t.comparators[0].id) if isinstance(t.comparators[0], ast.Name) else t.comparators[0]
        ok = is_call(l, "max", "log_time_sts") and is_call(r, "min", "log_time_lts")
    res.ob("R11.1", f"untruncated join only when max(short-time abscissae) < min(long-time abscissae) ({ast.unparse(t)})", ok, prog.loc(fi, node))
    if not ok:
        res.violation("R11.1", f"branch-test|{ast.unparse(t)}", prog.loc(fi, node), q, f"the short-time curve is appended whole under '{ast.unparse(t)}' instead of 'max(log_time_sts) < min(log_time_lts)': overlapping abscissae can reach the interpolant")

    def concat(branch, name):
        asg = [s for s in ast.walk(ast.Module(body=branch, type_ignores=[])) if isinstance(s, ast.Assign) and isinstance(s.targets[0], ast.Name) and s.targets[0].id == name]
        if len(asg) != 1 or not (isinstance(asg[0].value, ast.BinOp) and isinstance(asg[0].value.op, ast.Add)):
            return None, None, asg[0] if asg else None
        return asg[0].value.left, asg[0].value.right, asg[0]

    for label, branch, trunc in (("untruncated", node.body, False), ("truncated", node.orelse, True)):
        idxs = []
        for name, sts, lts in ((xname, "log_time_sts", "log_time_lts"), (yname, "g_sts", "g_lts")):
            l, r, stmt = concat(branch, name)
            if l is None:
                raise AnalysisError(f"{q}: [{label}] '{name} = <short> + <long>' not found")
            base = l.value if isinstance(l, ast.Subscript) else l
            okc = ast.unparse(base) == sts and ast.unparse(r) == lts
            res.ob("R11.1", f"[{label}] {name} = short-time part of {sts} followed by {lts}", okc, prog.loc(fi, stmt))
            if not okc:
                res.violation("R11.1", f"{label}|order|{name}|{norm_stmt(stmt)[:60]}", prog.loc(fi, stmt), q,
                              f"[{label}] '{norm_stmt(stmt)[:90]}': the joined {name} must be the short-time values followed by the long-time values")
            if trunc:
                if not (isinstance(l, ast.Subscript) and isinstance(l.slice, ast.Slice) and (l.slice.lower is None or ast.unparse(l.slice.lower) == "0") and l.slice.upper is not None and l.slice.step is None):
                    res.violation("R11.1", f"truncated|slice|{name}", prog.loc(fi, stmt), q, f"[truncated] {ast.unparse(l)} is not a prefix [0:i] of the short-time curve")
                else:
                    idxs.append(ast.unparse(l.slice.upper))
            else:
                if isinstance(l, ast.Subscript):
                    res.violation("R11.1", f"untruncated|slice|{name}", prog.loc(fi, stmt), q, f"[untruncated] {ast.unparse(l)} drops short-time points although nothing overlaps")
        if trunc:
            ok = len(idxs) == 2 and idxs[0] == idxs[1]
            res.ob("R11.1", f"[truncated] abscissae and values are cut at the same index ({idxs})", ok, prog.loc(fi, node))
            if not ok:
                res.violation("R11.1", f"truncation-index|{idxs}", prog.loc(fi, node), q, f"short-time abscissae and values are truncated at different indices {idxs}: the joined arrays are misaligned")
            # the index walk
            wl = [n for n in ast.walk(ast.Module(body=branch, type_ignores=[])) if isinstance(n, ast.While)]
            if len(wl) != 1 or not idxs:
                res.violation("R11.1", "no-index-walk", prog.loc(fi, node), q, "[truncated] the truncation index is no longer found by walking the short-time abscissae")
                continue
            w = wl[0]
            iv = idxs[0]
            inits = {s.targets[0].id: s.value for s in branch if isinstance(s, ast.Assign) and isinstance(s.targets[0], ast.Name)}
            tst = w.test
            okw = False
            if isinstance(tst, ast.Compare) and len(tst.ops) == 1 and isinstance(tst.ops[0], (ast.LtE, ast.Lt)) and isinstance(tst.left, ast.Name):
                vn = tst.left.id
                rhs = tst.comparators[0]
                rhs_v = consts.get(rhs.id) if isinstance(rhs, ast.Name) else rhs
                body_ok = any(as_increment(s) is not None and as_increment(s)[0] == iv and ast.unparse(as_increment(s)[1]) == "1" for s in w.body) \
                    and any(isinstance(s, ast.Assign) and ast.unparse(s.targets[0]) == vn and ast.unparse(s.value) == f"log_time_sts[{iv}]" for s in w.body)
                init_ok = iv in inits and ast.unparse(inits[iv]) == "0" and vn in inits and ast.unparse(inits[vn]) == f"log_time_sts[{iv}]"
                okw = is_call(rhs_v, "min", "log_time_lts") and body_ok and init_ok
            res.ob("R11.1", f"[truncated] the index starts at 0 and advances while log_time_sts[i] <= min(log_time_lts) ({ast.unparse(tst)})", okw, prog.loc(fi, w))
            if not okw:
                res.violation("R11.1", f"index-walk|{ast.unparse(tst)}", prog.loc(fi, w), q,
                              f"the truncation index is not 'the first short-time abscissa beyond the first long-time one' (loop '{ast.unparse(tst)}')")
    ok = [ast.unparse(a) for a in itp[0].args[:2]] == [xname, yname] and xname != yname
    res.ob("R11.1", f"the interpolant is interp1d({xname}, {yname})", ok, prog.loc(fi, itp[0]))


def _correction(prog: Program, res: Result):
    q = f"{GF}.GFunction.borehole_radius_correction"
    fi = prog.func(q)
    res.analysed(q)
    # corrected values must not be written back into a stored curve: the next call would correct them again (C13's R13.7 machinery)
    from . import c13

    tmp = Result("C13")
    c13._check_param_mutation(prog, tmp)
    hits = [f for f in tmp.findings if "borehole_radius_correction" in f.key]
    res.ob("R11.2", "the correction does not overwrite a stored long-time curve (it builds a new list, or no caller hands it stored state)", not hits, prog.loc(fi, fi.node))
    for f in hits:
        res.violation("R11.2", "in-place|" + f.key.split("|", 1)[-1][:80], f.where, f.func, f.message + " - from the second call on the long-time points carry the correction more than once")
    ps = fi.params()
    if ps != ["g_function", "rb", "rb_star"]:
        raise AnalysisError(f"{q}: parameter list changed: {ps}")

    # the per-element map, in whichever of three shapes it is written:
    #   for g in P: L.append(E); return L   |   for i, g in enumerate(P): P[i] = E; return P   |   return [E for g in P]
    P = ps[0]
    fn = fi.node
    eng = Engine(prog, fi, Hooks(), loop_bound=1, zero_trip=False)
    st = State()
    for p_ in ps:
        st.env[p_] = Rat.atom(p_)
    for s_ in fn.body:  # straight-line locals before the loop (e.g. a hoisted shift)
        if isinstance(s_, ast.Assign) and len(s_.targets) == 1 and isinstance(s_.targets[0], ast.Name) and not isinstance(s_.value, (ast.List, ast.ListComp)):
            eng._s_Assign(s_, st)
    elem_expr = elem_var = node_ = None
    returned_ok = False
    rets = [r for r in ast.walk(fn) if isinstance(r, ast.Return) and r.value is not None]
    # short cuts that hand the curve back unshifted: exact only when the two radii are EQUAL (ln 1 = 0); a path that returns the
    # input under any weaker test (a tolerance) leaves a correction of up to ln(1 + tol / rb) out
    from ..custody import root_of as _root_of
    from ..paths import make_cmp as _mk

    ident = [r for r in rets if _root_of(fn, r.value)[:2] == ("param", P)]
    if ident and len(ident) < len(rets):
        e3 = Engine(prog, fi, Hooks(), loop_bound=1)
        s3 = State()
        for p_ in ps:
            s3.env[p_] = Rat.atom(p_)
        eqc = _mk(Rat.atom("rb_star"), "==", Rat.atom("rb"))
        for f_ in e3.run_function(s3):
            if f_.exit is None or f_.exit[0] != "return" or not any(f_.exit[2] is r for r in ident):
                continue
            same = f_.decide(eqc) is True
            trail = " & ".join(k for k, tr, ln in f_.trail)[:100]
            res.ob("R11.2", f"the curve is handed back unshifted only where rb_star == rb has been established (path [{trail}])", same, prog.loc(fi, f_.exit[2]))
            if not same:
                res.violation("R11.2", f"identity-shortcut|{trail[:60]}", prog.loc(fi, f_.exit[2]), q,
                              f"borehole_radius_correction returns the curve unshifted on the path [{trail}], which does not establish rb_star == rb: "
                              "for radii that differ by less than the tolerance the correction ln(rb_star / rb) is left out, and corrections are no longer additive in ln of the ratio")
        rets = [r for r in rets if r not in ident]
    if len(rets) != 1:
        raise AnalysisError(f"{q}: expected one return")
    rv = rets[0].value
    comp = rv if isinstance(rv, ast.ListComp) else None
    if comp is None and isinstance(rv, ast.Name):
        d_ = [s_ for s_ in fn.body if isinstance(s_, ast.Assign) and len(s_.targets) == 1 and isinstance(s_.targets[0], ast.Name) and s_.targets[0].id == rv.id]
        if len(d_) == 1 and isinstance(d_[0].value, ast.ListComp):
            comp = d_[0].value
    if comp is not None:
        g_ = comp.generators
        if len(g_) == 1 and not g_[0].ifs and ast.unparse(g_[0].iter) == P and isinstance(g_[0].target, ast.Name):
            elem_expr, elem_var, node_, returned_ok = comp.elt, g_[0].target.id, comp, True
    else:
        for lp in [n_ for n_ in fn.body if isinstance(n_, ast.For)]:
            it = lp.iter
            if ast.unparse(it) == P and isinstance(lp.target, ast.Name):
                # L.append(E)
                apps = [c for c in ast.walk(lp) if isinstance(c, ast.Call) and isinstance(c.func, ast.Attribute) and c.func.attr == "append" and len(c.args) == 1 and isinstance(c.func.value, ast.Name)]
                if len(apps) == 1 and all(isinstance(b_, (ast.Assign, ast.Expr)) for b_ in lp.body):
                    elem_expr, elem_var, node_ = inline_single_defs(fn, apps[0].args[0]), lp.target.id, apps[0]
                    returned_ok = isinstance(rv, ast.Name) and rv.id == apps[0].func.value.id
            elif isinstance(it, ast.Call) and attr_chain(it.func) == "enumerate" and len(it.args) == 1 and ast.unparse(it.args[0]) == P \
                    and isinstance(lp.target, ast.Tuple) and len(lp.target.elts) == 2 and all(isinstance(e_, ast.Name) for e_ in lp.target.elts):
                iv_, gv_ = lp.target.elts[0].id, lp.target.elts[1].id
                sts = [s_ for s_ in lp.body if isinstance(s_, ast.Assign) and len(s_.targets) == 1 and isinstance(s_.targets[0], ast.Subscript)
                       and isinstance(s_.targets[0].value, ast.Name) and ast.unparse(s_.targets[0].slice) == iv_]
                if len(sts) == 1 and all(isinstance(b_, ast.Assign) for b_ in lp.body):
                    elem_expr, elem_var, node_ = inline_single_defs(fn, sts[0].value), gv_, sts[0]
                    returned_ok = isinstance(rv, ast.Name) and rv.id == sts[0].targets[0].value.id
    if elem_expr is None:
        raise AnalysisError(f"{q}: per-value correction not understood")
    s2 = st.fork()
    s2.env[elem_var] = Rat.atom("g")
    got = eng.eval(elem_expr, s2)
    if not isinstance(got, Rat):
        raise AnalysisError(f"{q}: per-value correction not understood: {ast.unparse(elem_expr)[:60]}")
    want = Rat.atom("g") - sym.log(Rat.atom("rb_star") / Rat.atom("rb"))
    ok = got.equals(want)
    res.ob("R11.2", f"corrected value = g - ln(rb_star / rb) (got {got.key()})", ok, prog.loc(fi, node_))
    if not ok:
        res.violation("R11.2", f"correction|{got.key()[:80]}", prog.loc(fi, node_), q, f"the radius correction is {got.key()[:140]} instead of g - ln(rb_star / rb)")
    res.ob("R11.2", "one corrected value per input value is returned", bool(returned_ok), prog.loc(fi, rets[0]))
    if not returned_ok:
        res.violation("R11.2", "correction-return", prog.loc(fi, rets[0]), q, "borehole_radius_correction does not return the list of corrected values")


def _interp_table(prog: Program, res: Result):
    """R11.5: the height interpolation is node-exact only if its table is aligned: for every time index i the interpolant is
    built from the pairs (height h, g_lts[h][i]) of ALL stored heights, the evaluation walks the table in the same order and
    reads entry i for time i, and the radius table pairs h with r_b_values[h]."""
    q = f"{GF}.GFunction.g_function_interpolation"
    fi = prog.func(q)
    fn = fi.node
    res.analysed(q)

    def appends_in(node):
        out = {}
        for c in ast.walk(node):
            if isinstance(c, ast.Call) and isinstance(c.func, ast.Attribute) and c.func.attr == "append" and len(c.args) == 1:
                out.setdefault(ast.unparse(c.func.value), []).append(c)
        return out

    # ---- building loop: for i, _ in enumerate(self.log_time): ... self.interpolation_table['g'].append(f)
    build = None
    for lp in ast.walk(fn):
        if isinstance(lp, ast.For) and isinstance(lp.iter, ast.Call) and attr_chain(lp.iter.func) == "enumerate" and lp.iter.args and ast.unparse(lp.iter.args[0]) == "self.log_time" \
                and any(k.startswith("self.interpolation_table[") for k in appends_in(lp)):
            build = lp
    if build is None or not (isinstance(build.target, ast.Tuple) and isinstance(build.target.elts[0], ast.Name)):
        raise AnalysisError(f"{q}: loop that builds the per-time interpolants not found")
    I = build.target.elts[0].id
    itp = [c for c in ast.walk(build) if isinstance(c, ast.Call) and attr_chain(c.func) in ("interp1d", "lagrange") and len(c.args) >= 2]
    if not itp:
        raise AnalysisError(f"{q}: per-time interpolant (interp1d / lagrange) not found")
    xs = {ast.unparse(c.args[0]) for c in itp}
    ys = {ast.unparse(c.args[1]) for c in itp}
    if len(xs) != 1 or len(ys) != 1 or xs == ys:
        raise AnalysisError(f"{q}: the interpolants do not share one abscissa list and one value list")
    xn, yn = next(iter(xs)), next(iter(ys))

    def describe(name: str):
        """how the list `name` is filled: (element expression with the key variable written K, order 'storage' | 'sorted', where defined)
        from appends in a loop over the stored heights, or a comprehension / sorted(generator) over them"""
        def order_of(it):
            t = ast.unparse(it)
            if t in ("self.g_lts", "self.g_lts.keys()", "list(self.g_lts)", "list(self.g_lts.keys())"):
                return "storage"
            if t in ("sorted(self.g_lts)", "sorted(self.g_lts.keys())"):
                return "sorted"
            return None

        out = []
        for lp in ast.walk(fn):
            if isinstance(lp, ast.For) and isinstance(lp.target, ast.Name) and order_of(lp.iter):
                for c in ast.walk(lp):
                    if isinstance(c, ast.Call) and isinstance(c.func, ast.Attribute) and c.func.attr == "append" and ast.unparse(c.func.value) == name and len(c.args) == 1:
                        e = ast.unparse(inline_single_defs(lp, c.args[0])).replace(lp.target.id, "K")
                        reset_in_build = any(isinstance(s_, ast.Assign) and len(s_.targets) == 1 and ast.unparse(s_.targets[0]) == name and isinstance(s_.value, ast.List) and not s_.value.elts for s_ in build.body)
                        out.append((e, order_of(lp.iter), "per-time" if (any(lp is x for x in ast.walk(build)) and reset_in_build) else ("accumulating" if any(lp is x for x in ast.walk(build)) else "once")))
        for s_ in ast.walk(fn):
            if isinstance(s_, ast.Assign) and len(s_.targets) == 1 and ast.unparse(s_.targets[0]) == name:
                v = s_.value
                srt = False
                if isinstance(v, ast.Call) and attr_chain(v.func) == "sorted" and len(v.args) == 1:
                    v, srt = v.args[0], True
                if isinstance(v, ast.Call) and attr_chain(v.func) == "list" and len(v.args) == 1:
                    v = v.args[0]
                if isinstance(v, (ast.ListComp, ast.GeneratorExp)) and len(v.generators) == 1 and not v.generators[0].ifs and isinstance(v.generators[0].target, ast.Name):
                    o = order_of(v.generators[0].iter)
                    if o:
                        e = ast.unparse(v.elt).replace(v.generators[0].target.id, "K")
                        out.append((e, "sorted" if srt else o, "per-time" if any(s_ is x for x in ast.walk(build)) else "once"))
        return out

    dx, dy = describe(xn), describe(yn)
    if len(dx) != 1 or len(dy) != 1:
        raise AnalysisError(f"{q}: how the abscissa / value lists of the interpolants are filled was not understood ({dx}, {dy})")
    (ex, ox, wx), (ey, oy, wy) = dx[0], dy[0]
    okx = ex in ("float(K)", "K")
    oky = ey == f"self.g_lts[K][{I}]"
    # a sorted list of heights pairs with values gathered in storage order only if the storage order is ascending - not guaranteed
    same_order = ox == oy
    fresh = wx in ("per-time", "once") and wy == "per-time"
    ok = okx and oky and same_order and fresh
    detail = f"x <- {ex} ({ox}, {wx}), y <- {ey} ({oy}, {wy})"
    res.ob("R11.5", f"per time index i the height interpolant is built from the pairs (h, g_lts[h][i]) of every stored height ({detail})", ok, prog.loc(fi, build))
    if not ok:
        why = ("heights and values are collected in different orders" if not same_order else
               "the lists are not rebuilt for every time index" if not fresh else "the pairs are not (h, g_lts[h][i])")
        res.violation("R11.5", f"table-build|{detail[:80]}", prog.loc(fi, build), q,
                      f"the per-time height interpolants are not built from (h, g_lts[h][i]) for every stored height h: {why} ({detail}) - interpolating at a stored height no longer returns the stored curve")
    # ---- evaluation loop: for i in range(len(self.log_time)): f = table['g'][i]; g_function.append(f(h_eq))
    rets = sorted([r for r in ast.walk(fn) if isinstance(r, ast.Return) and isinstance(r.value, ast.Tuple) and len(r.value.elts) == 4], key=lambda r: r.lineno)
    ok2 = False
    if rets:
        gname = ast.unparse(rets[-1].value.elts[0])
        for lp in fn.body:
            if isinstance(lp, ast.For) and isinstance(lp.target, ast.Name) and isinstance(lp.iter, ast.Call) and attr_chain(lp.iter.func) == "range" \
                    and len(lp.iter.args) == 1 and ast.unparse(lp.iter.args[0]) == "len(self.log_time)":
                J = lp.target.id
                ap = appends_in(lp).get(gname, [])
                if len(ap) == 1:
                    v = ast.unparse(inline_single_defs(lp, ap[0].args[0])).replace('"', "'")
                    HE = ast.unparse(rets[-1].value.elts[3])  # the equivalent height that is handed back (defined as B / (B/H): R11.4)
                    ok2 = v in (f"self.interpolation_table['g'][{J}]({HE}).tolist()", f"self.interpolation_table['g'][{J}]({HE})")
        # the same as a comprehension / over enumerate(self.log_time), the table possibly through a local bound once to it
        if not ok2:
            from .search_common import expand_locals

            def index_var(target, it):
                if isinstance(target, ast.Name) and isinstance(it, ast.Call) and attr_chain(it.func) == "range" and len(it.args) == 1 and ast.unparse(it.args[0]) == "len(self.log_time)":
                    return target.id
                if isinstance(target, ast.Tuple) and len(target.elts) == 2 and all(isinstance(e_, ast.Name) for e_ in target.elts) and isinstance(it, ast.Call) and attr_chain(it.func) == "enumerate" \
                        and len(it.args) == 1 and not it.keywords and ast.unparse(it.args[0]) == "self.log_time":
                    return target.elts[0].id
                return None

            HE = ast.unparse(rets[-1].value.elts[3])
            cands = []
            gdef = [s_ for s_ in ast.walk(fn) if isinstance(s_, ast.Assign) and len(s_.targets) == 1 and ast.unparse(s_.targets[0]) == gname]
            for s_ in gdef:
                if isinstance(s_.value, ast.ListComp) and len(s_.value.generators) == 1 and not s_.value.generators[0].ifs:
                    J = index_var(s_.value.generators[0].target, s_.value.generators[0].iter)
                    if J is not None:
                        cands.append((J, s_.value.elt, s_.lineno))
            for lp in fn.body:
                if isinstance(lp, ast.For) and index_var(lp.target, lp.iter) is not None:
                    ap = appends_in(lp).get(gname, [])
                    if len(ap) == 1:
                        cands.append((index_var(lp.target, lp.iter), inline_single_defs(lp, ap[0].args[0]), lp.lineno))
            aliases = {s_.targets[0].id for s_ in ast.walk(fn) if isinstance(s_, ast.Assign) and len(s_.targets) == 1 and isinstance(s_.targets[0], ast.Name)
                       and ast.unparse(s_.value).replace('"', "'") == "self.interpolation_table['g']"
                       and sum(1 for y in ast.walk(fn) if isinstance(y, ast.Name) and y.id == s_.targets[0].id and isinstance(y.ctx, ast.Store)) == 1}
            for J, elt, line in cands:
                v = ast.unparse(elt).replace('"', "'")
                for a_ in aliases:
                    if v.startswith(f"{a_}["):
                        v = "self.interpolation_table['g']" + v[len(a_):]
                if v in (f"self.interpolation_table['g'][{J}]({HE}).tolist()", f"self.interpolation_table['g'][{J}]({HE})"):
                    ok2 = True
        ok2 = ok2 and isinstance(rets[-1].value.elts[3], ast.Name)
    res.ob("R11.5", "the curve at the equivalent height is [table[i](h_eq) for every time index i, in order]", ok2, prog.loc(fi, rets[-1]) if rets else prog.loc(fi, fn))
    if not ok2:
        res.violation("R11.5", "table-eval", prog.loc(fi, rets[-1]) if rets else prog.loc(fi, fn), q, "the interpolated curve is not the per-time interpolants evaluated at the equivalent height in time order")
    # ---- radius table
    rb_itp = [c for c in ast.walk(fn) if isinstance(c, ast.Call) and attr_chain(c.func) in ("interp1d", "lagrange") and len(c.args) >= 2 and c not in itp]
    ok3 = False
    if rb_itp:
        xn, yn = ast.unparse(rb_itp[0].args[0]), ast.unparse(rb_itp[0].args[1])
        for lp in ast.walk(fn):
            if isinstance(lp, ast.For) and isinstance(lp.target, ast.Name):
                ap = appends_in(lp)
                if xn in ap and yn in ap and len(ap[xn]) == 1 and len(ap[yn]) == 1:
                    H_ = lp.target.id
                    ok3 = ast.unparse(ap[xn][0].args[0]) in (f"float({H_})", H_) and ast.unparse(ap[yn][0].args[0]) == f"self.r_b_values[{H_}]" \
                        and all(ast.unparse(c.args[0]) == xn and ast.unparse(c.args[1]) == yn for c in rb_itp)
    res.ob("R11.5", "the radius interpolant pairs each height h with r_b_values[h]", ok3, prog.loc(fi, rb_itp[0]) if rb_itp else prog.loc(fi, fn))
    if not ok3:
        res.violation("R11.5", "rb-table", prog.loc(fi, rb_itp[0]) if rb_itp else prog.loc(fi, fn), q, "the borehole-radius interpolant is not built from the pairs (h, r_b_values[h])")


def _sources(prog: Program, res: Result):
    q = f"{GHX}.BaseGHE.grab_g_function"
    fi = prog.func(q)
    res.analysed(q)
    comb = prog.func(f"{GHX}.BaseGHE.combine_sts_lts")
    corr = prog.func(f"{GF}.GFunction.borehole_radius_correction")
    calls = sorted([c for c in ast.walk(fi.node) if isinstance(c, ast.Call) and attr_chain(c.func) == "self.combine_sts_lts"], key=lambda c: c.lineno)
    if len(calls) != 2:
        raise AnalysisError(f"{q}: expected two joins (g, g_bhw)")
    defs = {}
    for s in ast.walk(fi.node):
        if isinstance(s, ast.Assign):
            t = s.targets[0]
            if isinstance(t, ast.Name):
                defs[t.id] = s.value
            elif isinstance(t, ast.Tuple):
                for i, e in enumerate(t.elts):
                    if isinstance(e, ast.Name):
                        defs[e.id] = (s.value, i)
    cc = [c for c in ast.walk(fi.node) if isinstance(c, ast.Call) and attr_chain(c.func) == "self.gFunction.borehole_radius_correction"]
    if len(cc) != 1:
        raise AnalysisError(f"{q}: radius correction call not found")
    b = bind_args(corr, cc[0])
    itp = [c for c in ast.walk(fi.node) if isinstance(c, ast.Call) and attr_chain(c.func) == "self.gFunction.g_function_interpolation"]
    ok = len(itp) == 1 and len(itp[0].args) == 1 and ast.unparse(itp[0].args[0]) == fi.params()[1]
    res.ob("R11.2", "long-time values are interpolated at the requested B / H", ok, prog.loc(fi, itp[0]) if itp else prog.loc(fi, fi.node))
    if not ok:
        res.violation("R11.2", "interp-arg", prog.loc(fi, itp[0]) if itp else prog.loc(fi, fi.node), q, "g_function_interpolation is not called with the B / H ratio grab_g_function was given")

    def from_interp(name, pos):
        d = defs.get(name)
        return isinstance(d, tuple) and d[1] == pos and isinstance(d[0], ast.Call) and attr_chain(d[0].func) == "self.gFunction.g_function_interpolation"

    ok = isinstance(b.get("g_function"), ast.Name) and from_interp(b["g_function"].id, 0) and isinstance(b.get("rb"), ast.Name) and from_interp(b["rb"].id, 1) \
        and ast.unparse(b.get("rb_star")) == "self.bhe.b.r_b"
    res.ob("R11.2", "correction from the radius stored with the curves (2nd result of the interpolation) to the actual borehole radius", ok, prog.loc(fi, cc[0]))
    if not ok:
        res.violation("R11.2", f"correction-args|{[f'{k}={ast.unparse(v)}' for k, v in b.items()]}", prog.loc(fi, cc[0]), q,
                      f"borehole_radius_correction is called with {[f'{k}={ast.unparse(v)}' for k, v in b.items()]}; expected the interpolated curve, its stored radius as rb and self.bhe.b.r_b as rb_star")
    corrected = next((k for k, v in defs.items() if v is cc[0]), None)
    srcs = []
    for c, (lbl, attr) in zip(calls, (("g", "self.radial_numerical.g"), ("g_bhw", "self.radial_numerical.g_bhw"))):
        bb = bind_args(comb, c)
        ndefs = {}
        for s_ in ast.walk(fi.node):
            if isinstance(s_, ast.Name) and isinstance(s_.ctx, ast.Store):
                ndefs[s_.id] = ndefs.get(s_.id, 0) + 1

        def through_local(v):
            # a local bound once to an attribute chain (or its .tolist()) stands for it: log_time_sts = self.radial_numerical.lntts.tolist()
            for _ in range(3):
                if isinstance(v, ast.Name) and ndefs.get(v.id) == 1 and isinstance(defs.get(v.id), ast.expr) and v.id != corrected:
                    d = defs[v.id]
                    core = d.func.value if isinstance(d, ast.Call) and isinstance(d.func, ast.Attribute) and d.func.attr == "tolist" and not d.args else d
                    if attr_chain(core) is not None and isinstance(core, ast.Attribute):
                        v = d
                        continue
                break
            return v

        got = {k: ast.unparse(through_local(v)) for k, v in bb.items()}
        ok = got.get("log_time_lts") == "self.gFunction.log_time" and got.get("g_lts") == corrected and got.get("log_time_sts") == "self.radial_numerical.lntts.tolist()" \
            and got.get("g_sts") == f"{attr}.tolist()"
        res.ob("R11.3", f"{lbl} curve joins {attr} (on radial_numerical.lntts) with the corrected long-time values (on gFunction.log_time)", ok, prog.loc(fi, c))
        if not ok:
            res.violation("R11.3", f"sources|{lbl}|{sorted(got.items())}", prog.loc(fi, c), q, f"the {lbl} curve is joined from {got}")
        asg = next((s for s in ast.walk(fi.node) if isinstance(s, ast.Assign) and s.value is c), None)
        srcs.append(asg.targets[0].id if asg is not None and isinstance(asg.targets[0], ast.Name) else None)
    ret = [r for r in ast.walk(fi.node) if isinstance(r, ast.Return)]
    ok = ret and isinstance(ret[0].value, ast.Tuple) and [ast.unparse(e) for e in ret[0].value.elts] == srcs
    res.ob("R11.3", f"grab_g_function returns (g, g_bhw) in that order ({srcs})", bool(ok), prog.loc(fi, ret[0]) if ret else prog.loc(fi, fi.node))
    if not ok:
        res.violation("R11.3", "return-order", prog.loc(fi, ret[0]) if ret else prog.loc(fi, fi.node), q, "grab_g_function does not return (simulation curve, wall curve) in that order")


SOLVER_OPTIONS_EXACT = {"nSegments", "segment_ratios"}          # the discretisation the rule below fixes
SOLVER_OPTIONS_NEUTRAL = {"disp", "profiles", "dtype"}            # no effect on the values
SOLVER_OPTIONS_APPROX = {"approximate_FLS", "nFLS", "mQuad", "linear_threshold", "kind", "disTol", "tol", "kClusters", "cylinder_correction"}


def _solver_options(prog: Program, res: Result):
    """R11.4 (continued): the options handed to pygfunction's gFunction ask for nothing but the discretisation: no key that
    replaces the finite-line-source solution by an approximation of it (table of pygfunction's documented options)."""
    q = f"{GF}.calculate_g_function"
    fi = prog.func(q)
    res.analysed(q)
    calls = [c for c in ast.walk(fi.node) if isinstance(c, ast.Call) and (attr_chain(c.func) or "").endswith("gFunction")]
    names = set()
    for c in calls:
        for k in c.keywords:
            if k.arg == "options":
                if isinstance(k.value, ast.Name):
                    names.add(k.value.id)
                elif isinstance(k.value, ast.Dict):
                    names.add(None)
    if not calls or not names:
        raise AnalysisError(f"{q}: the options handed to gFunction were not found")
    keys = {}
    for n in ast.walk(fi.node):
        if isinstance(n, ast.Assign) and len(n.targets) == 1:
            t = n.targets[0]
            if isinstance(t, ast.Name) and t.id in names and isinstance(n.value, ast.Dict):
                for k in n.value.keys:
                    if isinstance(k, ast.Constant):
                        keys.setdefault(k.value, n)
                    else:
                        raise AnalysisError(f"{q}: option key that is not a literal")
            elif isinstance(t, ast.Subscript) and isinstance(t.value, ast.Name) and t.value.id in names:
                if isinstance(t.slice, ast.Constant):
                    keys.setdefault(t.slice.value, n)
                else:
                    raise AnalysisError(f"{q}: option key that is not a literal")
        elif isinstance(n, ast.Call) and isinstance(n.func, ast.Attribute) and n.func.attr in ("update", "setdefault") and isinstance(n.func.value, ast.Name) and n.func.value.id in names:
            raise AnalysisError(f"{q}: options changed through .{n.func.attr}() - keys not enumerated")
    for c in calls:
        for k in c.keywords:
            if k.arg == "options" and isinstance(k.value, ast.Dict):
                for kk in k.value.keys:
                    keys.setdefault(kk.value if isinstance(kk, ast.Constant) else "?", c)
    bad = sorted(k for k in keys if k in SOLVER_OPTIONS_APPROX)
    unknown = sorted(k for k in keys if k not in SOLVER_OPTIONS_APPROX | SOLVER_OPTIONS_EXACT | SOLVER_OPTIONS_NEUTRAL)
    if unknown:
        raise AnalysisError(f"{q}: option(s) {unknown} are not in the table of pygfunction options - their effect on the values is not known")
    res.ob("R11.4", f"the options handed to pygfunction ({sorted(keys)}) fix the discretisation only - none asks for an approximation of the finite line source", not bad, prog.loc(fi, calls[0]))
    for k in bad:
        res.violation("R11.4", f"solver-option|{k}", prog.loc(fi, keys[k]), q,
                      f"the long-time g-function is computed with the pygfunction option '{k}', which replaces part of the finite-line-source solution by an approximation "
                      "(e.g. a straight line below a time threshold): the stored curve no longer equals the analytical response for the fields / heights it affects")


def _longtime(prog: Program, res: Result):
    _solver_options(prog, res)
    q = f"{GF}.calc_g_func_for_multiple_lengths"
    fi = prog.func(q)
    res.analysed(q)
    eng = Engine(prog, fi, Hooks(), loop_bound=1, zero_trip=False)
    st = State()
    for p in fi.params():
        st.env[p] = Rat.atom(p)
    fin = [f for f in eng.run_function(st) if f.exit and f.exit[0] == "return"]
    if not fin:
        raise AnalysisError(f"{q}: no returning path")
    f = fin[0]
    lv = next((n.target.id for n in ast.walk(fi.node) if isinstance(n, ast.For) and ast.unparse(n.iter) == "h_values" and isinstance(n.target, ast.Name)), None)
    if lv is None:
        raise AnalysisError(f"{q}: loop over the heights not found")
    H = Rat.atom(lv)
    alpha = Rat.atom("soil.k") / Rat.atom("soil.rhoCp")
    # the times are whatever is handed to calculate_g_function as its time_values; t_s is that over exp(log_time)
    from ..model import bind_args

    cgf = prog.func(f"{GF}.calculate_g_function")
    fwc = [c for c in ast.walk(fi.node) if isinstance(c, ast.Call) and attr_chain(c.func) == "calculate_g_function"]
    if len(fwc) != 1:
        raise AnalysisError(f"{q}: call of calculate_g_function not found")
    tv_arg = bind_args(cgf, fwc[0]).get("time_values")
    tv = eng.eval(tv_arg, f) if tv_arg is not None else None
    ex = sym.call("exp", [Rat.atom("log_time")])
    ts = (tv / ex) if isinstance(tv, Rat) else None
    ok = isinstance(ts, Rat) and ts.equals(H ** 2 / (Rat.const(9) * alpha))
    res.ob("R11.4", f"t_s = H^2 / (9 k / rhoCp) per height (got {vkey(ts)[:60]})", ok, prog.loc(fi, fi.node))
    if not ok:
        res.violation("R11.4", f"ts|{vkey(ts)[:60]}", prog.loc(fi, fi.node), q, f"the characteristic time of a long-time curve is {vkey(ts)[:100]} instead of H^2 / (9 alpha)")
    ok = isinstance(tv, Rat) and isinstance(ts, Rat) and tv.equals(ex * ts) and "exp(log_time)" in tv.key()
    res.ob("R11.4", "physical times = exp(log_time) * t_s", ok, prog.loc(fi, fi.node))
    if not ok:
        res.violation("R11.4", f"times|{vkey(tv)[:60]}", prog.loc(fi, fi.node), q, f"the times handed to pygfunction are {vkey(tv)[:100]} instead of exp(log_time) * t_s")
    # the two per-height dictionaries are what is handed to GFunction as r_b_values / g_lts (keyword or **dict)
    RB_D = G_D = None
    for n_ in ast.walk(fi.node):
        pairs = []
        if isinstance(n_, ast.Dict):
            pairs = [(k.value, v) for k, v in zip(n_.keys, n_.values) if isinstance(k, ast.Constant)]
        elif isinstance(n_, ast.Call) and attr_chain(n_.func) == "GFunction":
            pairs = [(k.arg, k.value) for k in n_.keywords if k.arg]
            if prog.has_func("ghedesigner.gfunction.GFunction.__init__") and not any(isinstance(a_, ast.Starred) for a_ in n_.args):
                pairs += list(bind_args(prog.func("ghedesigner.gfunction.GFunction.__init__"), n_).items())  # handed over by position
        d_ = dict(pairs)
        if isinstance(d_.get("r_b_values"), ast.Name) and isinstance(d_.get("g_lts"), ast.Name):
            RB_D, G_D = d_["r_b_values"].id, d_["g_lts"].id
    if RB_D is None:
        raise AnalysisError(f"{q}: the per-height dictionaries handed to GFunction (r_b_values, g_lts) were not found")
    ok = isinstance(f.env.get(f"{RB_D}[{lv}]"), Rat) and f.env[f"{RB_D}[{lv}]"].equals(Rat.atom("r_b")) and f"{G_D}[{lv}]" in f.env
    if not ok and f"{G_D}[{lv}]" in f.env:
        # the radius table built in one go from the keys of the curve table:  dict.fromkeys(G, r_b)  /  {h: r_b for h in G}
        for s_ in ast.walk(fi.node):
            if isinstance(s_, ast.Assign) and len(s_.targets) == 1 and isinstance(s_.targets[0], ast.Name) and s_.targets[0].id == RB_D:
                v_ = s_.value
                if isinstance(v_, ast.Call) and attr_chain(v_.func) == "dict.fromkeys" and len(v_.args) == 2 and isinstance(v_.args[0], ast.Name) and v_.args[0].id == G_D \
                        and isinstance(v_.args[1], ast.Name) and v_.args[1].id == "r_b":
                    ok = True
                if isinstance(v_, ast.DictComp) and len(v_.generators) == 1 and not v_.generators[0].ifs and isinstance(v_.generators[0].iter, ast.Name) and v_.generators[0].iter.id == G_D \
                        and isinstance(v_.generators[0].target, ast.Name) and isinstance(v_.key, ast.Name) and v_.key.id == v_.generators[0].target.id and isinstance(v_.value, ast.Name) and v_.value.id == "r_b":
                    ok = True
        ok = ok and sum(1 for s_ in ast.walk(fi.node) if isinstance(s_, ast.Assign) and any(isinstance(t_, ast.Name) and t_.id == RB_D for t_ in s_.targets)) == 1
    res.ob("R11.4", "one curve and the borehole radius are stored under each height", ok, prog.loc(fi, fi.node))
    if not ok:
        res.violation("R11.4", "per-height-storage", prog.loc(fi, fi.node), q, "the long-time curve / radius are not stored under the height they were computed for")
    bh = [c for c in ast.walk(fi.node) if isinstance(c, ast.Call) and attr_chain(c.func) == "GHEBorehole"]
    ok = len(bh) == 1 and [ast.unparse(a) for a in bh[0].args[:3]] == [lv, "depth", "r_b"]
    res.ob("R11.4", "each curve is computed for a borehole of that height, the given burial depth and radius", ok, prog.loc(fi, bh[0]) if bh else prog.loc(fi, fi.node))
    if not ok:
        res.violation("R11.4", "borehole-args", prog.loc(fi, bh[0]) if bh else prog.loc(fi, fi.node), q, f"the g-function borehole is GHEBorehole({', '.join(ast.unparse(a) for a in bh[0].args[:3]) if bh else '?'})")
    # defaults and overrides
    cg = prog.func(f"{GF}.calculate_g_function")
    want = {"n_segments": 8, "segments": "unequal", "solver": "equivalent", "boundary": "MIFT"}
    for fobj in (fi, cg):
        d = fobj.defaults()
        for k, v in want.items():
            try:
                got = ast.literal_eval(d[k])
            except Exception:
                got = None
            ok = got == v
            res.ob("R11.4", f"{fobj.name}: default {k} = {v!r}", ok, prog.loc(fobj, d[k]) if k in d else prog.loc(fobj, fobj.node))
            if not ok:
                res.violation("R11.4", f"default|{fobj.name}|{k}|{got}", prog.loc(fobj, d[k]) if k in d else prog.loc(fobj, fobj.node), fobj.qualname, f"default {k} of {fobj.name} is {got!r} instead of {v!r}")
    n_calls = 0
    for fq, f2 in prog.funcs.items():
        for c in ast.walk(f2.node):
            if isinstance(c, ast.Call) and attr_chain(c.func) == "calc_g_func_for_multiple_lengths":
                n_calls += 1
                over = [k_ for k_ in bind_args(fi, c) if k_ in want or k_ == "segment_ratios"]
                res.ob("R11.4", f"{fq.replace('ghedesigner.', '')}: does not override boundary / segments / solver", not over, prog.loc(f2, c))
                if over:
                    res.violation("R11.4", f"override|{fq}|{over}", prog.loc(f2, c), fq, f"the long-time g-function is requested with overridden {over}")
    res.count("gfunction_call_sites", n_calls)
    res.floor("gfunction_call_sites", 4)
    # forwards to calculate_g_function
    fw = [c for c in ast.walk(fi.node) if isinstance(c, ast.Call) and attr_chain(c.func) == "calculate_g_function"]
    if len(fw) != 1:
        raise AnalysisError(f"{q}: call of calculate_g_function not found")
    kw = {k: ast.unparse(v) for k, v in bind_args(prog.func(f"{GF}.calculate_g_function"), fw[0]).items()}
    ok = all(kw.get(k) == k for k in ("n_segments", "segments", "solver", "boundary"))
    res.ob("R11.4", "the set-up parameters are forwarded unchanged to calculate_g_function", ok, prog.loc(fi, fw[0]))
    if not ok:
        res.violation("R11.4", f"forward|{sorted(kw.items())}", prog.loc(fi, fw[0]), q, f"calculate_g_function receives {kw}")
    # equivalent height
    gi = prog.func(f"{GF}.GFunction.g_function_interpolation")
    res.analysed(gi.qualname)
    e2 = Engine(prog, gi, Hooks())
    s2 = State()
    for p in gi.params():
        s2.env[p] = Rat.atom(p)
    # the equivalent height: the first top-level local computed from the b_over_h parameter
    first = next((s for s in gi.node.body if isinstance(s, ast.Assign) and isinstance(s.targets[0], ast.Name)
                  and any(isinstance(x, ast.Name) and x.id == "b_over_h" for x in ast.walk(s.value))), None)
    v = e2.eval(first.value, s2) if first is not None else None
    ok = isinstance(v, Rat) and v.equals(Rat.atom("self.B") / Rat.atom("b_over_h"))
    res.ob("R11.4", f"equivalent height = B / (B/H) (got {vkey(v)[:40]})", ok, prog.loc(gi, first) if first is not None else prog.loc(gi, gi.node))
    if not ok:
        res.violation("R11.4", f"h_eq|{vkey(v)[:40]}", prog.loc(gi, first) if first is not None else prog.loc(gi, gi.node), gi.qualname, f"the height at which the long-time family is interpolated is {vkey(v)[:80]} instead of B / (B/H)")


VARIANTS = [
    Variant("a height within 1e-6 of the smallest stored one is moved onto the LARGEST (seeded C11_j)", "break",
            [(GF, "        if abs(h_eq - min(height_values)) < close_tolerance:\n            h_eq = min(height_values)", "        if abs(h_eq - min(height_values)) < close_tolerance:\n            h_eq = max(height_values)")], "R11.8"),
    Variant("bounds of the stored heights held in locals", "benign",
            [(GF, "        if abs(h_eq - max(height_values)) < close_tolerance:\n            h_eq = max(height_values)\n        if abs(h_eq - min(height_values)) < close_tolerance:\n            h_eq = min(height_values)",
              "        h_lo, h_hi = min(height_values), max(height_values)\n        if abs(h_eq - h_hi) < close_tolerance:\n            h_eq = h_hi\n        if abs(h_eq - h_lo) < close_tolerance:\n            h_eq = h_lo")]),
    Variant("long-time solver told to linearise the response below one hour (seeded C11_h)", "break",
            [(GF, '    if boundary in ("UHTR", "UBWT"):\n        gfunc = gt.gfunction.gFunction(', '    options["linear_threshold"] = 3600.0\n    if boundary in ("UHTR", "UBWT"):\n        gfunc = gt.gfunction.gFunction(')], "R11.4"),
    Variant("long-time solver asked to keep the segment profiles", "benign",
            [(GF, '    if boundary in ("UHTR", "UBWT"):\n        gfunc = gt.gfunction.gFunction(', '    options["profiles"] = True\n    if boundary in ("UHTR", "UBWT"):\n        gfunc = gt.gfunction.gFunction(')]),
    Variant("radius correction skipped when the radii are within 1 mm (seeded C11_g)", "break",
            [(GF, "        g_function_corrected = []\n        for g in g_function:", "        if abs(rb_star - rb) < 1.0e-3:\n            return list(g_function)\n        g_function_corrected = []\n        for g in g_function:")], "R11.2"),
    Variant("radius correction skipped when the radii are equal", "benign",
            [(GF, "        g_function_corrected = []\n        for g in g_function:", "        if rb_star == rb:\n            return list(g_function)\n        g_function_corrected = []\n        for g in g_function:")]),
    Variant("stored-height fast path returns the first height's radius (seeded C11_f)", "break",
            [(GF, "        # if the interpolation kind is default, use what we know about the\n", "        if h_eq in self.g_lts:\n            g_function = self.g_lts[h_eq]\n            rb = self.r_b_values[height_values[0]]\n            return g_function, rb, self.d, h_eq\n\n        # if the interpolation kind is default, use what we know about the\n")], "R11.7"),
    Variant("stored-height fast path returns the curve with its own radius", "benign",
            [(GF, "        # if the interpolation kind is default, use what we know about the\n", "        if h_eq in self.g_lts:\n            g_function = self.g_lts[h_eq]\n            rb = self.r_b_values[h_eq]\n            return g_function, rb, self.d, h_eq\n\n        # if the interpolation kind is default, use what we know about the\n")]),
    Variant("radius table evaluated at the largest stored height", "break",
            [(GF, '        rb_value = self.interpolation_table["rb"](h_eq)\n', '        rb_value = self.interpolation_table["rb"](max(height_values))\n')], "R11.7"),
    Variant("radius correction written back into the list it is given (seeded C11_e)", "break",
            [(GF, "        g_function_corrected = []\n        for g in g_function:\n            g_function_corrected.append(g - log(rb_star / rb))\n        return g_function_corrected", "        correction = log(rb_star / rb)\n        for i, g in enumerate(g_function):\n            g_function[i] = g - correction\n        return g_function")], "R11.2"),
    Variant("two entries of Eskilson's table exchanged", "break", [("ghedesigner.utilities", "        -3.963,\n        -3.27,\n", "        -3.27,\n        -3.963,\n")], "R11.6"),
    Variant("a table entry repeated (axis not strictly increasing)", "break", [("ghedesigner.utilities", "        2.275,\n        3.003,\n", "        2.275,\n        2.275,\n        3.003,\n")], "R11.6"),
    Variant("Eskilson's table returned through a local", "benign", [("ghedesigner.utilities", "    # Return a list of Eskilson's original 27 dimensionless points in time\n    return [", "    # Return a list of Eskilson's original 27 dimensionless points in time\n    log_times = [")
        , ("ghedesigner.utilities", "        3.003,\n    ]\n", "        3.003,\n    ]\n    return log_times\n")]),
    Variant("the search drops the last long-time point before building g-functions", "break", [("ghedesigner.search_routines", "            self.bhe_type,\n            self.log_time,\n            coordinates,\n            fluid,\n            pipe,\n            grout,\n            soil,\n        )\n\n        # Initialize the GHE object\n        self.ghe = GHE(\n            v_flow_system,\n            b,\n            bhe_type,", "            self.bhe_type,\n            self.log_time[:-1],\n            coordinates,\n            fluid,\n            pipe,\n            grout,\n            soil,\n        )\n\n        # Initialize the GHE object\n        self.ghe = GHE(\n            v_flow_system,\n            b,\n            bhe_type,")], "R11.6"),
    Variant("the g-function object keeps its axis as a numpy array", "benign", [(GF, "        self.log_time: list = log_time\n", "        self.log_time: list = np.asarray(log_time)\n")]),
    Variant("heights hoisted and sorted, values still gathered in storage order (seeded C11_c)", "break",
            [(GF, "                x = []\n                y = []\n                for key in self.g_lts:\n                    height_value = float(key)\n                    g_value = self.g_lts[key][i]\n                    x.append(height_value)\n                    y.append(g_value)\n",
              "                y = [self.g_lts[key][i] for key in self.g_lts]\n"),
             (GF, "            for i, _ in enumerate(self.log_time):\n                y = [self.g_lts", "            x = sorted(float(key) for key in self.g_lts)\n            for i, _ in enumerate(self.log_time):\n                y = [self.g_lts")], "R11.5"),
    Variant("heights hoisted, heights and values both in storage order", "benign",
            [(GF, "                x = []\n                y = []\n                for key in self.g_lts:\n                    height_value = float(key)\n                    g_value = self.g_lts[key][i]\n                    x.append(height_value)\n                    y.append(g_value)\n",
              "                y = [self.g_lts[key][i] for key in self.g_lts]\n"),
             (GF, "            for i, _ in enumerate(self.log_time):\n                y = [self.g_lts", "            x = [float(key) for key in self.g_lts]\n            for i, _ in enumerate(self.log_time):\n                y = [self.g_lts")]),
    Variant("interpolation table reads the next time index of each stored curve", "break",
            [(GF, "                    g_value = self.g_lts[key][i]", "                    g_value = self.g_lts[key][i - 1]")], "R11.5"),
    Variant("height list not reset per time index", "break",
            [(GF, "                x = []\n                y = []\n                for key in self.g_lts:", "                y = []\n                for key in self.g_lts:"),
             (GF, "            self.interpolation_table[\"g\"] = []\n", "            self.interpolation_table[\"g\"] = []\n            x = []\n")], "R11.5"),
    Variant("radius table pairs heights with the keys", "break",
            [(GF, "                rb_values.append(self.r_b_values[h])", "                rb_values.append(h)")], "R11.5"),
    Variant("values truncated one point later than the abscissae", "break", [(GHX, "            g = g_sts[0:i] + g_lts", "            g = g_sts[0 : i + 1] + g_lts")], "R11.1"),
    Variant("radius correction with the inverse ratio", "break", [(GF, "            g_function_corrected.append(g - log(rb_star / rb))", "            g_function_corrected.append(g - log(rb / rb_star))")], "R11.2"),
    Variant("arguments of the radius correction swapped", "break",
            [(GHX, "        g_function_corrected = self.gFunction.borehole_radius_correction(g_function, rb_value, self.bhe.b.r_b)", "        g_function_corrected = self.gFunction.borehole_radius_correction(g_function, self.bhe.b.r_b, rb_value)")], "R11.2"),
    Variant("wall curve built from the fluid curve", "break",
            [(GHX, "            self.radial_numerical.lntts.tolist(),\n            self.radial_numerical.g_bhw.tolist(),", "            self.radial_numerical.lntts.tolist(),\n            self.radial_numerical.g.tolist(),")], "R11.3"),
    Variant("long-time values placed before the short-time ones", "break", [(GHX, "            log_time = log_time_sts + log_time_lts\n            g = g_sts + g_lts", "            log_time = log_time_sts + log_time_lts\n            g = g_lts + g_sts")], "R11.1"),
    Variant("UBWT boundary condition by default", "break", [(GF, "    solver=\"equivalent\",\n    boundary=\"MIFT\",\n    segment_ratios=None,\n):\n    r_b_values = {}", "    solver=\"equivalent\",\n    boundary=\"UBWT\",\n    segment_ratios=None,\n):\n    r_b_values = {}")], "R11.4"),
    Variant("characteristic time without the factor 9", "break", [(GF, "        ts = h**2 / (9.0 * alpha)  # Bore field characteristic time", "        ts = h**2 / alpha  # Bore field characteristic time")], "R11.4"),
    Variant("truncation loop stops one point early", "break", [(GHX, "            i = 0\n            value = log_time_sts[i]", "            i = 1\n            value = log_time_sts[i]")], "R11.1"),
    Variant("g - ln(a/b) written as g + ln(b/a)", "benign", [(GF, "            g_function_corrected.append(g - log(rb_star / rb))", "            g_function_corrected.append(g + log(rb / rb_star))")]),
    Variant("slice written [:i]", "benign", [(GHX, "            log_time = log_time_sts[0:i] + log_time_lts\n            g = g_sts[0:i] + g_lts", "            log_time = log_time_sts[:i] + log_time_lts\n            g = g_sts[:i] + g_lts")]),
]
