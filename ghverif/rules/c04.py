"""C04 - polygon-constrained fields lie inside the property and outside no-go zones (given the point classifier).

Not decided: correctness of the inside / on-edge / outside classification itself (C16, not applicable).
Decided, given that classification:
  R04.1  decision table: the keep-conditions of remove_cutout, evaluated over all 16 valuations of
         (inside in results, on-edge in results, keep_contour, remove_inside), equal the statement:
         property mode keeps iff inside-some or (on-edge-some and keep_contour);
         no-go mode keeps iff not inside-any and not (on-edge-any and not keep_contour);
         results holds one classification per boundary, for the point being decided, with the caller's tolerance
         remove_cutout loops over ALL the outlines / coordinates it is given (the parameter may only be wrapped)
  R04.2  call constants: polygonal_land_constraint applies the property cut with remove_inside=False and
         keep_contour[0], then the no-go cut with remove_inside=True and keep_contour[1] on the survivors; on every
         path through the loop over candidates the field that enters the domain is the candidate cut against the
         property and - when there are no-go zones - against those (path enumeration, not names);
         the defaults are [True, False] in both places and nobody overrides them
  R04.3  return-code protocol: point_polygon_check returns only -1 / 0 / 1, 0 exactly on its on-edge exits,
         -1 for an even and 1 for an odd number of crossings; remove_cutout reads inside = 1, on_edge = 0
  R04.4  ordering: every candidate list returned passes through reorder_domain = stable ascending sort by
         field size, descriptors permuted alongside
  R04.5  the grid covers the property: it is generated for (max x, max y) of all property outlines
"""
from __future__ import annotations

import ast
import itertools

from ..model import AnalysisError, Program, attr_chain, bind_args, norm_stmt, unpinned_helper_calls
from ..report import Result
from ..selftest import Variant

PROP = "C04"
TITLE = "Polygon-constrained fields: keep / drop decision table, call constants, return codes, ordering"
EXPLANATION = (
    "The keep-conditions of remove_cutout are interpreted as boolean functions of four atoms and compared with the "
    "statement on all 16 valuations (exhaustive); call sites, defaults, return constants of point_polygon_check and the "
    "sort in reorder_domain are extracted from the syntax tree and compared with the protocol."
)
ASSUMPTIONS = ["point_polygon_check classifies correctly (C16, not decided)", "sorted() is stable"]

FR = "ghedesigner.feature_recognition"
DOM = "ghedesigner.domains"
SH = SHM = "ghedesigner.shape"


_FLIP_OP = {ast.Lt: ast.Gt, ast.LtE: ast.GtE, ast.Gt: ast.Lt, ast.GtE: ast.LtE, ast.Eq: ast.Eq, ast.NotEq: ast.NotEq}


def _bool_eval(node: ast.expr, val: dict) -> bool:
    if type(val).__name__ == "_Env":
        return bool(_code_eval(node, val))
    if isinstance(node, ast.BoolOp):
        vs = [_bool_eval(v, val) for v in node.values]
        return all(vs) if isinstance(node.op, ast.And) else any(vs)
    if isinstance(node, ast.UnaryOp) and isinstance(node.op, ast.Not):
        return not _bool_eval(node.operand, val)
    if isinstance(node, ast.Compare) and len(node.ops) == 1 and isinstance(node.left, ast.Constant) and isinstance(node.comparators[0], ast.Call) and isinstance(node.comparators[0].func, ast.Attribute) \
            and node.comparators[0].func.attr == "count" and type(node.ops[0]) in _FLIP_OP:
        # n <op> results.count(code): the same comparison the other way round
        node = ast.Compare(left=node.comparators[0], ops=[_FLIP_OP[type(node.ops[0])]()], comparators=[node.left])
    if isinstance(node, ast.Compare) and len(node.ops) == 1 and isinstance(node.left, ast.Call) and isinstance(node.left.func, ast.Attribute) and node.left.func.attr == "count" \
            and len(node.left.args) == 1 and isinstance(node.left.args[0], ast.Name) and isinstance(node.comparators[0], ast.Constant) and "__counts__" in val:
        # results.count(code) <op> n : the valuation carries how many boundaries gave each code (0, 1 or 2 = several)
        cnt = val["__counts__"].get((ast.unparse(node.left.func.value), node.left.args[0].id))
        if cnt is None:
            raise AnalysisError(f"remove_cutout: unknown count '{ast.unparse(node.left)}'")
        n_ = node.comparators[0].value
        op = node.ops[0]
        return {ast.Eq: cnt == n_, ast.NotEq: cnt != n_, ast.Lt: cnt < n_, ast.LtE: cnt <= n_, ast.Gt: cnt > n_, ast.GtE: cnt >= n_}.get(type(op), None) if type(op) in (ast.Eq, ast.NotEq, ast.Lt, ast.LtE, ast.Gt, ast.GtE) else _bool_raise(node)
    if isinstance(node, ast.Compare) and len(node.ops) == 1 and isinstance(node.ops[0], (ast.In, ast.NotIn)):
        k = f"{ast.unparse(node.left)} in {ast.unparse(node.comparators[0])}"
        if k not in val:
            raise AnalysisError(f"remove_cutout: unknown membership atom '{k}'")
        return val[k] if isinstance(node.ops[0], ast.In) else not val[k]
    if isinstance(node, ast.Name):
        if node.id not in val:
            raise AnalysisError(f"remove_cutout: unknown boolean atom '{node.id}'")
        return val[node.id]
    if isinstance(node, ast.Constant) and isinstance(node.value, bool):
        return node.value
    raise AnalysisError(f"remove_cutout: condition not understood: {ast.unparse(node)}")


def _bool_raise(node):
    raise AnalysisError(f"remove_cutout: condition not understood: {ast.unparse(node)}")


def _keeps(stmts, val: dict, sink: str):
    """does this statement list append the point to `sink` under the valuation?"""
    for s in stmts:
        if isinstance(s, ast.If):
            branch = s.body if _bool_eval(s.test, val) else s.orelse
            r = _keeps(branch, val, sink)
            if r:
                return True
        elif isinstance(s, ast.Expr) and isinstance(s.value, ast.Call) and isinstance(s.value.func, ast.Attribute) and s.value.func.attr == "append" and attr_chain(s.value.func.value) == sink:
            return True
    return False


def _code_eval(node: ast.expr, env: dict):
    """conditions over one classification code:  r == inside, r != on_edge, r in (inside, on_edge), keep_contour, not .., and / or"""
    if isinstance(node, ast.BoolOp):
        vs = [_code_eval(v, env) for v in node.values]
        return all(vs) if isinstance(node.op, ast.And) else any(vs)
    if isinstance(node, ast.UnaryOp) and isinstance(node.op, ast.Not):
        return not _code_eval(node.operand, env)
    if isinstance(node, ast.Constant):
        return node.value
    if isinstance(node, ast.Name):
        if node.id not in env:
            raise AnalysisError(f"remove_cutout: unknown atom '{node.id}' in a fold condition")
        return env[node.id]
    if isinstance(node, ast.UnaryOp) and isinstance(node.op, ast.USub):
        return -_code_eval(node.operand, env)
    if isinstance(node, (ast.Tuple, ast.List, ast.Set)):
        return [_code_eval(e, env) for e in node.elts]
    if isinstance(node, ast.Compare) and len(node.ops) == 1:
        a, b = _code_eval(node.left, env), _code_eval(node.comparators[0], env)
        op = node.ops[0]
        if isinstance(op, ast.Eq):
            return a == b
        if isinstance(op, ast.NotEq):
            return a != b
        if isinstance(op, ast.In):
            return a in b
        if isinstance(op, ast.NotIn):
            return a not in b
        if isinstance(op, ast.Lt):
            return a < b
        if isinstance(op, ast.LtE):
            return a <= b
        if isinstance(op, ast.Gt):
            return a > b
        if isinstance(op, ast.GtE):
            return a >= b
    raise AnalysisError(f"remove_cutout: fold condition not understood: {ast.unparse(node)}")


def _fold_block(prog, fi, blk: ast.If, sink, in_name, edge_name, ppc, pt_var, res, q):
    """-> the mode (True: no-go, False: property) that `blk` decides by a fold over the boundaries, after recording its obligations;
    None if blk is not of that shape.  With codes inside = 1, on-edge = 0, outside = -1 and bad(v) = v is inside, or on-edge without
    keep_contour (no-go mode; property mode: good(v) = inside, or on-edge with keep_contour), the fold equals the statement iff
      KEEP(v) = not bad(v)  [= good(v)]  for each code,   the loop breaks exactly on the codes that decide (bad / good ones) - an
      answer that decides must not be overwritten by the next outline's -,   and the value before the first outline keeps
      (no-go) / drops (property) the point."""
    t = blk.test
    if isinstance(t, ast.Name) and t.id == "remove_inside":
        mode, body = True, blk.body
    elif isinstance(t, ast.UnaryOp) and isinstance(t.op, ast.Not) and isinstance(t.operand, ast.Name) and t.operand.id == "remove_inside":
        mode, body = False, blk.body
    else:
        return None
    loops = [s_ for s_ in body if isinstance(s_, ast.For)]
    if len(loops) != 1 or not (body and isinstance(body[-1], ast.Continue)):
        return None
    lp = loops[0]
    asg = [s_ for s_ in lp.body if isinstance(s_, ast.Assign) and len(s_.targets) == 1 and isinstance(s_.targets[0], ast.Name) and isinstance(s_.value, ast.Call) and attr_chain(s_.value.func) == "point_polygon_check"]
    if len(asg) != 1:
        return None
    r = asg[0].targets[0].id
    b = bind_args(ppc, asg[0].value)
    okc = ast.unparse(b.get("contour")) == ast.unparse(lp.target) and ast.unparse(b.get("point")) == pt_var and ast.unparse(lp.iter) == "boundaries" \
        and "on_edge_tolerance" in b and ast.unparse(b["on_edge_tolerance"]) == "on_edge_tolerance"
    label = "no-go" if mode else "property"
    res.ob("R04.1", f"[{label} mode, fold] every boundary classifies this coordinate with the caller's tolerance", okc, prog.loc(fi, asg[0]))
    if not okc:
        res.violation("R04.1", f"fold-classify|{label}", prog.loc(fi, asg[0]), q, f"[{label} mode] the fold classifies {norm_stmt(asg[0])[:90]}: not this point against every boundary with the caller's tolerance")
    brk = [s_ for s_ in lp.body if isinstance(s_, ast.If) and not s_.orelse and len(s_.body) == 1 and isinstance(s_.body[0], ast.Break)]
    other = [s_ for s_ in lp.body if s_ is not asg[0] and s_ not in brk]
    if other or len(brk) > 1:
        raise AnalysisError(f"{q}: [{label} mode] the fold over the boundaries does more than classify and break")
    init = next((s_ for s_ in body if isinstance(s_, ast.Assign) and len(s_.targets) == 1 and isinstance(s_.targets[0], ast.Name) and s_.targets[0].id == r and s_.lineno < lp.lineno), None)
    keep = [s_ for s_ in body if isinstance(s_, ast.If) and s_.lineno > lp.lineno]
    if init is None or len(keep) != 1:
        raise AnalysisError(f"{q}: [{label} mode] initial value / keep condition of the fold not found")
    for K in (True, False):
        base = {in_name: 1, edge_name: 0, "keep_contour": K, "remove_inside": mode}
        for v, vname in ((1, "inside"), (0, "on-edge"), (-1, "outside")):
            env = dict(base)
            env[r] = v
            decides = ((v == 1) or (v == 0 and not K)) if mode else ((v == 1) or (v == 0 and K))
            kept = _keeps(keep, _Env(env), sink)
            want_keep = (not decides) if mode else decides
            ok = kept == want_keep
            res.ob("R04.1", f"[{label} mode, fold, keep_contour={K}] a point whose deciding answer is '{vname}' is {'kept' if want_keep else 'dropped'}", ok, prog.loc(fi, keep[0]))
            if not ok:
                res.violation("R04.1", f"fold-keep|{label}|{vname}|{K}", prog.loc(fi, keep[0]), q, f"[{label} mode, keep_contour={K}] with the answer '{vname}' the point is {'kept' if kept else 'dropped'} but must be {'kept' if want_keep else 'dropped'}")
            breaks = bool(brk) and bool(_code_eval(brk[0].test, env))
            okb = breaks == decides
            res.ob("R04.1", f"[{label} mode, fold, keep_contour={K}] the answer '{vname}' {'ends the scan (it decides, a later outline must not overwrite it)' if decides else 'lets the scan go on'}", okb, prog.loc(fi, brk[0]) if brk else prog.loc(fi, lp))
            if not okb:
                res.violation("R04.1", f"fold-break|{label}|{vname}|{K}", prog.loc(fi, brk[0]) if brk else prog.loc(fi, lp), q,
                              (f"[{label} mode, keep_contour={K}] the answer '{vname}' of one outline decides the point, but the scan goes on and the next outline's answer overwrites it: "
                               f"a borehole {'on the contour of' if v == 0 else 'inside'} one {'no-go zone' if mode else 'property outline'} is judged by another outline only") if decides else
                              f"[{label} mode, keep_contour={K}] the scan stops at the answer '{vname}', which does not decide the point: later outlines are never asked")
        env = dict(base)
        env[r] = _code_eval(init.value, base)
        kept0 = _keeps(keep, _Env(env), sink)
        ok0 = kept0 == mode
        res.ob("R04.1", f"[{label} mode, fold, keep_contour={K}] without any outline the point is {'kept' if mode else 'dropped'}", ok0, prog.loc(fi, init))
        if not ok0:
            res.violation("R04.1", f"fold-init|{label}|{K}", prog.loc(fi, init), q, f"[{label} mode] the fold starts from {ast.unparse(init.value)}, with which a point is {'kept' if kept0 else 'dropped'} when there is no outline")
    return mode


class _Env(dict):
    """valuation for _bool_eval that also evaluates comparisons of a code with the classifier constants"""


def check(prog: Program, tier: str) -> Result:
    res = Result(PROP)
    q = f"{FR}.remove_cutout"
    fi = prog.func(q)
    res.analysed(q)
    fn = fi.node
    # constants
    consts = {s.targets[0].id: s.value.value for s in fn.body if isinstance(s, ast.Assign) and isinstance(s.targets[0], ast.Name) and isinstance(s.value, ast.Constant)}
    loops = [n for n in fn.body if isinstance(n, ast.For)]
    if len(loops) != 1:
        raise AnalysisError(f"{q}: loop over the coordinates not found")
    outer = loops[0]
    rets = [n for n in ast.walk(fn) if isinstance(n, ast.Return)]
    sink = ast.unparse(rets[-1].value) if rets else None
    inner = [n for n in outer.body if isinstance(n, ast.For)]
    if len(inner) != 1:
        raise AnalysisError(f"{q}: loop over the boundaries not found")
    # results list: one classification per boundary for this point
    calls = [c for c in ast.walk(inner[0]) if isinstance(c, ast.Call) and attr_chain(c.func) == "point_polygon_check"]
    if len(calls) != 1:
        raise AnalysisError(f"{q}: classifier call not found")
    ppc = prog.func(f"{SH}.point_polygon_check")
    b = bind_args(ppc, calls[0])
    pt_var = ast.unparse(outer.target)
    bd_var = ast.unparse(inner[0].target)
    ok = ast.unparse(b.get("contour")) == bd_var and ast.unparse(b.get("point")) == pt_var and ast.unparse(inner[0].iter) == "boundaries" and ast.unparse(outer.iter) == "coordinates"
    res.ob("R04.1", "every coordinate is classified against every boundary (contour = boundary, point = coordinate)", ok, prog.loc(fi, calls[0]))
    if not ok:
        res.violation("R04.1", f"classify-args|{norm_stmt(calls[0])[:80]}", prog.loc(fi, calls[0]), q,
                      f"the classifier is called as {norm_stmt(calls[0])[:100]} inside loops over {ast.unparse(outer.iter)} / {ast.unparse(inner[0].iter)}: not every point is tested against every boundary")
    # the outlines that are looped over are ALL the caller's outlines: the parameter may only be wrapped ([one outline] -> list of one)
    from ..custody import _bindings, root_of

    for nm, what in ((ast.unparse(inner[0].iter), "outlines"), (ast.unparse(outer.iter), "coordinates")):
        if nm not in fi.params():
            r_ = root_of(fn, inner[0].iter if what == "outlines" else outer.iter)
            okb = r_[0] == "param"
            why_ = r_[2] if r_[0] in ("broken", "unknown") else ""
        else:
            okb, why_ = True, ""
            for v_, pos_, st_ in _bindings(fn, nm):
                wrap = isinstance(v_, ast.List) and len(v_.elts) == 1 and isinstance(v_.elts[0], ast.Name) and v_.elts[0].id == nm
                if wrap:
                    continue
                r_ = root_of(fn, v_, _seen={nm}) if v_ is not None else ("unknown", st_, "not a plain assignment")
                if r_[0] == "param" and r_[1] == nm:
                    continue
                if r_[0] == "unknown":
                    raise AnalysisError(f"{q}: rebinding of {nm} not understood ({r_[2]})")
                okb, why_ = False, (r_[2] if r_[0] == "broken" else f"rebound to {ast.unparse(v_)[:50]}")
        res.ob("R04.1", f"the {what} that are looped over are all those the caller passed", okb, prog.loc(fi, fn))
        if not okb:
            res.violation("R04.1", f"subset|{what}|{why_[:60]}", prog.loc(fi, fn), q,
                          f"remove_cutout does not work on all the {what} it is given ({why_}): {'an outline that is skipped constrains nothing - boreholes outside the property or inside a no-go zone survive' if what == 'outlines' else 'candidates are lost before they are classified'}")
    ok = "on_edge_tolerance" in b and ast.unparse(b["on_edge_tolerance"]) == "on_edge_tolerance" and "on_edge_tolerance" in fi.params()
    res.ob("R04.1", "the caller's edge tolerance is passed to the classifier", ok, prog.loc(fi, calls[0]))
    if not ok:
        res.violation("R04.1", "tolerance-not-passed", prog.loc(fi, calls[0]), q, "remove_cutout does not hand its on_edge_tolerance to point_polygon_check")
    results = None
    for n in ast.walk(inner[0]):
        if isinstance(n, ast.Call) and isinstance(n.func, ast.Attribute) and n.func.attr == "append" and any(c is calls[0] for c in ast.walk(n)):
            results = attr_chain(n.func.value)
    if results is None:
        # neither a list of the classifications nor (below) a recognised fold: e.g. a running maximum over ordered codes tested for
        # membership in a set of surviving codes - another algorithm, whose agreement with the statement this rule cannot decide
        if not any(isinstance(s_, ast.If) and isinstance(s_.test, (ast.Name, ast.UnaryOp)) for s_ in outer.body):
            raise AnalysisError(f"{q}: the classifications of a point are neither collected in a list nor folded in a form this rule knows")
    reset = any(isinstance(s, ast.Assign) and isinstance(s.targets[0], ast.Name) and s.targets[0].id == results and isinstance(s.value, ast.List) and not s.value.elts for s in outer.body)
    res.ob("R04.1", "the per-point result list is reset for every coordinate", bool(results) and reset, prog.loc(fi, outer))
    if not (results and reset):
        res.violation("R04.1", "results-not-reset", prog.loc(fi, outer), q, "the list of classifications is not emptied per coordinate: earlier points leak into later decisions")
    # ---- decision table
    in_name = next((k for k, v in consts.items() if v == 1), None)
    edge_name = next((k for k, v in consts.items() if v == 0 and k != in_name), None)
    ok = in_name is not None and edge_name is not None
    res.ob("R04.3", f"remove_cutout reads inside = 1 and on-edge = 0 ({consts})", ok, prog.loc(fi, fn))
    if not ok:
        res.violation("R04.3", f"reader-codes|{consts}", prog.loc(fi, fn), q, f"remove_cutout's code points are {consts}; the classifier returns 1 for inside and 0 for on-edge")
        return res
    decide = [s for s in outer.body if isinstance(s, ast.If)]
    # a mode that is decided by a FOLD instead of a list of results:  if <mode>: r = init; for b in boundaries: r = classify(b, p);
    # [if BREAK(r): break]; if KEEP(r): sink.append(p); continue   - decided on the three classifier codes (finite table below)
    folded_modes = set()
    for blk in list(decide):
        fm = _fold_block(prog, fi, blk, sink, in_name, edge_name, ppc, pt_var, res, q)
        if fm is not None:
            folded_modes.add(fm)
            decide.remove(blk)
    n_rows = 0
    bad_rows = []
    # how many boundaries answer 'inside' / 'on edge': none, one, several - so that conditions on membership AND on counts are decided
    for (IC, EC), K, R in itertools.product(itertools.product((0, 1, 2), repeat=2), (False, True), (False, True)):
        I, E = IC > 0, EC > 0
        if R in folded_modes:
            n_rows += 1
            continue
        val = {f"{in_name} in {results}": I, f"{edge_name} in {results}": E, "keep_contour": K, "remove_inside": R,
               "__counts__": {(results, in_name): IC, (results, edge_name): EC}}
        got = _keeps(decide, val, sink)
        want = ((not I) and not (E and not K)) if R else (I or (E and K))
        n_rows += 1
        if got != want:
            bad_rows.append((I, E, K, R, got, want))
    res.count("decision_rows", n_rows)
    res.floor("decision_rows", 36)
    res.ob("R04.1", "keep / drop decision agrees with the statement on all 36 valuations of (inside by none / one / several, on edge by none / one / several, keep_contour, remove_inside)", not bad_rows, prog.loc(fi, decide[0]) if decide else prog.loc(fi, fn))
    for I, E, K, R, got, want in bad_rows[:4]:
        mode = "no-go" if R else "property"
        res.violation("R04.1", f"table|inside={I}|edge={E}|keep_contour={K}|remove_inside={R}", prog.loc(fi, decide[0]) if decide else prog.loc(fi, fn), q,
                      f"[{mode} mode] a point with inside-some={I}, on-edge-some={E}, keep_contour={K} is {'kept' if got else 'dropped'} but must be {'kept' if want else 'dropped'}")
    res.sample({"rows": 36, "mismatches": bad_rows[:4]})

    _check_calls(prog, res)
    _check_codes(prog, res)
    _check_order(prog, res)
    return res


def _check_calls(prog: Program, res: Result):
    q = f"{DOM}.polygonal_land_constraint"
    fi = prog.func(q)
    res.analysed(q)
    rc = prog.func(f"{FR}.remove_cutout")
    calls = sorted([c for c in ast.walk(fi.node) if isinstance(c, ast.Call) and attr_chain(c.func) == "remove_cutout"], key=lambda c: c.lineno)
    if len(calls) != 2:
        raise AnalysisError(f"{q}: expected two cut-outs (property, no-go), found {len(calls)}")
    want = [("property_boundary", False, "keep_contour[0]", "coordinates"), ("no_go_boundaries", True, "keep_contour[1]", None)]
    prev_out = None
    for c, (bd, ri, kc, inp) in zip(calls, want):
        b = bind_args(rc, c)
        got = (ast.unparse(b.get("boundaries")), ast.literal_eval(b["remove_inside"]) if isinstance(b.get("remove_inside"), ast.Constant) else None, ast.unparse(b.get("keep_contour")))
        ok = got == (bd, ri, kc)
        res.ob("R04.2", f"cut-out against {bd}: remove_inside={ri}, keep_contour={kc}", ok, prog.loc(fi, c))
        if not ok:
            res.violation("R04.2", f"call|{bd}|{got}", prog.loc(fi, c), q, f"the {bd} cut-out is called with (boundaries, remove_inside, keep_contour) = {got}; expected ({bd}, {ri}, {kc})")
        # the outlines handed to the cut are the caller's, all of them: the name may have been re-bound on the way (a None default,
        # a copy, a wrapped single polygon), but not to a filtered / sliced / recomputed list
        # both cuts classify with the documented edge tolerance: remove_cutout's own default, or that very number spelled out
        tol = b.get("on_edge_tolerance")
        dflt_tol = rc.defaults().get("on_edge_tolerance")
        if isinstance(tol, ast.Name) and tol.id in prog.modules[fi.module].constants and tol.id not in {x.id for x in ast.walk(fi.node) if isinstance(x, ast.Name) and isinstance(x.ctx, ast.Store)}:
            tol = prog.modules[fi.module].constants[tol.id]  # a named module-level constant
        okt = tol is None or (isinstance(tol, ast.Constant) and isinstance(dflt_tol, ast.Constant) and tol.value == dflt_tol.value)
        res.ob("R04.2", f"the {bd} cut-out classifies with the documented edge tolerance ({ast.unparse(dflt_tol) if dflt_tol is not None else '?'})", okt, prog.loc(fi, c))
        if not okt:
            res.violation("R04.2", f"tolerance|{bd}|{ast.unparse(tol)[:40]}", prog.loc(fi, c), q,
                          f"the {bd} cut-out is called with on_edge_tolerance = {ast.unparse(tol)[:60]} instead of the documented {ast.unparse(dflt_tol) if dflt_tol is not None else 'default'}: "
                          "the band in which a borehole counts as lying on an outline then depends on something else (a spacing, a size), so boreholes clearly outside the property are kept and "
                          "boreholes clear of a no-go zone are dropped")
        if isinstance(b.get("boundaries"), ast.Name) and b["boundaries"].id == bd:
            bad_defs = []
            for a_ in ast.walk(fi.node):
                if not (isinstance(a_, ast.Assign) and any(isinstance(t_, ast.Name) and t_.id == bd for t_ in a_.targets)) or a_.lineno > c.lineno:
                    continue
                v_ = a_.value
                guard_ = next((g_ for g_ in ast.walk(fi.node) if isinstance(g_, ast.If) and any(a_ is x for b__ in g_.body for x in ast.walk(b__))), None)
                gt_ = ast.unparse(guard_.test) if guard_ is not None else ""
                none_default = isinstance(v_, (ast.List, ast.Tuple)) and not v_.elts and gt_ in (f"{bd} is None", f"None is {bd}", f"not {bd}")
                wrap_one = isinstance(v_, ast.List) and len(v_.elts) == 1 and isinstance(v_.elts[0], ast.Name) and v_.elts[0].id == bd and "isinstance" in gt_
                copy_ = (isinstance(v_, ast.Call) and attr_chain(v_.func) in ("list", "tuple", "copy.copy", "copy.deepcopy", "deepcopy") and len(v_.args) == 1 and isinstance(v_.args[0], ast.Name) and v_.args[0].id == bd) \
                    or (isinstance(v_, ast.Call) and isinstance(v_.func, ast.Attribute) and v_.func.attr == "copy" and isinstance(v_.func.value, ast.Name) and v_.func.value.id == bd)
                if not (none_default or wrap_one or copy_):
                    bad_defs.append(a_)
            res.ob("R04.2", f"the {bd} cut-out receives every outline the caller gave (re-bound only by a None default, a wrapped single polygon or a copy)", not bad_defs, prog.loc(fi, c))
            for a_ in bad_defs[:1]:
                res.violation("R04.2", f"outlines-custody|{bd}|{norm_stmt(a_)[:50]}", prog.loc(fi, a_), q,
                              f"'{norm_stmt(a_)[:90]}' replaces the caller's {bd} before the cut-out: an outline that is dropped or altered on the way no longer removes the boreholes it should")
        src = ast.unparse(b.get("coordinates"))
        asg = next((s for s in ast.walk(fi.node) if isinstance(s, ast.Assign) and any(c is x for x in ast.walk(s))), None)
        out = asg.targets[0].id if asg is not None and isinstance(asg.targets[0], ast.Name) else None
        if inp is None:
            ok = src == prev_out
            res.ob("R04.2", "the no-go cut is applied to the survivors of the property cut", ok, prog.loc(fi, c))
            if not ok:
                res.violation("R04.2", f"chain|{src}", prog.loc(fi, c), q, f"the no-go cut-out works on '{src}' instead of the points that survived the property cut ('{prev_out}')")
        prev_out = out
    # what enters the domain, on every path through the loop body: the property cut of the candidate, then - when there are
    # no-go zones - the no-go cut of those survivors
    from ..paths import Const as _Const, Engine as _Engine, Hooks as _Hooks, State as _State, vkey as _vkey
    from ..sym import Rat as _Rat
    from .. import sym as _sym2

    loop = next((lp for lp in ast.walk(fi.node) if isinstance(lp, ast.For) and all(any(c is x for x in ast.walk(lp)) for c in calls)
                 and not any(isinstance(inner, ast.For) and inner is not lp and all(any(c is x for x in ast.walk(inner)) for c in calls) for inner in ast.walk(lp))), None)
    if loop is None or not isinstance(loop.target, ast.Name):
        raise AnalysisError(f"{q}: the loop over candidate fields that applies the cut-outs was not found")
    cuts = {}

    class HC(_Hooks):
        def on_call(self, node, fname, args, kwargs, st, eng):
            if fname == "remove_cutout":
                b_ = bind_args(rc, node)
                k = f"CUT{len(cuts) + 1}"
                cuts[k] = (eng.eval(b_["coordinates"], st) if "coordinates" in b_ else None, ast.unparse(b_["boundaries"]) if "boundaries" in b_ else None, node)
                return _Rat.atom(k)
            if fname and fname.endswith(".append") and len(args) == 1:
                st.emit("APPEND", (fname[:-7], args[0]), node)
                return _Const(None)
            return None

    eng_ = _Engine(prog, fi, HC())
    st_ = _State()
    for p_ in fi.params():
        st_.env[p_] = _Rat.atom(p_)
    st_.env[loop.target.id] = _Rat.atom("FIELD")
    n_app = 0
    nz = _sym2.call("len", [_Rat.atom("no_go_boundaries")])
    for f_ in eng_.run_block(loop.body, [st_]):
        for ev in f_.events:
            if ev.kind != "APPEND":
                continue
            n_app += 1
            v = ev.data[1]
            if not (isinstance(v, _Rat) and (v.key() in cuts or v.equals(_Rat.atom("FIELD")))):
                # the loop hands on something that is not ONE field (a list of fields built in several passes, ..): not the shape
                # this rule follows
                raise AnalysisError(f"{q}: the loop over candidates appends {_vkey(v)[:40]}, which is not a single candidate field (cuts applied in separate passes?)")
            chain = []
            cur = v
            while isinstance(cur, _Rat) and cur.key() in cuts:
                chain.append(cuts[cur.key()][1])
                cur = cuts[cur.key()][0]
            rooted = isinstance(cur, _Rat) and cur.equals(_Rat.atom("FIELD"))
            zones = f_.sign_of(nz)
            if zones and "+" not in zones:
                zones = frozenset("0")  # a length is never negative
            if zones == frozenset("+") or (zones and "0" not in zones):
                want_chain = [["no_go_boundaries", "property_boundary"]]
            elif zones == frozenset("0"):
                want_chain = [["property_boundary"]]
            else:
                want_chain = [["no_go_boundaries", "property_boundary"], ["property_boundary"]]
            okp = rooted and chain in want_chain
            case = "there are no-go zones" if zones == frozenset("+") else ("there are no no-go zones" if zones == frozenset("0") else "no-go zones undetermined")
            res.ob("R04.2", f"[{case}] the field that enters the domain is the candidate cut against {' then '.join(reversed(chain)) or 'nothing'}", okp, prog.loc(fi, ev.node))
            if not okp:
                res.violation("R04.2", f"unfiltered-field|{case}|{'>'.join(reversed(chain))}|{_vkey(cur)[:30]}", prog.loc(fi, ev.node), q,
                              f"on the path where {case}, the field appended to the candidate domain is {_vkey(v)[:40]} = the candidate cut against [{', '.join(reversed(chain)) or 'nothing'}]"
                              f"{'' if rooted else ' of ' + _vkey(cur)[:40]} instead of the property cut{' followed by the no-go cut' if zones != frozenset('0') else ''}: boreholes outside the property or inside a no-go zone are published")
    if n_app < 1:
        res.ob("R04.2", "the field that enters the domain is the twice-filtered one", False, prog.loc(fi, fi.node))
        res.violation("R04.2", "unfiltered-field", prog.loc(fi, fi.node), q, "no path of the loop over candidates appends a cut field to the candidate domain")
    # the no-go cut may only be skipped when there are no no-go zones
    second = calls[1]
    guard = None
    for n in ast.walk(fi.node):
        if isinstance(n, ast.If) and any(second is x for b_ in n.body for x in ast.walk(b_)):
            guard = n
    okg = guard is None
    if guard is not None:
        from ..paths import Engine, Hooks, State, cmp_is
        from ..sym import Rat
        from .. import sym as _sym

        e_ = Engine(prog, fi, Hooks())
        s_ = State()
        s_.env["no_go_boundaries"] = Rat.atom("no_go_boundaries")
        L_ = _sym.call("len", [Rat.atom("no_go_boundaries")])
        # len(z) > 0 | len(z) >= 1 | len(z) != 0 | z   (the cut is in the branch taken when there ARE zones).  In a conjunction
        # one such part is what this rule asks for; whether the other parts let an uncut field through is decided on the
        # paths above (the field that is appended must have gone through both cuts whenever there are zones)
        parts = guard.test.values if isinstance(guard.test, ast.BoolOp) and isinstance(guard.test.op, ast.And) else [guard.test]
        okg = False
        for pt in parts:
            c_ = e_.cond(pt, s_)
            okg = okg or cmp_is(c_, L_, "+") or cmp_is(c_, L_ - Rat.const(1), "+0") or cmp_is(c_, L_, "+-") or ast.unparse(pt) == "no_go_boundaries"
    res.ob("R04.2", f"the no-go cut is skipped only when there are no no-go zones ({ast.unparse(guard.test) if guard else 'unconditional'})", okg, prog.loc(fi, second))
    if not okg:
        res.violation("R04.2", f"nogo-guard|{ast.unparse(guard.test)}", prog.loc(fi, second), q, f"the no-go cut-out is applied only if '{ast.unparse(guard.test)}'")
    # defaults
    for fq, pname in ((q, "keep_contour"), ("ghedesigner.design.DesignBiRectangleConstrained.__init__", "keep_contour")):
        f2 = prog.func(fq)
        d = f2.defaults().get(pname)
        dv = d
        if isinstance(dv, ast.Name) and dv.id in prog.modules[f2.module].constants:
            dv = prog.modules[f2.module].constants[dv.id]  # a named module-level constant
        try:
            v = ast.literal_eval(dv)
        except Exception:
            v = None
        ok = v == [True, False] or v == (True, False)
        res.ob("R04.2", f"{fq.split('.')[-2]}.{fq.split('.')[-1]}: default keep_contour = [True, False] (got {v})", ok, prog.loc(f2, d) if d is not None else prog.loc(f2, f2.node))
        if not ok:
            res.violation("R04.2", f"default|{fq}|{v}", prog.loc(f2, d) if d is not None else prog.loc(f2, f2.node), fq,
                          f"default keep_contour is {v}: property contour points must be kept ([0] = True) and no-go contour points dropped ([1] = False)")
    # nobody overrides it
    dq = "ghedesigner.design.DesignBiRectangleConstrained.__init__"
    dfi = prog.func(dq)
    call = [c for c in ast.walk(dfi.node) if isinstance(c, ast.Call) and attr_chain(c.func) == "polygonal_land_constraint"]
    if len(call) != 1:
        raise AnalysisError(f"{dq}: call of polygonal_land_constraint not found")
    b = bind_args(fi, call[0])
    from ..model import canonical_chain

    ok = ast.unparse(b.get("keep_contour", ast.Name(id="keep_contour"))) == "keep_contour" and canonical_chain(prog, dfi, b.get("property_boundary")) == "self.geometric_constraints.property_boundary" \
        and canonical_chain(prog, dfi, b.get("no_go_boundaries")) == "self.geometric_constraints.no_go_boundaries"
    res.ob("R04.2", "the design passes the user's property / no-go outlines and its own keep_contour", ok, prog.loc(dfi, call[0]))
    if not ok:
        res.violation("R04.2", "design-call", prog.loc(dfi, call[0]), dq, f"polygonal_land_constraint is called with {[f'{k}={ast.unparse(v)}' for k, v in b.items()]}")
    mq = "ghedesigner.manager.GHEManager.set_design"
    mfi = prog.func(mq)
    over = [c for c in ast.walk(mfi.node) if isinstance(c, ast.Call) and attr_chain(c.func) == "DesignBiRectangleConstrained" and any(k.arg == "keep_contour" for k in c.keywords)]
    res.ob("R04.2", "the manager does not override keep_contour", not over, prog.loc(mfi, mfi.node))
    for c in over:
        res.violation("R04.2", "manager-override", prog.loc(mfi, c), mq, "the manager overrides keep_contour")
    # R04.5 grid over the bounding rectangle
    grid = [c for c in ast.walk(fi.node) if isinstance(c, ast.Call) and attr_chain(c.func) == "bi_rectangle_nested"]
    if len(grid) != 1:
        raise AnalysisError(f"{q}: grid generator call not found")
    defs = {s.targets[0].id: s.value for s in ast.walk(fi.node) if isinstance(s, ast.Assign) and len(s.targets) == 1 and isinstance(s.targets[0], ast.Name)}
    # tuple unpackings  a, b = <expr>  ->  name: (position, expr)
    unpack = {}
    for s in ast.walk(fi.node):
        if isinstance(s, ast.Assign) and len(s.targets) == 1 and isinstance(s.targets[0], ast.Tuple):
            for k_, e_ in enumerate(s.targets[0].elts):
                if isinstance(e_, ast.Name):
                    unpack[e_.id] = (k_, s.value)
    a0, a1 = grid[0].args[0], grid[0].args[1]

    def is_max_of_axis(node, axis_pos):
        """node is max(<coordinate list of axis axis_pos of zip(*R)>) with R = determine_largest_rectangle(property_boundary)"""
        v = defs.get(node.id) if isinstance(node, ast.Name) else node

        def is_rect(r):
            r = defs.get(r.id) if isinstance(r, ast.Name) else r
            return isinstance(r, ast.Call) and attr_chain(r.func) == "determine_largest_rectangle" and len(r.args) == 1 and ast.unparse(r.args[0]) == "property_boundary"

        # max(c[k] for c in R)  /  max([c[k] for c in R]): the same maximum over the corners, taken without unzipping
        if isinstance(v, ast.Call) and attr_chain(v.func) == "max" and len(v.args) == 1 and isinstance(v.args[0], (ast.GeneratorExp, ast.ListComp)):
            g = v.args[0]
            return (len(g.generators) == 1 and not g.generators[0].ifs and isinstance(g.generators[0].target, ast.Name) and is_rect(g.generators[0].iter)
                    and isinstance(g.elt, ast.Subscript) and isinstance(g.elt.value, ast.Name) and g.elt.value.id == g.generators[0].target.id
                    and isinstance(g.elt.slice, ast.Constant) and g.elt.slice.value == axis_pos)
        if not (isinstance(v, ast.Call) and attr_chain(v.func) == "max" and len(v.args) == 1 and isinstance(v.args[0], ast.Name)):
            return False
        u = unpack.get(v.args[0].id)
        if u is None or u[0] != axis_pos:
            return False
        z = u[1]
        while isinstance(z, ast.Call) and attr_chain(z.func) in ("list", "tuple") and len(z.args) == 1:
            z = z.args[0]
        if not (isinstance(z, ast.Call) and attr_chain(z.func) == "zip" and len(z.args) == 1 and isinstance(z.args[0], ast.Starred)):
            return False
        r = z.args[0].value
        r = defs.get(r.id) if isinstance(r, ast.Name) else r
        return isinstance(r, ast.Call) and attr_chain(r.func) == "determine_largest_rectangle" and len(r.args) == 1 and ast.unparse(r.args[0]) == "property_boundary"

    ok = is_max_of_axis(a0, 0) and is_max_of_axis(a1, 1)
    res.ob("R04.5", "the grid spans (max x, max y) of the bounding rectangle of all property outlines", ok, prog.loc(fi, grid[0]))
    if not ok:
        res.violation("R04.5", f"grid-extent|{ast.unparse(defs.get(a0.id, a0) if isinstance(a0, ast.Name) else a0)[:40]}|{ast.unparse(defs.get(a1.id, a1) if isinstance(a1, ast.Name) else a1)[:40]}", prog.loc(fi, grid[0]), q,
                      f"the candidate grid is generated for ({ast.unparse(a0)}, {ast.unparse(a1)}) instead of (max x, max y) of the property's bounding rectangle")
    dl = prog.func(f"{FR}.determine_largest_rectangle")
    res.analysed(dl.qualname)
    # accumulators  A = max|min(<coordinate k of every vertex of every outline>, A)
    acc = {}  # (func, axis) -> accumulator name
    for lp in ast.walk(dl.node):
        if isinstance(lp, ast.For) and isinstance(lp.target, ast.Tuple) and len(lp.target.elts) == 2 and all(isinstance(e_, ast.Name) for e_ in lp.target.elts):
            # the vertex loop must run over an element of an outer loop over the parameter (every outline)
            outer = next((o for o in ast.walk(dl.node) if isinstance(o, ast.For) and o is not lp and any(lp is x for x in ast.walk(o))), None)
            every = outer is not None and isinstance(outer.target, ast.Name) and ast.unparse(lp.iter) == outer.target.id and ast.unparse(outer.iter) == dl.params()[0]
            # the same walk in one loop: chain.from_iterable(outlines) / chain(*outlines)
            it_ = lp.iter
            if not every and isinstance(it_, ast.Call) and attr_chain(it_.func) in ("chain.from_iterable", "itertools.chain.from_iterable") and len(it_.args) == 1 and ast.unparse(it_.args[0]) == dl.params()[0]:
                every = True
            if not every and isinstance(it_, ast.Call) and attr_chain(it_.func) in ("chain", "itertools.chain") and len(it_.args) == 1 and isinstance(it_.args[0], ast.Starred) and ast.unparse(it_.args[0].value) == dl.params()[0]:
                every = True
            if not every:
                continue
            axis = {lp.target.elts[0].id: 0, lp.target.elts[1].id: 1}
            for s in lp.body:
                if isinstance(s, ast.Assign) and len(s.targets) == 1 and isinstance(s.targets[0], ast.Name) and isinstance(s.value, ast.Call) and attr_chain(s.value.func) in ("max", "min") and len(s.value.args) == 2:
                    names = [a.id for a in s.value.args if isinstance(a, ast.Name)]
                    t = s.targets[0].id
                    if len(names) == 2 and t in names:
                        other = names[0] if names[1] == t else names[1]
                        if other in axis:
                            acc[(attr_chain(s.value.func), axis[other])] = t
    ok = set(acc) == {("max", 0), ("max", 1), ("min", 0), ("min", 1)}
    if ok:
        # the returned rectangle has a vertex with x = max-x accumulator and one with y = max-y accumulator
        rets = [r for r in ast.walk(dl.node) if isinstance(r, ast.Return) and r.value is not None]
        ok = False
        if len(rets) == 1:
            rv = rets[0].value
            if isinstance(rv, ast.Name):
                rv = next((s.value for s in ast.walk(dl.node) if isinstance(s, ast.Assign) and len(s.targets) == 1 and isinstance(s.targets[0], ast.Name) and s.targets[0].id == rv.id), rv)
            if isinstance(rv, (ast.List, ast.Tuple)) and any(isinstance(e_, ast.Name) for e_ in rv.elts):
                # corners held in locals bound once to [x, y]: read through them (the accumulators themselves are not expanded)
                once_ = {}
                for s in ast.walk(dl.node):
                    if isinstance(s, ast.Assign) and len(s.targets) == 1 and isinstance(s.targets[0], ast.Name) and isinstance(s.value, (ast.List, ast.Tuple)) and len(s.value.elts) == 2:
                        once_.setdefault(s.targets[0].id, []).append(s.value)
                rv = ast.List(elts=[once_[e_.id][0] if isinstance(e_, ast.Name) and len(once_.get(e_.id, [])) == 1 else e_ for e_ in rv.elts], ctx=ast.Load())
            if isinstance(rv, (ast.List, ast.Tuple)) and all(isinstance(e_, (ast.List, ast.Tuple)) and len(e_.elts) == 2 for e_ in rv.elts):
                xs = {ast.unparse(e_.elts[0]) for e_ in rv.elts}
                ys = {ast.unparse(e_.elts[1]) for e_ in rv.elts}
                ok = xs == {acc[("max", 0)], acc[("min", 0)]} and ys == {acc[("max", 1)], acc[("min", 1)]}
    res.ob("R04.5", "the bounding rectangle takes max / min of x and y over every vertex of every outline and returns those corners", ok, prog.loc(dl, dl.node))
    if not ok:
        res.violation("R04.5", "bounding-rectangle", prog.loc(dl, dl.node), dl.qualname, "determine_largest_rectangle no longer accumulates max(x), max(y), min(x), min(y) over all outlines into the corners it returns")


def _check_codes(prog: Program, res: Result):
    q = f"{SH}.point_polygon_check"
    fi = prog.func(q)
    res.analysed(q)
    codes = []
    final = None
    for r in ast.walk(fi.node):
        if isinstance(r, ast.Return) and r.value is not None:
            v = r.value
            if isinstance(v, (ast.Constant, ast.UnaryOp)):
                try:
                    codes.append((ast.literal_eval(v), r))
                except Exception:
                    raise AnalysisError(f"{q}: return value not understood: {ast.unparse(v)}")
            elif isinstance(v, ast.IfExp):
                final = r
                for x in (v.body, v.orelse):
                    codes.append((ast.literal_eval(x), r))
            else:
                # nested helper functions return floats / bools: skip those
                if any(r is x for f2 in ast.walk(fi.node) if isinstance(f2, ast.FunctionDef) and f2 is not fi.node for x in ast.walk(f2)):
                    continue
                raise AnalysisError(f"{q}: return value not understood: {ast.unparse(v)}")
    # drop returns of nested helpers
    nested = [f2 for f2 in ast.walk(fi.node) if isinstance(f2, ast.FunctionDef) and f2 is not fi.node]
    codes = [(c, r) for c, r in codes if not any(r is x for f2 in nested for x in ast.walk(f2))]
    vals = {c for c, _ in codes}
    ok = vals == {-1, 0, 1}
    res.ob("R04.3", f"point_polygon_check returns exactly the codes -1 / 0 / 1 (got {sorted(vals)})", ok, prog.loc(fi, fi.node))
    if not ok:
        res.violation("R04.3", f"codes|{sorted(vals)}", prog.loc(fi, fi.node), q, f"point_polygon_check returns {sorted(vals)}; remove_cutout understands 1 = inside, 0 = on edge, anything else = outside")
    # on-edge exits: 'return 0' only under the distance test or under a zero cross product
    for c, r in codes:
        if c == 0:
            guard = None
            for n in ast.walk(fi.node):
                if isinstance(n, ast.If) and any(r is x for b_ in n.body for x in ast.walk(b_)):
                    guard = n
            t = ast.unparse(guard.test) if guard is not None else ""
            if guard is not None and unpinned_helper_calls(prog, fi, guard.test):
                raise AnalysisError(f"{q}: the on-edge test is delegated to {unpinned_helper_calls(prog, fi, guard.test)}, a helper the inliner could not expand (generator / return inside a loop)")
            ok = "on_edge_tolerance" in t and "<" in t
            gt = guard.test if guard is not None else None
            if not ok and isinstance(gt, ast.Compare) and len(gt.ops) == 1 and isinstance(gt.ops[0], ast.Eq) and isinstance(gt.left, ast.Name) \
                    and isinstance(gt.comparators[0], ast.Constant) and gt.comparators[0].value == 0:
                # <name> == 0 with <name> a cross product  a * b - c * d
                ok = any(isinstance(s_, ast.Assign) and len(s_.targets) == 1 and isinstance(s_.targets[0], ast.Name) and s_.targets[0].id == gt.left.id
                         and isinstance(s_.value, ast.BinOp) and isinstance(s_.value.op, ast.Sub)
                         and isinstance(s_.value.left, ast.BinOp) and isinstance(s_.value.left.op, ast.Mult)
                         and isinstance(s_.value.right, ast.BinOp) and isinstance(s_.value.right.op, ast.Mult) for s_ in ast.walk(fi.node))
                t = "<cross product> == 0" if ok else t
            res.ob("R04.3", f"code 0 is returned on an on-edge exit ({t})", ok, prog.loc(fi, r))
            if not ok:
                res.violation("R04.3", f"zero-exit|{t}", prog.loc(fi, r), q, f"code 0 (on edge) is returned under '{t}', which is not an on-edge condition")
    # the polygon that is tested is the polygon that was given: the contour parameter is only ever re-bound to itself
    # (list / tuple / array of it) or to itself without the repeated closing vertex of a closed ring
    cpar = fi.params()[0]
    for s_ in ast.walk(fi.node):
        tg = s_.targets if isinstance(s_, ast.Assign) else ([s_.target] if isinstance(s_, (ast.AugAssign, ast.AnnAssign)) else [])
        if not any(isinstance(t_, ast.Name) and t_.id == cpar for t_ in tg):
            continue
        v = getattr(s_, "value", None)
        okv = False
        if isinstance(v, ast.Call) and attr_chain(v.func) in ("list", "tuple", "np.array", "np.asarray", "numpy.array", "numpy.asarray") and len(v.args) == 1 and ast.unparse(v.args[0]) == cpar:
            okv = True
        elif isinstance(v, ast.Subscript) and ast.unparse(v.value) == cpar and isinstance(v.slice, ast.Slice) and v.slice.step is None:
            lo = ast.unparse(v.slice.lower) if v.slice.lower is not None else "0"
            hi = ast.unparse(v.slice.upper) if v.slice.upper is not None else "end"
            one_end = (lo == "0" and hi == "-1") or (lo == "1" and hi == "end")
            guard = next((g for g in ast.walk(fi.node) if isinstance(g, ast.If) and any(s_ is x for b_ in g.body for x in ast.walk(b_))), None)
            gt_ = ast.unparse(guard.test) if guard is not None else ""
            okv = one_end and f"{cpar}[0]" in gt_ and f"{cpar}[-1]" in gt_ and "==" in gt_
        res.ob("R04.3", f"point_polygon_check tests the polygon it is given ('{norm_stmt(s_)[:60]}' keeps every distinct vertex)", okv, prog.loc(fi, s_))
        if not okv:
            res.violation("R04.3", f"contour-rebound|{norm_stmt(s_)[:60]}", prog.loc(fi, s_), q,
                          f"'{norm_stmt(s_)[:80]}' replaces the polygon under test by something that is not the same set of vertices: points near the dropped vertices are classified against a different polygon")
    # inside / outside is decided only after every edge was examined: within the edge loops only the on-edge code 0 may be returned
    for lp in [n for n in ast.walk(fi.node) if isinstance(n, (ast.For, ast.While))]:
        for r in ast.walk(lp):
            if isinstance(r, ast.Return) and r.value is not None and not any(r is x for f2 in nested for x in ast.walk(f2)):
                try:
                    code = ast.literal_eval(r.value)
                except Exception:  # noqa: BLE001
                    code = None
                if code != 0:
                    res.ob("R04.3", "inside / outside is returned only after all edges were examined", False, prog.loc(fi, r))
                    res.violation("R04.3", f"early-exit|{ast.unparse(r.value)[:20]}", prog.loc(fi, r), q,
                                  f"'{norm_stmt(r)}' inside the edge loop decides inside / outside before all edges were counted: a ray that crosses the outline more than twice (U- or comb-shaped polygon) is misclassified")
    # parity
    if final is None:
        raise AnalysisError(f"{q}: final parity return not found")
    ft = final.value.test
    if isinstance(ft, ast.Name) and any(isinstance(s_, ast.AugAssign) and isinstance(s_.target, ast.Name) and s_.target.id == ft.id for s_ in ast.walk(fi.node)):
        # a crossing COUNTER tested for truth: "inside iff any crossing" instead of "iff an odd number"
        res.ob("R04.3", "the final code depends on the PARITY of the crossings", False, prog.loc(fi, final))
        res.violation("R04.3", f"parity|counter-truth|{ast.unparse(final.value)[:40]}", prog.loc(fi, final), q,
                      f"'{norm_stmt(final)}' reports inside whenever the crossing count is non-zero; it must depend on the count being odd")
        return
    if isinstance(ft, ast.BinOp) and isinstance(ft.op, ast.Mod) and isinstance(ft.left, ast.Name) and isinstance(ft.right, ast.Constant) and ft.right.value == 2 \
            or (isinstance(ft, ast.Compare) and len(ft.ops) == 1 and isinstance(ft.left, ast.BinOp) and isinstance(ft.left.op, ast.Mod) and isinstance(ft.left.left, ast.Name)
                and isinstance(ft.left.right, ast.Constant) and ft.left.right.value == 2 and isinstance(ft.comparators[0], ast.Constant)):
        # counter form:  C = 0 ; C += 1 per crossing ; return A if C % 2 [== 1] else B
        cnt = ft.left.id if isinstance(ft, ast.BinOp) else ft.left.left.id
        odd_true = True if isinstance(ft, ast.BinOp) else ((isinstance(ft.ops[0], ast.Eq) and ft.comparators[0].value == 1) or (isinstance(ft.ops[0], ast.NotEq) and ft.comparators[0].value == 0))
        incs = [s_ for s_ in ast.walk(fi.node) if isinstance(s_, ast.AugAssign) and isinstance(s_.target, ast.Name) and s_.target.id == cnt and isinstance(s_.op, ast.Add)
                and isinstance(s_.value, ast.Constant) and s_.value.value == 1]
        init0 = any(isinstance(s_, ast.Assign) and len(s_.targets) == 1 and isinstance(s_.targets[0], ast.Name) and s_.targets[0].id == cnt and isinstance(s_.value, ast.Constant) and s_.value.value == 0 for s_ in ast.walk(fi.node))
        if len(incs) != 1 or not init0:
            raise AnalysisError(f"{q}: crossing counter not understood")
        a, b = ast.literal_eval(final.value.body), ast.literal_eval(final.value.orelse)
        odd, even = (a, b) if odd_true else (b, a)
        ok = even == -1 and odd == 1
        res.ob("R04.3", f"even number of crossings -> -1 (outside), odd -> 1 (inside) (got even={even}, odd={odd})", ok, prog.loc(fi, final))
        if not ok:
            res.violation("R04.3", f"parity|even={even}|odd={odd}", prog.loc(fi, final), q, f"an even number of crossings returns {even} and an odd number {odd}; expected -1 (outside) and 1 (inside)")
        return
    # signed crossing count (winding number):  W = 0 ; W += +1 / -1 by the direction of the crossing ; inside iff W != 0
    wname = None
    if isinstance(ft, ast.Compare) and len(ft.ops) == 1:
        l_, r_ = ft.left, ft.comparators[0]
        if isinstance(l_, ast.Name) and isinstance(r_, ast.Constant) and r_.value == 0:
            wname = l_.id
        elif isinstance(r_, ast.Name) and isinstance(l_, ast.Constant) and l_.value == 0:  # the load-time normalisation writes  w > 0  as  0 < w
            wname = r_.id
    if wname is not None:
        incs = [s_ for s_ in ast.walk(fi.node) if isinstance(s_, ast.AugAssign) and isinstance(s_.target, ast.Name) and s_.target.id == wname]
        signed = any(isinstance(s_.op, ast.Sub) or isinstance(s_.value, ast.IfExp) or (isinstance(s_.value, ast.UnaryOp) and isinstance(s_.value.op, ast.USub)) for s_ in incs)
        init0 = any(isinstance(s_, ast.Assign) and len(s_.targets) == 1 and isinstance(s_.targets[0], ast.Name) and s_.targets[0].id == wname and isinstance(s_.value, ast.Constant) and s_.value.value == 0 for s_ in ast.walk(fi.node))
        if incs and signed and init0:
            a, b = ast.literal_eval(final.value.body), ast.literal_eval(final.value.orelse)
            op = ft.ops[0]
            if isinstance(op, (ast.NotEq, ast.Eq)):
                nonzero, zero = (a, b) if isinstance(op, ast.NotEq) else (b, a)
                ok = nonzero == 1 and zero == -1
                res.ob("R04.3", f"winding number: non-zero -> 1 (inside), zero -> -1 (outside) (got non-zero={nonzero}, zero={zero})", ok, prog.loc(fi, final))
                if not ok:
                    res.violation("R04.3", f"winding|nonzero={nonzero}|zero={zero}", prog.loc(fi, final), q, f"a non-zero winding number returns {nonzero} and zero returns {zero}; expected 1 (inside) and -1 (outside)")
            else:
                res.ob("R04.3", "the final code does not depend on the ORIENTATION of the outline", False, prog.loc(fi, final))
                res.violation("R04.3", f"winding|one-sided|{ast.unparse(ft)}", prog.loc(fi, final), q,
                              f"'{norm_stmt(final)}' reports inside only for one sign of the signed crossing count: an outline given in the other orientation (clockwise / counter-clockwise) has no interior, "
                              "so a no-go zone drawn that way removes nothing and a property drawn that way keeps nothing")
            return
    var = final.value.test.id if isinstance(final.value.test, ast.Name) else None
    init = None
    toggles = 0
    for s in ast.walk(fi.node):
        if isinstance(s, ast.Assign) and len(s.targets) == 1 and isinstance(s.targets[0], ast.Name) and s.targets[0].id == var:
            if isinstance(s.value, ast.Constant) and isinstance(s.value.value, bool):
                init = s.value.value
            elif isinstance(s.value, ast.UnaryOp) and isinstance(s.value.op, ast.Not) and ast.unparse(s.value.operand) == var:
                toggles += 1
    if var is None or init is None or toggles != 1:
        raise AnalysisError(f"{q}: crossing-parity variable not understood")
    a, b = ast.literal_eval(final.value.body), ast.literal_eval(final.value.orelse)
    even = a if init else b
    odd = b if init else a
    ok = even == -1 and odd == 1
    res.ob("R04.3", f"even number of crossings -> -1 (outside), odd -> 1 (inside) (got even={even}, odd={odd})", ok, prog.loc(fi, final))
    if not ok:
        res.violation("R04.3", f"parity|even={even}|odd={odd}", prog.loc(fi, final), q, f"an even number of crossings returns {even} and an odd number {odd}; expected -1 (outside) and 1 (inside)")


def _check_order(prog: Program, res: Result):
    q = f"{DOM}.polygonal_land_constraint"
    fi = prog.func(q)
    ret = [r for r in fi.node.body if isinstance(r, ast.Return)]
    names = [e.id for e in ret[-1].value.elts if isinstance(e, ast.Name)] if ret and isinstance(ret[-1].value, ast.Tuple) else []
    if len(names) != 2:
        raise AnalysisError(f"{q}: return value is not (domains, descriptors)")
    # every other way out of the function hands back fields that did not pass through THIS call's cut-outs: acceptable only
    # for a memo whose key names every parameter (property outline, no-go zones, spacings, contour flags)
    params_ = [p_ for p_ in fi.params()]
    for r in ast.walk(fi.node):
        if isinstance(r, ast.Return) and r not in ret and r.value is not None:
            okm = False
            missing = params_
            v = r.value
            if isinstance(v, ast.Subscript) and isinstance(v.value, ast.Name):
                k = v.slice
                if isinstance(k, ast.Name):
                    k = next((s_.value for s_ in ast.walk(fi.node) if isinstance(s_, ast.Assign) and len(s_.targets) == 1 and isinstance(s_.targets[0], ast.Name) and s_.targets[0].id == k.id), k)
                used = {x.id for x in ast.walk(k) if isinstance(x, ast.Name)}
                missing = [p_ for p_ in params_ if p_ not in used]
                okm = not missing
            res.ob("R04.1", f"'{norm_stmt(r)[:60]}' returns stored fields only under a key that names every parameter", okm, prog.loc(fi, r))
            if not okm:
                res.violation("R04.1", f"bypass|{norm_stmt(r)[:60]}|{missing}", prog.loc(fi, r), q,
                              f"'{norm_stmt(r)[:80]}' leaves polygonal_land_constraint without cutting the grid against this call's outlines; the stored result it returns does not depend on {missing}: "
                              "boreholes computed for another property / no-go layout are handed back")
    dom_list = names[0]
    # what is appended to the returned list must come from reorder_domain
    apps = [n for n in ast.walk(fi.node) if isinstance(n, ast.Call) and isinstance(n.func, ast.Attribute) and n.func.attr == "append" and attr_chain(n.func.value) == dom_list]
    ok = False
    for a in apps:
        if isinstance(a.args[0], ast.Name):
            for s in ast.walk(fi.node):
                if isinstance(s, ast.Assign) and isinstance(s.targets[0], ast.Tuple) and any(isinstance(e, ast.Name) and e.id == a.args[0].id for e in s.targets[0].elts) \
                        and isinstance(s.value, ast.Call) and attr_chain(s.value.func) == "reorder_domain" and s.targets[0].elts[0].id == a.args[0].id:
                    ok = True
    res.ob("R04.4", "every candidate list returned has passed through reorder_domain", ok and len(apps) == 1, prog.loc(fi, apps[0]) if apps else prog.loc(fi, fi.node))
    if not (ok and len(apps) == 1):
        res.violation("R04.4", "not-reordered", prog.loc(fi, apps[0]) if apps else prog.loc(fi, fi.node), q,
                      "a candidate list is returned without passing through reorder_domain: after the cut-outs the lists are no longer ordered by borehole count, which the bisection relies on")
    rq = f"{DOM}.reorder_domain"
    rfi = prog.func(rq)
    res.analysed(rq)
    once = {}
    nst = {}
    for s_ in ast.walk(rfi.node):
        if isinstance(s_, ast.Name) and isinstance(s_.ctx, ast.Store):
            nst[s_.id] = nst.get(s_.id, 0) + 1
    for s_ in ast.walk(rfi.node):
        if isinstance(s_, ast.Assign) and len(s_.targets) == 1 and isinstance(s_.targets[0], ast.Name) and nst.get(s_.targets[0].id) == 1:
            once[s_.targets[0].id] = s_.value

    def through(e):
        # a local bound once stands for its value; list(x) of an iterable is that iterable as far as sorting goes
        for _ in range(3):
            if isinstance(e, ast.Name) and e.id in once:
                e = once[e.id]
            elif isinstance(e, ast.Call) and attr_chain(e.func) == "list" and len(e.args) == 1 and not e.keywords:
                e = e.args[0]
            else:
                break
        return e

    # the sort: sorted(pairs, key=..)  or  pairs = list(..); pairs.sort(key=..)  - both are the stable built-in sort
    srt = [c for c in ast.walk(rfi.node) if isinstance(c, ast.Call) and attr_chain(c.func) == "sorted"]
    inplace = [c for c in ast.walk(rfi.node) if isinstance(c, ast.Call) and isinstance(c.func, ast.Attribute) and c.func.attr == "sort" and isinstance(c.func.value, ast.Name)
               and c.func.value.id in once and not c.args]
    if len(srt) + len(inplace) != 1:
        res.violation("R04.4", "no-sorted", prog.loc(rfi, rfi.node), rq, "reorder_domain no longer sorts with the stable built-in sorted()")
        return
    site = (srt + inplace)[0]
    sorted_local = inplace[0].func.value.id if inplace else None
    kw = {k.arg: k.value for k in site.keywords}
    rev = kw.get("reverse")
    asc = rev is None or (isinstance(rev, ast.Constant) and rev.value is False)
    key = kw.get("key")
    key_arg, key_body = None, None
    if isinstance(key, ast.Lambda) and len(key.args.args) == 1:
        key_arg, key_body = key.args.args[0].arg, key.body
    elif isinstance(key, ast.Name):
        # a named key function (local or module level) with a single return
        fdefs = [f_ for f_ in ast.walk(rfi.node) if isinstance(f_, ast.FunctionDef) and f_.name == key.id and f_ is not rfi.node]
        if not fdefs:
            kf = prog.funcs.get(f"{DOM}.{key.id}")
            fdefs = [kf.node] if kf is not None else []
        if len(fdefs) == 1:
            body_ = [b_ for b_ in fdefs[0].body if not (isinstance(b_, ast.Expr) and isinstance(b_.value, ast.Constant))]
            if len(body_) == 1 and isinstance(body_[0], ast.Return) and len(fdefs[0].args.args) == 1 and body_[0].value is not None:
                key_arg, key_body = fdefs[0].args.args[0].arg, body_[0].value
    okk = key_body is not None and ast.unparse(key_body).replace(" ", "") == f"len({key_arg}[0])"
    arg = through(site.args[0]) if srt and site.args else (through(ast.Name(id=sorted_local, ctx=ast.Load())) if inplace else None)
    okz = isinstance(arg, ast.Call) and attr_chain(arg.func) == "zip" and [ast.unparse(a) for a in arg.args] == ["domain", "descriptors"]
    res.ob("R04.4", "reorder_domain: sorted(zip(domain, descriptors), key = size of the field), ascending", bool(asc and okk and okz), prog.loc(rfi, site))
    if not asc:
        res.violation("R04.4", "descending", prog.loc(rfi, site), rq, "reorder_domain sorts in descending order: candidate lists must be ordered by non-decreasing borehole count")
    if not okk:
        res.violation("R04.4", f"sort-key|{ast.unparse(key) if key is not None else None}", prog.loc(rfi, site), rq, f"reorder_domain sorts by {ast.unparse(key) if key is not None else 'the tuples themselves'} instead of the number of boreholes of each field")
    if not okz:
        res.violation("R04.4", "sort-pairs", prog.loc(rfi, site), rq, "reorder_domain does not sort (field, descriptor) pairs together")
    rets = [x for x in ast.walk(rfi.node) if isinstance(x, ast.Return) and not any(x is y for f_ in ast.walk(rfi.node) if isinstance(f_, ast.FunctionDef) and f_ is not rfi.node for y in ast.walk(f_))]

    def is_sorted_value(e) -> bool:
        if srt:
            e2 = through(e) if isinstance(e, ast.Name) else e
            return any(c is srt[0] for c in ast.walk(e2))
        return isinstance(e, ast.Name) and e.id == sorted_local

    sorted_rets = [x for x in rets if isinstance(x.value, ast.Call) and attr_chain(x.value.func) == "zip" and x.value.args and isinstance(x.value.args[0], ast.Starred)
                   and is_sorted_value(x.value.args[0].value) and (not inplace or inplace[0].lineno < x.lineno)]
    okr = bool(sorted_rets)
    res.ob("R04.4", "reorder_domain returns the sorted pairs unzipped (fields, descriptors)", okr, prog.loc(rfi, rfi.node))
    if not okr:
        res.violation("R04.4", "unzip", prog.loc(rfi, rfi.node), rq, "reorder_domain does not return zip(*sorted(...))")
    # any other way out hands the lists back as they came: allowed only under a test that establishes the order of EVERY adjacent pair
    sizes_of = {}
    for s_ in ast.walk(rfi.node):
        if isinstance(s_, ast.Assign) and len(s_.targets) == 1 and isinstance(s_.targets[0], ast.Name) and isinstance(s_.value, ast.ListComp) and len(s_.value.generators) == 1 \
                and isinstance(s_.value.elt, ast.Call) and attr_chain(s_.value.elt.func) == "len" and ast.unparse(s_.value.generators[0].iter) == rfi.params()[0] and not s_.value.generators[0].ifs:
            sizes_of[s_.targets[0].id] = True

    def complete_order_test(t) -> bool:
        if not (isinstance(t, ast.Call) and attr_chain(t.func) == "all" and len(t.args) == 1 and isinstance(t.args[0], (ast.GeneratorExp, ast.ListComp)) and len(t.args[0].generators) == 1):
            return False
        g = t.args[0].generators[0]
        e = t.args[0].elt
        if g.ifs or not isinstance(g.target, ast.Name) or not (isinstance(e, ast.Compare) and len(e.ops) == 1 and isinstance(e.ops[0], (ast.LtE, ast.Lt))):
            return False
        i = g.target.id
        it = ast.unparse(g.iter).replace(" ", "")
        lhs, rhs = ast.unparse(e.left).replace(" ", ""), ast.unparse(e.comparators[0]).replace(" ", "")
        for S in sizes_of:
            if it == f"range(len({S})-1)" and lhs == f"{S}[{i}]" and rhs == f"{S}[{i}+1]":
                return True
            if it == f"range(1,len({S}))" and lhs == f"{S}[{i}-1]" and rhs == f"{S}[{i}]":
                return True
        return False

    for x in rets:
        if x in sorted_rets:
            continue
        guard = next((n for n in ast.walk(rfi.node) if isinstance(n, ast.If) and any(x is y for b_ in n.body for y in ast.walk(b_))), None)
        okg = guard is not None and complete_order_test(guard.test)
        res.ob("R04.4", f"'{norm_stmt(x)[:50]}' leaves the lists as they came only after testing every adjacent pair of sizes", okg, prog.loc(rfi, x))
        if not okg:
            res.violation("R04.4", f"unsorted-return|{norm_stmt(guard.test)[:60] if guard is not None else 'unguarded'}", prog.loc(rfi, x), rq,
                          f"reorder_domain returns the lists unsorted{' when ' + norm_stmt(guard.test)[:90] if guard is not None else ''}: that does not establish sizes[i] <= sizes[i + 1] for every adjacent pair, "
                          "so a list that is out of order (a cut-out can shrink a denser field below a sparser one) is handed to the bisection as it is")


VARIANTS = [
    Variant("edge tolerance of both cuts tied to the minimum spacing (seeded C04_l)", "break",
            [(DOM, "                coordinates, property_boundary, remove_inside=False, keep_contour=keep_contour[0]\n", "                coordinates, property_boundary, remove_inside=False, keep_contour=keep_contour[0], on_edge_tolerance=b_min / 500\n"),
             (DOM, "                    new_coordinates, no_go_boundaries, remove_inside=True, keep_contour=keep_contour[1]\n", "                    new_coordinates, no_go_boundaries, remove_inside=True, keep_contour=keep_contour[1], on_edge_tolerance=b_min / 500\n")], "R04.2"),
    Variant("edge tolerance of both cuts spelled out as the documented 0.01", "benign",
            [(DOM, "                coordinates, property_boundary, remove_inside=False, keep_contour=keep_contour[0]\n", "                coordinates, property_boundary, remove_inside=False, keep_contour=keep_contour[0], on_edge_tolerance=0.01\n")]),
    Variant("a borehole must lie in exactly one property outline (seeded C04_k)", "break",
            [(FR, "        elif (inside in boundary_results) or (on_edge in boundary_results and keep_contour):", "        elif (boundary_results.count(inside) == 1) or (on_edge in boundary_results and keep_contour):")], "R04.1"),
    Variant("membership written as a count test", "benign",
            [(FR, "        elif (inside in boundary_results) or (on_edge in boundary_results and keep_contour):", "        elif (boundary_results.count(inside) >= 1) or (on_edge in boundary_results and keep_contour):")]),
    Variant("no-go mode decided by an early-exit scan that breaks on 'inside' only: an on-edge answer is overwritten (seeded C04_j)", "break",
            [(FR, "        boundary_results = []\n", "        if remove_inside:\n            result = -1\n            for boundary in boundaries:\n                result = point_polygon_check(boundary, coordinate, on_edge_tolerance=on_edge_tolerance)\n                if result == inside:\n                    break\n            if result != inside and not (result == on_edge and not keep_contour):\n                new_coordinates.append(coordinate)\n            continue\n        boundary_results = []\n")], "R04.1"),
    Variant("no-go mode decided by an early-exit scan that breaks on every deciding answer", "benign",
            [(FR, "        boundary_results = []\n", "        if remove_inside:\n            result = -1\n            for boundary in boundaries:\n                result = point_polygon_check(boundary, coordinate, on_edge_tolerance=on_edge_tolerance)\n                if result == inside or (result == on_edge and not keep_contour):\n                    break\n            if result != inside and not (result == on_edge and not keep_contour):\n                new_coordinates.append(coordinate)\n            continue\n        boundary_results = []\n")]),
    Variant("no-go zones without a vertex in the property's bounding box are dropped before the cut (seeded C04_i)", "break",
            [(DOM, "    coordinates_domain_nested, field_descriptors = bi_rectangle_nested(length, width, b_min, b_max_x, b_max_y)\n\n    coordinates_domain_nested_cutout = []",
              "    no_go_boundaries = [zone for zone in no_go_boundaries if any(min(x) <= x_ng <= max(x) and min(y) <= y_ng <= max(y) for x_ng, y_ng in zone)]\n    coordinates_domain_nested, field_descriptors = bi_rectangle_nested(length, width, b_min, b_max_x, b_max_y)\n\n    coordinates_domain_nested_cutout = []")], "R04.2"),
    Variant("no-go zones copied into a list before the cut", "benign",
            [(DOM, "    coordinates_domain_nested, field_descriptors = bi_rectangle_nested(length, width, b_min, b_max_x, b_max_y)\n\n    coordinates_domain_nested_cutout = []",
              "    no_go_boundaries = list(no_go_boundaries)\n    coordinates_domain_nested, field_descriptors = bi_rectangle_nested(length, width, b_min, b_max_x, b_max_y)\n\n    coordinates_domain_nested_cutout = []")]),
    Variant("ray cast rewritten as a winding number that counts only one orientation as inside (seeded C04_g)", "break",
            [(SHM, "    inside = True\n    px = point[0]", "    winding = 0\n    px = point[0]"), (SHM, "                inside = not inside\n\n    return -1 if inside else 1", "                winding += 1 if v1y < v2y else -1\n\n    return 1 if winding > 0 else -1")], "R04.3"),
    Variant("ray cast rewritten as a winding number, inside iff non-zero", "benign",
            [(SHM, "    inside = True\n    px = point[0]", "    winding = 0\n    px = point[0]"), (SHM, "                inside = not inside\n\n    return -1 if inside else 1", "                winding += 1 if v1y < v2y else -1\n\n    return 1 if winding != 0 else -1")]),
    Variant("reorder_domain skips the sort when all but the last pair are in order (seeded C04_h)", "break",
            [(DOM, "    return zip(*sorted(zip(domain, descriptors), key=lambda x: len(x[0])))", "    sizes = [len(field) for field in domain]\n    if all(sizes[i] <= sizes[i + 1] for i in range(len(sizes) - 2)):\n        return tuple(domain), tuple(descriptors[: len(domain)])\n\n    return zip(*sorted(zip(domain, descriptors), key=lambda x: len(x[0])))")], "R04.4"),
    Variant("reorder_domain skips the sort when every adjacent pair is in order", "benign",
            [(DOM, "    return zip(*sorted(zip(domain, descriptors), key=lambda x: len(x[0])))", "    sizes = [len(field) for field in domain]\n    if all(sizes[i] <= sizes[i + 1] for i in range(len(sizes) - 1)):\n        return tuple(domain), tuple(descriptors[: len(domain)])\n\n    return zip(*sorted(zip(domain, descriptors), key=lambda x: len(x[0])))")]),
    Variant("outlines with three corners or fewer are skipped (seeded C04_f)", "break",
            [(FR, "        boundaries = [boundaries]\n", "        boundaries = [boundaries]\n    boundaries = [boundary for boundary in boundaries if len(boundary) > 3]\n")], "R04.1"),
    Variant("outlines copied into a list before the loop", "benign",
            [(FR, "        boundaries = [boundaries]\n", "        boundaries = [boundaries]\n    boundaries = list(boundaries)\n")]),
    Variant("two-stage refactor: without no-go zones the raw candidate is published (seeded C04_e)", "break",
            [(DOM, "            new_coordinates = remove_cutout(\n                coordinates, property_boundary, remove_inside=False, keep_contour=keep_contour[0]\n            )\n            if len(new_coordinates) == 0:\n                continue\n",
              "            on_property = remove_cutout(\n                coordinates, property_boundary, remove_inside=False, keep_contour=keep_contour[0]\n            )\n            if len(on_property) == 0:\n                continue\n"),
             (DOM, "                new_coordinates = remove_cutout(\n                    new_coordinates, no_go_boundaries, remove_inside=True, keep_contour=keep_contour[1]\n                )\n", "                new_coordinates = remove_cutout(\n                    on_property, no_go_boundaries, remove_inside=True, keep_contour=keep_contour[1]\n                )\n            else:\n                new_coordinates = coordinates\n")], "R04.2"),
    Variant("two-stage refactor: without no-go zones the property cut is published", "benign",
            [(DOM, "            new_coordinates = remove_cutout(\n                coordinates, property_boundary, remove_inside=False, keep_contour=keep_contour[0]\n            )\n            if len(new_coordinates) == 0:\n                continue\n",
              "            on_property = remove_cutout(\n                coordinates, property_boundary, remove_inside=False, keep_contour=keep_contour[0]\n            )\n            if len(on_property) == 0:\n                continue\n"),
             (DOM, "                new_coordinates = remove_cutout(\n                    new_coordinates, no_go_boundaries, remove_inside=True, keep_contour=keep_contour[1]\n                )\n", "                new_coordinates = remove_cutout(\n                    on_property, no_go_boundaries, remove_inside=True, keep_contour=keep_contour[1]\n                )\n            else:\n                new_coordinates = on_property\n")]),
    Variant("ray casting stops after the second crossing (seeded C04_c)", "break",
            [(SHM, "    inside = True\n", "    crossings = 0\n"),
             (SHM, "                inside = not inside\n", "                crossings += 1\n                if crossings == 2:\n                    return -1\n"),
             (SHM, "    return -1 if inside else 1", "    return 1 if crossings else -1")], "R04.3"),
    Variant("crossings counted instead of toggled, parity taken at the end", "benign",
            [(SHM, "    inside = True\n", "    crossings = 0\n"),
             (SHM, "                inside = not inside\n", "                crossings += 1\n"),
             (SHM, "    return -1 if inside else 1", "    return 1 if crossings % 2 == 1 else -1")]),
    Variant("closed rings lose their first vertex as well as the repeated last one (seeded C04_b)", "break",
            [(SHM, "    def distance(pt_1, pt_2) -> float:", "    if len(contour) > 3 and list(contour[0]) == list(contour[-1]):\n        contour = contour[1:-1]\n\n    def distance(pt_1, pt_2) -> float:")], "R04.3"),
    Variant("closed rings lose the repeated closing vertex only", "benign",
            [(SHM, "    def distance(pt_1, pt_2) -> float:", "    if len(contour) > 3 and list(contour[0]) == list(contour[-1]):\n        contour = contour[:-1]\n\n    def distance(pt_1, pt_2) -> float:")]),
    Variant("property cut called with remove_inside=True", "break", [(DOM, "coordinates, property_boundary, remove_inside=False, keep_contour=keep_contour[0]", "coordinates, property_boundary, remove_inside=True, keep_contour=keep_contour[0]")], "R04.2"),
    Variant("default keep_contour drops the property contour", "break", [(DOM, "b_min, b_max_x, b_max_y, property_boundary, no_go_boundaries=None, keep_contour=[True, False]", "b_min, b_max_x, b_max_y, property_boundary, no_go_boundaries=None, keep_contour=[False, False]")], "R04.2"),
    Variant("classifier returns 2 on an edge", "break", [(SH, "        if abs(test_dist - v12_dist) < on_edge_tolerance:\n            return 0", "        if abs(test_dist - v12_dist) < on_edge_tolerance:\n            return 2")], "R04.3"),
    Variant("reorder_domain dropped", "break",
            [(DOM, "        domain_reordered, f_d_reordered = reorder_domain(domain, field_descriptors[idx])", "        domain_reordered, f_d_reordered = domain, field_descriptors[idx]")], "R04.4"),
    Variant("sort descending", "break", [(DOM, "    return zip(*sorted(zip(domain, descriptors), key=lambda x: len(x[0])))", "    return zip(*sorted(zip(domain, descriptors), key=lambda x: len(x[0]), reverse=True))")], "R04.4"),
    Variant("no-go mode keeps points inside a zone when they are also on another zone's edge", "break",
            [(FR, "            if (inside not in boundary_results) and not (on_edge in boundary_results and not keep_contour):", "            if (inside not in boundary_results) or (on_edge in boundary_results and keep_contour):")], "R04.1"),
    Variant("property mode requires inside for contour points too", "break",
            [(FR, "        elif (inside in boundary_results) or (on_edge in boundary_results and keep_contour):", "        elif (inside in boundary_results) and (on_edge in boundary_results or keep_contour):")], "R04.1"),
    Variant("parity return swapped", "break", [(SH, "    return -1 if inside else 1", "    return 1 if inside else -1")], "R04.3"),
    Variant("no-go cut applied to the unfiltered grid", "break",
            [(DOM, "                new_coordinates = remove_cutout(\n                    new_coordinates, no_go_boundaries, remove_inside=True, keep_contour=keep_contour[1]", "                new_coordinates = remove_cutout(\n                    coordinates, no_go_boundaries, remove_inside=True, keep_contour=keep_contour[1]")], "R04.2"),
    Variant("tolerance not forwarded", "break", [(FR, "point_polygon_check(boundary, coordinate, on_edge_tolerance=on_edge_tolerance)", "point_polygon_check(boundary, coordinate)")], "R04.1"),
    Variant("inside / on_edge inlined as literals", "benign",
            [(FR, "            if (inside not in boundary_results) and not (on_edge in boundary_results and not keep_contour):\n                new_coordinates.append(coordinate)\n        elif (inside in boundary_results) or (on_edge in boundary_results and keep_contour):",
              "            if not (inside in boundary_results) and (keep_contour or on_edge not in boundary_results):\n                new_coordinates.append(coordinate)\n        elif (on_edge in boundary_results and keep_contour) or (inside in boundary_results):")]),
]
