"""checker self-validation (thorough tier).

Every rule module lists VARIANTS: small edits of today's sources held in memory.
  kind 'break'  - a seeded defect that still parses; the checker must report a *new*
                  finding whose rule id starts with ``expect``.
  kind 'benign' - a behaviour-preserving rewrite; the checker must report exactly the
                  findings it reports on the unmodified sources.
A variant whose anchor text is not present in the current sources (because /repo has been
edited) is skipped and counted; it is neither a pass nor a failure.
Nothing is written to disk.
"""
from __future__ import annotations

from dataclasses import dataclass, field
from multiprocessing import get_context
from typing import Dict, List, Optional, Tuple


@dataclass
class Variant:
    name: str
    kind: str  # 'break' | 'benign' | 'repair'
    edits: List[Tuple[str, str, str]]  # (module, old text, new text); old must occur exactly once
    expect: Optional[str] = None  # rule-id prefix expected among the new findings (break only)
    note: str = ""


REPRINT = Variant("whole package re-printed by ast.unparse (comments, layout and line numbers change)", "benign", [])
RENAME = Variant("every function-local variable of the package renamed (alpha-renaming; parameters, attributes, functions keep their names)", "benign", [])


def _syntax_transformers():
    """behaviour-preserving whole-package rewrites used as generic benign variants: name -> ast.NodeTransformer class"""
    import ast

    class Annotate(ast.NodeTransformer):  # x = 3  ->  x: int = 3  inside functions
        def __init__(self):
            self.depth = 0

        def visit_FunctionDef(self, n):
            self.depth += 1
            self.generic_visit(n)
            self.depth -= 1
            return n

        def visit_Assign(self, n):
            v = n.value
            if self.depth and len(n.targets) == 1 and isinstance(n.targets[0], ast.Name) and isinstance(v, ast.Constant) and isinstance(v.value, (int, float)) and not isinstance(v.value, bool):
                return ast.copy_location(ast.AnnAssign(target=n.targets[0], annotation=ast.Name(id="float" if isinstance(v.value, float) else "int", ctx=ast.Load()), value=v, simple=1), n)
            return n

    class AugPlain(ast.NodeTransformer):  # x += v  ->  x = x + v  (plain names)
        def visit_AugAssign(self, n):
            if isinstance(n.target, ast.Name) and isinstance(n.op, (ast.Add, ast.Sub, ast.Mult, ast.Div)):
                return ast.copy_location(ast.Assign(targets=[ast.Name(id=n.target.id, ctx=ast.Store())], value=ast.BinOp(left=ast.Name(id=n.target.id, ctx=ast.Load()), op=n.op, right=n.value)), n)
            return n

    class Trace(ast.NodeTransformer):  # print('trace') at the start of every function and loop body
        @staticmethod
        def _ins(body):
            return [ast.Expr(value=ast.Call(func=ast.Name(id="print", ctx=ast.Load()), args=[ast.Constant(value="trace")], keywords=[]))] + body

        def visit_FunctionDef(self, n):
            self.generic_visit(n)
            b = n.body
            if b and isinstance(b[0], ast.Expr) and isinstance(b[0].value, ast.Constant) and isinstance(b[0].value.value, str):
                n.body = [b[0]] + self._ins(b[1:])
            else:
                n.body = self._ins(b)
            return n

        def visit_For(self, n):
            self.generic_visit(n)
            n.body = self._ins(n.body)
            return n

        visit_While = visit_For

    class SwapMult(ast.NodeTransformer):  # a * b -> b * a  (not for list repetition / constant-first products)
        def visit_BinOp(self, n):
            self.generic_visit(n)
            if isinstance(n.op, ast.Mult) and not isinstance(n.left, (ast.List, ast.Constant)) and not isinstance(n.right, ast.List):
                n.left, n.right = n.right, n.left
            return n

    class FlipCmp(ast.NodeTransformer):  # a < b -> b > a
        M = {ast.Lt: ast.Gt, ast.Gt: ast.Lt, ast.LtE: ast.GtE, ast.GtE: ast.LtE}

        def visit_Compare(self, n):
            self.generic_visit(n)
            if len(n.ops) == 1 and type(n.ops[0]) in self.M:
                n.left, n.comparators[0] = n.comparators[0], n.left
                n.ops = [self.M[type(n.ops[0])]()]
            return n

    class NegIf(ast.NodeTransformer):  # if c: A else: B -> if not c: B else: A
        def visit_If(self, n):
            self.generic_visit(n)
            if n.orelse and not (len(n.orelse) == 1 and isinstance(n.orelse[0], ast.If)):
                n.test = ast.UnaryOp(op=ast.Not(), operand=n.test)
                n.body, n.orelse = n.orelse, n.body
            return n

    class Hoist(ast.NodeTransformer):  # f(a + b) -> _t = a + b; f(_t)   in simple statements
        def __init__(self):
            self.k = 0

        def _blk(self, body):
            out = []
            for s in body:
                if isinstance(s, ast.FunctionDef):
                    s.body = self._blk(s.body)
                    out.append(s)
                    continue
                if isinstance(s, ast.ClassDef):
                    s.body = self._blk(s.body)
                    out.append(s)
                    continue
                for fld in ("body", "orelse", "finalbody"):
                    if isinstance(getattr(s, fld, None), list):
                        setattr(s, fld, self._blk(getattr(s, fld)))
                for h in getattr(s, "handlers", []) or []:
                    h.body = self._blk(h.body)
                if isinstance(s, (ast.Assign, ast.Expr, ast.Return)) and isinstance(getattr(s, "value", None), ast.Call):
                    c = s.value
                    for i, a in enumerate(c.args):
                        if isinstance(a, ast.BinOp) and not any(isinstance(x, (ast.Lambda, ast.ListComp, ast.GeneratorExp, ast.List)) for x in ast.walk(a)):
                            self.k += 1
                            nm = f"_tmp{self.k}"
                            out.append(ast.copy_location(ast.Assign(targets=[ast.Name(id=nm, ctx=ast.Store())], value=a), s))
                            c.args[i] = ast.Name(id=nm, ctx=ast.Load())
                out.append(s)
            return out

        def visit_Module(self, n):
            n.body = [b if not isinstance(b, (ast.FunctionDef, ast.ClassDef)) else self._blk([b])[0] for b in n.body]
            return n

    class ReverseMethods(ast.NodeTransformer):  # methods of every class in reverse textual order (other class-level statements stay first)
        def visit_ClassDef(self, n):
            self.generic_visit(n)
            defs = [b for b in n.body if isinstance(b, ast.FunctionDef)]
            if len({d.name for d in defs}) == len(defs) and len(defs) > 1:
                rest = [b for b in n.body if not isinstance(b, ast.FunctionDef)]
                n.body = rest + defs[::-1]
            return n

    class NoElseReturn(ast.NodeTransformer):  # if c: ...return  else: B   ->   if c: ...return ; B     (pylint no-else-return)
        def _blk(self, body):
            out = []
            for s_ in body:
                out.append(s_)
                if isinstance(s_, ast.If) and s_.orelse and s_.body and isinstance(s_.body[-1], (ast.Return, ast.Raise, ast.Continue, ast.Break)) and not (len(s_.orelse) == 1 and isinstance(s_.orelse[0], ast.If)):
                    tail = s_.orelse
                    s_.orelse = []
                    out.extend(tail)
            return out

        def generic_visit(self, n):
            super().generic_visit(n)
            for fld in ("body", "orelse", "finalbody"):
                b = getattr(n, fld, None)
                if isinstance(b, list) and b and isinstance(b[0], ast.stmt):
                    setattr(n, fld, self._blk(b))
            return n

    class IfToIfExp(ast.NodeTransformer):  # if c: x = a  else: x = b   ->   x = a if c else b   (plain names)
        def visit_If(self, n):
            self.generic_visit(n)
            if len(n.body) == 1 and len(n.orelse) == 1 and isinstance(n.body[0], ast.Assign) and isinstance(n.orelse[0], ast.Assign):
                a, b = n.body[0], n.orelse[0]
                if len(a.targets) == 1 and len(b.targets) == 1 and isinstance(a.targets[0], ast.Name) and isinstance(b.targets[0], ast.Name) and a.targets[0].id == b.targets[0].id:
                    return ast.copy_location(ast.Assign(targets=[a.targets[0]], value=ast.IfExp(test=n.test, body=a.value, orelse=b.value)), n)
            return n

    class PowToMul(ast.NodeTransformer):  # x ** 2 -> x * x  for names / attribute chains / subscripts of names
        def visit_BinOp(self, n):
            self.generic_visit(n)
            if isinstance(n.op, ast.Pow) and isinstance(n.right, ast.Constant) and n.right.value == 2 and isinstance(n.left, (ast.Name, ast.Attribute)) and not any(isinstance(x, ast.Call) for x in ast.walk(n.left)):
                import copy

                return ast.copy_location(ast.BinOp(left=n.left, op=ast.Mult(), right=copy.deepcopy(n.left)), n)
            return n

    class ElseAbsorb(ast.NodeTransformer):  # if c: ...return ; B   ->   if c: ...return  else: B     (inverse of the above)
        def _blk(self, body):
            for i, s_ in enumerate(body):
                if isinstance(s_, ast.If) and not s_.orelse and s_.body and isinstance(s_.body[-1], (ast.Return, ast.Raise, ast.Continue, ast.Break)) and body[i + 1:]:
                    s_.orelse = self._blk(body[i + 1:])
                    return body[: i + 1]
            return body

        def generic_visit(self, n):
            super().generic_visit(n)
            for fld in ("body", "orelse", "finalbody"):
                b = getattr(n, fld, None)
                if isinstance(b, list) and b and isinstance(b[0], ast.stmt) and not isinstance(n, ast.Module):
                    setattr(n, fld, self._blk(b))
            return n

    class IfExpToIf(ast.NodeTransformer):  # x = a if c else b   ->   if c: x = a  else: x = b
        def visit_Assign(self, n):
            if isinstance(n.value, ast.IfExp) and len(n.targets) == 1 and isinstance(n.targets[0], ast.Name):
                import copy

                v = n.value
                return ast.copy_location(ast.If(test=v.test, body=[ast.Assign(targets=[copy.deepcopy(n.targets[0])], value=v.body)], orelse=[ast.Assign(targets=[copy.deepcopy(n.targets[0])], value=v.orelse)]), n)
            return n

    class DeadCode(ast.NodeTransformer):  # an unused method in every class, an unused function in every module, a docstring in every function
        def visit_ClassDef(self, n):
            self.generic_visit(n)
            n.body.append(ast.parse("def _unused_method(self):\n    return None").body[0])
            return n

        def visit_FunctionDef(self, n):
            self.generic_visit(n)
            b = n.body
            if not (b and isinstance(b[0], ast.Expr) and isinstance(b[0].value, ast.Constant) and isinstance(b[0].value.value, str)):
                n.body = [ast.Expr(value=ast.Constant(value="documented"))] + b
            return n

        def visit_Module(self, n):
            self.generic_visit(n)
            n.body.append(ast.parse("def _unused_helper(x=None):\n    return x").body[0])
            return n

    class Logging(ast.NodeTransformer):  # a logger.debug(...) line at the start of every function and loop body
        @staticmethod
        def _ins(body):
            return [ast.parse("logging.getLogger(__name__).debug('trace')").body[0]] + body

        def visit_FunctionDef(self, n):
            self.generic_visit(n)
            b = n.body
            if b and isinstance(b[0], ast.Expr) and isinstance(b[0].value, ast.Constant) and isinstance(b[0].value.value, str):
                n.body = [b[0]] + self._ins(b[1:])
            else:
                n.body = self._ins(b)
            return n

        def visit_For(self, n):
            self.generic_visit(n)
            n.body = self._ins(n.body)
            return n

        visit_While = visit_For

        def visit_Module(self, n):
            self.generic_visit(n)
            k = 1 if n.body and isinstance(n.body[0], ast.Expr) and isinstance(n.body[0].value, ast.Constant) else 0
            while k < len(n.body) and isinstance(n.body[k], ast.ImportFrom) and n.body[k].module == "__future__":
                k += 1
            n.body.insert(k, ast.parse("import logging").body[0])
            return n

    class ExtractBlocks(ast.NodeTransformer):
        """extract-method refactor: in every method / function the first run of >= 3 consecutive simple statements at the top
        level of the body becomes a helper (method of the same class / function of the same module) that receives the locals
        the run reads and returns the locals it defines for the rest of the body"""

        def __init__(self):
            self.k = 0
            self.new_module_funcs = []

        @staticmethod
        def _simple(s_):
            if not isinstance(s_, (ast.Assign, ast.AugAssign, ast.Expr)):
                return False
            for x in ast.walk(s_):
                if isinstance(x, (ast.Lambda, ast.Yield, ast.YieldFrom, ast.Await, ast.NamedExpr, ast.ListComp, ast.SetComp, ast.DictComp, ast.GeneratorExp, ast.Starred)):
                    return False
                if isinstance(x, ast.Call) and isinstance(x.func, ast.Name) and x.func.id in ("super", "locals", "vars"):
                    return False
            if isinstance(s_, ast.Expr) and isinstance(s_.value, ast.Constant):
                return False
            return True

        def _extract(self, fn, in_class):
            body = fn.body
            params = {a.arg for a in fn.args.posonlyargs + fn.args.args + fn.args.kwonlyargs}
            if fn.args.vararg or fn.args.kwarg or any(isinstance(d, ast.Name) and d.id in ("staticmethod", "classmethod", "property") for d in fn.decorator_list):
                return None
            if any(isinstance(x, (ast.Global, ast.Nonlocal)) for x in ast.walk(fn)):
                return None
            nested_defs = [x for x in ast.walk(fn) if x is not fn and isinstance(x, (ast.FunctionDef, ast.Lambda))]
            i = 0
            while i < len(body):
                j = i
                while j < len(body) and self._simple(body[j]):
                    j += 1
                if j - i >= 3:
                    break
                i = j + 1 if j == i else j
            else:
                return None
            blk = body[i:j]
            stored_before = set(params)
            for s_ in body[:i]:
                for x in ast.walk(s_):
                    if isinstance(x, ast.Name) and isinstance(x.ctx, ast.Store):
                        stored_before.add(x.id)
                    if isinstance(x, ast.FunctionDef):
                        stored_before.add(x.name)
            if any(isinstance(s_, ast.FunctionDef) for s_ in body[:i]):
                return None  # the block may call closures of the function
            assigned, loaded = [], []
            for s_ in blk:
                for x in ast.walk(s_):
                    if isinstance(x, ast.Name):
                        (assigned if isinstance(x.ctx, ast.Store) else loaded).append(x.id)
            ins = [n for n in dict.fromkeys(loaded) if n in stored_before and n != "self"]
            later = set()
            for s_ in body[j:]:
                for x in ast.walk(s_):
                    if isinstance(x, ast.Name) and isinstance(x.ctx, (ast.Load, ast.Del)):
                        later.add(x.id)
                    if isinstance(x, ast.AugAssign) and isinstance(x.target, ast.Name):
                        later.add(x.target.id)
            outs = [n for n in dict.fromkeys(assigned) if n in later]
            uses_self = any(isinstance(x, ast.Name) and x.id == "self" for s_ in blk for x in ast.walk(s_))
            if uses_self and not in_class:
                return None
            self.k += 1
            name = f"_extracted_{self.k}"
            ret = ast.Return(value=ast.Tuple(elts=[ast.Name(id=n, ctx=ast.Load()) for n in outs], ctx=ast.Load()) if len(outs) != 1 else ast.Name(id=outs[0], ctx=ast.Load())) if outs else None
            as_method = in_class and "self" in params
            hp = (["self"] if as_method else []) + ins
            helper = ast.FunctionDef(name=name, args=ast.arguments(posonlyargs=[], args=[ast.arg(arg=a) for a in hp], kwonlyargs=[], kw_defaults=[], defaults=[]),
                                     body=list(blk) + ([ret] if ret else []), decorator_list=[], type_params=[])
            callf = ast.Attribute(value=ast.Name(id="self", ctx=ast.Load()), attr=name, ctx=ast.Load()) if as_method else ast.Name(id=name, ctx=ast.Load())
            call = ast.Call(func=callf, args=[ast.Name(id=a, ctx=ast.Load()) for a in ins], keywords=[])
            if not outs:
                stmt = ast.Expr(value=call)
            elif len(outs) == 1:
                stmt = ast.Assign(targets=[ast.Name(id=outs[0], ctx=ast.Store())], value=call)
            else:
                stmt = ast.Assign(targets=[ast.Tuple(elts=[ast.Name(id=n, ctx=ast.Store()) for n in outs], ctx=ast.Store())], value=call)
            fn.body = body[:i] + [ast.copy_location(stmt, blk[0])] + body[j:]
            return helper, as_method

        def visit_ClassDef(self, n):
            new = []
            for b in n.body:
                if isinstance(b, ast.FunctionDef):
                    r = self._extract(b, True)
                    if r:
                        h, as_method = r
                        if as_method:
                            new.append(h)
                        else:
                            self.new_module_funcs.append(h)
            n.body.extend(new)
            return n

        def visit_Module(self, n):
            self.new_module_funcs = []
            out = []
            for b in n.body:
                if isinstance(b, ast.ClassDef):
                    self.visit_ClassDef(b)
                elif isinstance(b, ast.FunctionDef):
                    r = self._extract(b, False)
                    if r:
                        self.new_module_funcs.append(r[0])
                out.append(b)
            n.body = out + self.new_module_funcs
            return n

    class ExtractBlocksRenamed(ExtractBlocks):
        """the same refactor, the helper written with its own names: parameters p_<name>, locals v_<name>"""

        def _extract(self, fn, in_class):
            r = super()._extract(fn, in_class)
            if r is None:
                return None
            helper, as_method = r
            ps = {a.arg for a in helper.args.args} - {"self"}
            loc = {x.id for x in ast.walk(helper) if isinstance(x, ast.Name) and isinstance(x.ctx, ast.Store)} - ps
            mp = {n: "p_" + n for n in ps}
            mp.update({n: "v_" + n for n in loc})
            for a in helper.args.args:
                if a.arg in mp:
                    a.arg = mp[a.arg]
            for x in ast.walk(helper):
                if isinstance(x, ast.Name) and x.id in mp:
                    x.id = mp[x.id]
            return helper, as_method

    class ExtractCompound(ExtractBlocks):
        """the same refactor for runs that contain if / for / while statements (without return / yield inside)"""

        @staticmethod
        def _simple(s_):
            if isinstance(s_, (ast.If, ast.For, ast.While)):
                for x in ast.walk(s_):
                    if isinstance(x, (ast.Return, ast.Yield, ast.YieldFrom, ast.Await, ast.Lambda, ast.NamedExpr, ast.FunctionDef, ast.Try, ast.With, ast.Starred,
                                      ast.ListComp, ast.SetComp, ast.DictComp, ast.GeneratorExp, ast.Global, ast.Nonlocal)):
                        return False
                    if isinstance(x, ast.Call) and isinstance(x.func, ast.Name) and x.func.id in ("super", "locals", "vars"):
                        return False
                return True
            return ExtractBlocks._simple(s_)

        def _extract(self, fn, in_class):
            # only runs that really contain a compound statement, and - because assignments may now be conditional - every
            # local the run may assign and the rest reads is handed in as well when it exists before the run
            body = fn.body
            has = any(isinstance(s_, (ast.If, ast.For, ast.While)) and self._simple(s_) for s_ in body)
            if not has:
                return None
            r = super()._extract(fn, in_class)
            if r is None:
                return None
            helper, as_method = r
            if not any(isinstance(s_, (ast.If, ast.For, ast.While)) for s_ in helper.body):
                return r
            call_stmt = next(s_ for s_ in fn.body if isinstance(getattr(s_, "value", None), ast.Call) and (getattr(s_.value.func, "attr", None) == helper.name or getattr(s_.value.func, "id", None) == helper.name))
            outs = []
            if isinstance(call_stmt, ast.Assign):
                t = call_stmt.targets[0]
                outs = [e.id for e in (t.elts if isinstance(t, ast.Tuple) else [t])]
            idx = fn.body.index(call_stmt)
            before = {a.arg for a in fn.args.args + fn.args.kwonlyargs}
            for s_ in fn.body[:idx]:
                for x in ast.walk(s_):
                    if isinstance(x, ast.Name) and isinstance(x.ctx, ast.Store):
                        before.add(x.id)
            have = [a.arg for a in helper.args.args]
            for n in outs:
                if n in before and n not in have:
                    helper.args.args.append(ast.arg(arg=n))
                    call_stmt.value.args.append(ast.Name(id=n, ctx=ast.Load()))
            return helper, as_method

    class AliasAttr(ast.NodeTransformer):
        """bhe = self.ghe.bhe at the top of a method, then bhe.x instead of self.ghe.bhe.x: for two-part prefixes self.A that the
        method reads at least three times through longer chains and never assigns, in methods that call nothing on self (so that
        nothing can rebind self.A while the alias is alive)"""

        def visit_FunctionDef(self, n):
            self.generic_visit(n)
            if not n.args.args or n.args.args[0].arg != "self" or n.name == "__init__":
                return n
            for x in ast.walk(n):
                if x is not n and isinstance(x, (ast.FunctionDef, ast.Lambda)):
                    return n
                if isinstance(x, ast.Call):
                    f = x.func
                    if isinstance(f, ast.Attribute) and isinstance(f.value, ast.Name) and f.value.id == "self":
                        return n
                    if any(isinstance(a, ast.Name) and a.id == "self" for a in x.args):
                        return n
            uses = {}
            stored = set()
            for x in ast.walk(n):
                if isinstance(x, ast.Attribute) and isinstance(x.value, ast.Attribute) and isinstance(x.value.value, ast.Name) and x.value.value.id == "self":
                    uses.setdefault(x.value.attr, []).append(x)
                if isinstance(x, ast.Attribute) and isinstance(x.value, ast.Name) and x.value.id == "self" and isinstance(x.ctx, (ast.Store, ast.Del)):
                    stored.add(x.attr)
            names = {y.id for y in ast.walk(n) if isinstance(y, ast.Name)} | {a.arg for a in n.args.args}
            pre = []
            for a, us in sorted(uses.items()):
                if a in stored or len(us) < 3 or ("al_" + a) in names:
                    continue
                for u in us:
                    u.value = ast.copy_location(ast.Name(id="al_" + a, ctx=ast.Load()), u.value)
                pre.append(ast.Assign(targets=[ast.Name(id="al_" + a, ctx=ast.Store())], value=ast.Attribute(value=ast.Name(id="self", ctx=ast.Load()), attr=a, ctx=ast.Load())))
            if pre:
                k = 1 if n.body and isinstance(n.body[0], ast.Expr) and isinstance(n.body[0].value, ast.Constant) else 0
                n.body = n.body[:k] + pre + n.body[k:]
            return n

    class ChainSplit(ast.NodeTransformer):  # a <= x <= b  ->  a <= x and x <= b   (x a plain name / attribute chain / constant)
        def visit_Compare(self, n):
            self.generic_visit(n)
            if len(n.ops) < 2:
                return n
            terms = [n.left] + n.comparators
            if any(not isinstance(t, (ast.Name, ast.Attribute, ast.Constant)) and not (isinstance(t, ast.Call) and isinstance(t.func, ast.Name) and t.func.id in ("min", "max", "len", "abs")) for t in terms[1:-1]):
                return n
            import copy

            parts = [ast.Compare(left=copy.deepcopy(terms[i]), ops=[n.ops[i]], comparators=[copy.deepcopy(terms[i + 1])]) for i in range(len(n.ops))]
            return ast.copy_location(ast.BoolOp(op=ast.And(), values=parts), n)

    class UnpackSplit(ast.NodeTransformer):  # a, b = f(..)  ->  _u = f(..); a = _u[0]; b = _u[1]   at statement level
        def __init__(self):
            self.k = 0

        def _blk(self, body):
            out = []
            for s_ in body:
                for fld in ("body", "orelse", "finalbody"):
                    b = getattr(s_, fld, None)
                    if isinstance(b, list) and b and isinstance(b[0], ast.stmt):
                        setattr(s_, fld, self._blk(b))
                for h in getattr(s_, "handlers", []) or []:
                    h.body = self._blk(h.body)
                if isinstance(s_, ast.Assign) and len(s_.targets) == 1 and isinstance(s_.targets[0], ast.Tuple) and isinstance(s_.value, ast.Call) \
                        and all(isinstance(e, ast.Name) for e in s_.targets[0].elts) and 2 <= len(s_.targets[0].elts) <= 4:
                    self.k += 1
                    u = f"_u{self.k}"
                    out.append(ast.copy_location(ast.Assign(targets=[ast.Name(id=u, ctx=ast.Store())], value=s_.value), s_))
                    for i, e in enumerate(s_.targets[0].elts):
                        out.append(ast.copy_location(ast.Assign(targets=[ast.Name(id=e.id, ctx=ast.Store())], value=ast.Subscript(value=ast.Name(id=u, ctx=ast.Load()), slice=ast.Constant(value=i), ctx=ast.Load())), s_))
                else:
                    out.append(s_)
            return out

        def visit_Module(self, n):
            n.body = self._blk(n.body)
            return n

    class KwDict(ast.NodeTransformer):  # x = f(a, k=v, m=w)  ->  _kw1 = {'k': v, 'm': w}; x = f(a, **_kw1)   (plain values only)
        def __init__(self):
            self.k = 0

        @staticmethod
        def _plain(e):
            while isinstance(e, ast.Attribute):
                e = e.value
            return isinstance(e, (ast.Name, ast.Constant))

        def _blk(self, body):
            out = []
            for s_ in body:
                if isinstance(s_, (ast.FunctionDef, ast.ClassDef)):
                    s_.body = self._blk(s_.body)
                    out.append(s_)
                    continue
                for fld in ("body", "orelse", "finalbody"):
                    b = getattr(s_, fld, None)
                    if isinstance(b, list) and b and isinstance(b[0], ast.stmt):
                        setattr(s_, fld, self._blk(b))
                for h in getattr(s_, "handlers", []) or []:
                    h.body = self._blk(h.body)
                c = s_.value if isinstance(s_, (ast.Assign, ast.Return, ast.Expr)) and isinstance(getattr(s_, "value", None), ast.Call) else None
                if c is not None and len(c.keywords) >= 2 and all(k.arg is not None and self._plain(k.value) for k in c.keywords) \
                        and all(self._plain(a) for a in c.args) and self._plain(c.func):
                    self.k += 1
                    d = f"_kw{self.k}"
                    out.append(ast.copy_location(ast.Assign(targets=[ast.Name(id=d, ctx=ast.Store())],
                                                            value=ast.Dict(keys=[ast.Constant(value=k.arg) for k in c.keywords], values=[k.value for k in c.keywords])), s_))
                    c.keywords = [ast.keyword(arg=None, value=ast.Name(id=d, ctx=ast.Load()))]
                out.append(s_)
            return out

        def visit_Module(self, n):
            n.body = self._blk(n.body)
            return n

    return {"keyword arguments handed over through a dictionary (_kw = {'k': v, ..}; f(a, **_kw))": KwDict,
            "chained comparisons written as conjunctions": ChainSplit, "tuple results unpacked through a temporary (a = _u[0]; b = _u[1])": UnpackSplit,
            "attribute prefixes read through a local alias (al_x = self.x)": AliasAttr,
            "extract-method: the first run of statements with branches / loops of every function moved into a helper": ExtractCompound,
            "extract-method: the first straight-line run of every function moved into a helper": ExtractBlocks,
            "extract-method, the helper written with its own parameter and local names": ExtractBlocksRenamed,
            "return / raise / continue followed by code rewritten with an else": ElseAbsorb, "conditional expressions written as if / else statements": IfExpToIf,
            "unused method / function added everywhere, every function documented": DeadCode, "logging.getLogger(__name__).debug('trace') added to every function and loop body": Logging,
            "methods of every class in reverse order": ReverseMethods, "else after return / raise / continue removed": NoElseReturn,
            "two-way assignments written as conditional expressions": IfToIfExp, "squares written as products": PowToMul,
            "annotated constant locals (x: int = 3)": Annotate, "arithmetic call arguments hoisted into temporaries": Hoist, "augmented assignments written out (x = x + v)": AugPlain,
            "print('trace') added to every function and loop body": Trace, "operands of every product swapped": SwapMult,
            "every ordering comparison written the other way round": FlipCmp, "every if/else negated with its branches swapped": NegIf}


KWSTYLE = Variant("package-wide: positional arguments of calls to package functions written as keywords", "benign", [])
SYNTAX_VARIANTS = [Variant("package-wide: " + k, "benign", []) for k in _syntax_transformers()] + [KWSTYLE]


def _keyword_style(sources: Dict[str, str]) -> Dict[str, str]:
    import ast

    trees = {m: ast.parse(s) for m, s in sources.items() if not m.startswith(("schema:", "file:"))}
    byname: Dict[str, list] = {}
    for t in trees.values():
        for n in ast.walk(t):
            if isinstance(n, ast.ClassDef):
                for b in n.body:
                    if isinstance(b, ast.FunctionDef):
                        a = b.args
                        ps = [x.arg for x in a.args]
                        static = any(isinstance(d, ast.Name) and d.id == "staticmethod" for d in b.decorator_list)
                        if not static and ps and ps[0] in ("self", "cls"):
                            ps = ps[1:]
                        byname.setdefault(b.name, []).append(None if (a.vararg or a.posonlyargs) else ps)
                        b._seen = True  # type: ignore[attr-defined]
        for n in ast.walk(t):
            if isinstance(n, ast.FunctionDef) and not getattr(n, "_seen", False):
                a = n.args
                byname.setdefault(n.name, []).append(None if (a.vararg or a.posonlyargs) else [x.arg for x in a.args])

    class Kw(ast.NodeTransformer):
        def visit_Call(self, n):
            self.generic_visit(n)
            nm = n.func.attr if isinstance(n.func, ast.Attribute) else (n.func.id if isinstance(n.func, ast.Name) else None)
            c = byname.get(nm, [])
            if len(c) != 1 or c[0] is None or nm == "__init__" or not n.args or any(isinstance(a, ast.Starred) for a in n.args) or len(n.args) > len(c[0]):
                return n
            used = {k.arg for k in n.keywords}
            if any(p in used for p in c[0][: len(n.args)]):
                return n
            n.keywords = [ast.keyword(arg=p, value=v) for p, v in zip(c[0], n.args)] + n.keywords
            n.args = []
            return n

    out = dict(sources)
    for m, t in trees.items():
        t = Kw().visit(t)
        ast.fix_missing_locations(t)
        out[m] = ast.unparse(t) + "\n"
    return out


class _Renamer:
    """consistent renaming of the names a function binds locally (not parameters, not global / nonlocal names, not the
    parameters of nested functions); nested scopes are renamed along, so closures keep referring to the same variable"""

    @staticmethod
    def locals_of(fn):
        import ast

        a = fn.args
        params = {x.arg for x in a.args + a.kwonlyargs + a.posonlyargs}
        if a.vararg:
            params.add(a.vararg.arg)
        if a.kwarg:
            params.add(a.kwarg.arg)
        glob, loc, nested_params = set(), set(), set()
        for n in ast.walk(fn):
            if isinstance(n, (ast.Global, ast.Nonlocal)):
                glob |= set(n.names)
            if isinstance(n, ast.Name) and isinstance(n.ctx, ast.Store):
                loc.add(n.id)
            if n is not fn and isinstance(n, (ast.FunctionDef, ast.Lambda)):
                b = n.args
                for x in b.args + b.kwonlyargs + b.posonlyargs:
                    nested_params.add(x.arg)
        return loc - params - glob - nested_params - {"_"}

    @classmethod
    def module(cls, src: str, suffix: str = "_x") -> str:
        import ast

        tree = ast.parse(src)

        class T(ast.NodeTransformer):
            def __init__(self, names):
                self.names = names

            def visit_Name(self, n):
                if n.id in self.names:
                    return ast.copy_location(ast.Name(id=n.id + suffix, ctx=n.ctx), n)
                return n

        def do(node):
            for ch in ast.iter_child_nodes(node):
                if isinstance(ch, (ast.FunctionDef, ast.AsyncFunctionDef)):
                    T(cls.locals_of(ch)).visit(ch)
                else:
                    do(ch)

        do(tree)
        return ast.unparse(tree) + "\n"


def apply(sources: Dict[str, str], v: Variant) -> Optional[Dict[str, str]]:
    out = dict(sources)
    if v is REPRINT or v.name == REPRINT.name:
        import ast

        for mod, src in sources.items():
            if not mod.startswith(("schema:", "file:")):
                out[mod] = ast.unparse(ast.parse(src)) + "\n"
        return out
    if v is RENAME or v.name == RENAME.name:
        for mod, src in sources.items():
            if not mod.startswith(("schema:", "file:")):
                out[mod] = _Renamer.module(src)
        return out
    if v.name == KWSTYLE.name:
        return _keyword_style(sources)
    if v.name.startswith("package-wide: "):
        import ast

        T = _syntax_transformers()[v.name[len("package-wide: "):]]
        for mod, src in sources.items():
            if not mod.startswith(("schema:", "file:")):
                t = T().visit(ast.parse(src))
                ast.fix_missing_locations(t)
                out[mod] = ast.unparse(t) + "\n"
        return out
    for mod, old, new in v.edits:
        src = out.get(mod)
        if src is None or src.count(old) != 1:
            return None
        out[mod] = src.replace(old, new)
    return out


def _one(job):
    prop, sources, base_keys, v = job
    from .cli import run_check
    from .model import AnalysisError

    edited = apply(sources, v)
    if edited is None:
        return (v.name, v.kind, "skipped", "anchor text not found in current sources")
    try:
        _, res = run_check(prop, edited, "quick")
    except AnalysisError as e:
        # failing closed on a seeded break is acceptable (it is not a silent pass); on a benign
        # variant it is a machinery failure
        if v.kind == "break":
            return (v.name, v.kind, "ok", f"analysis fails closed: {e}")
        return (v.name, v.kind, "FAILED", f"benign variant made the analysis fail: {e}")
    except Exception as e:  # noqa: BLE001
        return (v.name, v.kind, "FAILED", f"checker crashed: {type(e).__name__}: {e}")
    ff = res.floor_failures()
    keys = {f.key for f in res.findings}
    new = keys - set(base_keys)
    gone = set(base_keys) - keys
    if v.kind == "repair":
        # a variant that repairs a recorded (known) finding: that finding must disappear and nothing else may change
        if new or ff:
            return (v.name, v.kind, "FAILED", f"repair variant raises new findings / trips floors: {sorted(new)[:2]} {ff}")
        hit = [k for k in gone if (v.expect is None or k.startswith(v.expect))]
        if not hit:
            return (v.name, v.kind, "FAILED", "repair variant does not remove the recorded finding")
        return (v.name, v.kind, "ok", f"recorded finding gone: {hit[0][:120]}")
    if v.kind == "break":
        if ff:
            return (v.name, v.kind, "ok", "vacuity guard trips: " + "; ".join(ff))
        hit = [k for k in new if (v.expect is None or k.startswith(v.expect))]
        if hit:
            return (v.name, v.kind, "ok", f"reported: {sorted(hit)[0][:160]}")
        if new:
            return (v.name, v.kind, "ok", f"reported under another rule: {sorted(new)[0][:160]}")
        return (v.name, v.kind, "FAILED", "seeded break not reported")
    if ff:
        return (v.name, v.kind, "FAILED", "benign variant trips the vacuity guard: " + "; ".join(ff))
    if new or gone:
        return (v.name, v.kind, "FAILED", f"benign variant changes the verdict: new={sorted(new)[:2]} gone={sorted(gone)[:2]}")
    return (v.name, v.kind, "ok", "verdict unchanged")


def run(prop: str, sources: Dict[str, str], base_keys, variants: List[Variant], jobs: int = 16) -> dict:
    jobs_list = [(prop, sources, sorted(base_keys), v) for v in list(variants) + [REPRINT, RENAME] + SYNTAX_VARIANTS]
    if not jobs_list:
        return {"lines": ["self-validation: no variants"], "summary": {}, "failed": 0}
    n = max(1, min(jobs, len(jobs_list)))
    if n == 1:
        results = [_one(j) for j in jobs_list]
    else:
        with get_context("fork").Pool(n) as pool:
            results = pool.map(_one, jobs_list)
    lines = []
    failed = 0
    skipped = 0
    for name, kind, status, msg in results:
        lines.append(f"self-validation [{kind:6s}] {name}: {status} - {msg}")
        failed += status == "FAILED"
        skipped += status == "skipped"
    summary = {
        "variants": len(results),
        "breaks": sum(1 for r in results if r[1] == "break"),
        "benign": sum(1 for r in results if r[1] == "benign"),
        "failed": failed,
        "skipped": skipped,
        "results": [{"name": a, "kind": b, "status": c, "detail": d} for a, b, c, d in results],
    }
    lines.append(f"self-validation: {len(results)} variants, {failed} misjudged, {skipped} skipped")
    return {"lines": lines, "summary": summary, "failed": failed}
