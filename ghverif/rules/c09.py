"""C09 - simulated fluid temperatures equal the documented temporal superposition.

Decided:
  R09.1  formula: the value appended to hp_eft at step i in BaseGHE._simulate_detailed has the normal form
             Tg + DOT_k[(q_k - q_(k-1)) / N * g(ln((t_i - t_(k-1)) * 3600 / t_s))] / (2 pi k H)
                + q_i / N * Rb* / H - q_i / N / (2 m cp)
         with q_(-1) = 0 and t_(-1) = 0 (the constants prepended by hstack), the load-step slice and the
         time slice having identical bounds [0:i], and delta_tb being the DOT term alone.
         Linearity in the loads, the exact ground temperature for zero load and the equal shift with Tg are
         read off this form (degree 1 in q, Tg only as an additive term with coefficient 1).
  R09.2  routing: both HYBRID and HOURLY reach _simulate_detailed with the combined g-function evaluated at
         B / H; hybrid passes load[2:] * 1000 (kW -> W) and hour[2:] with the same offset; hourly passes the
         extraction loads through exactly one negation and an hour axis 1..n
  R09.4  two-day response used for the peak durations (HybridLoad.simulate_hourly):
             dT_n = DOT_k[(q_(k+1) - q_k) * g(ln((t_n - t_k) * 3600 / t_s))] / (2 pi k) + q_n * Rb*
         and the peak / nominal two-day profiles fed to it: (peak - avg) constant, resp.
         (q_i - avg) / peak * q_i

Not decided: sign of the response (needs g > 0, Rb* > 1 / (2 m cp H)), accuracy of g.
"""
from __future__ import annotations

import ast

from .. import sym
from ..model import AnalysisError, inline_single_defs, Program, attr_chain, norm_stmt
from ..paths import Arr, Const, Engine, Hooks, Opaque, Seq, State, vkey
from ..report import Result
from ..selftest import Variant
from ..sym import Rat

PROP = "C09"
TITLE = "Simulated fluid temperatures equal the documented temporal superposition"
EXPLANATION = (
    "Symbolic evaluation of one step of the simulation loop with an element-wise array domain (arrays are normal "
    "forms over atoms base@offset; hstack / slices shift offsets, .dot builds a canonical DOT atom with scalar "
    "factors pulled out).  The appended value is compared with the documented formula by cross-multiplication; the "
    "routing of both time-step methods into that function is checked on the paths of GHE.simulate."
)
ASSUMPTIONS = ["numpy element-wise semantics of + - * /, hstack, slicing, log, dot", "the interpolant g is applied element-wise"]

GHX = "ghedesigner.ground_heat_exchangers"
GL = "ghedesigner.ground_loads"


def arr_param(name: str) -> Arr:
    return Arr(sym.elem_atom(name, 0), sym.call("len", [Rat.atom(name)]))


class _AppendHooks(Hooks):
    def on_call(self, node, fname, args, kwargs, st, eng):
        if fname and fname.endswith(".append") and len(args) == 1 and "." in fname and not fname.startswith("self."):
            st.emit("APPEND", (fname[:-7], args[0]), node)
            return Const(None)
        return None


def check(prog: Program, tier: str) -> Result:
    res = Result(PROP)
    _formula(prog, res)
    _routing(prog, res)
    _two_day(prog, res)
    return res


def _formula(prog: Program, res: Result):
    q = f"{GHX}.BaseGHE._simulate_detailed"
    fi = prog.func(q)
    res.analysed(q)
    ps = [p for p in fi.params() if p != "self"]
    if len(ps) != 3:
        raise AnalysisError(f"{q}: expected (loads, times, g) parameters")
    qn, tn, gn = ps
    eng = Engine(prog, fi, _AppendHooks(), loop_bound=1, zero_trip=False)
    st = State()
    st.env[qn] = arr_param(qn)
    st.env[tn] = arr_param(tn)
    st.env[gn] = Rat.atom(gn)
    finals = [f for f in eng.run_function(st) if f.exit is not None and f.exit[0] == "return"]
    if len(finals) != 1:
        raise AnalysisError(f"{q}: expected one straight path through one loop step, found {len(finals)}")
    f = finals[0]
    loops = [n for n in ast.walk(fi.node) if isinstance(n, ast.For)]
    if len(loops) != 1 or not isinstance(loops[0].target, ast.Name):
        raise AnalysisError(f"{q}: step loop not found")
    iv = loops[0].target.id
    I = Rat.atom(iv)
    # loop range 1..n
    it = loops[0].iter
    n_len = sym.call("len", [Rat.atom(qn)])
    ok_rng = False
    if isinstance(it, ast.Call) and attr_chain(it.func) == "range" and len(it.args) == 2:
        a, b = eng.eval(it.args[0], f), eng.eval(it.args[1], f)
        ok_rng = isinstance(a, Rat) and isinstance(b, Rat) and a.equals(Rat.const(1)) and b.equals(n_len + Rat.const(1))
    res.ob("R09.1", f"one temperature per load step: loop over range(1, n + 1) with n = number of loads ({ast.unparse(it)})", ok_rng, prog.loc(fi, loops[0]))
    if not ok_rng:
        res.violation("R09.1", f"step-range|{ast.unparse(it)}", prog.loc(fi, loops[0]), q, f"the step loop runs over {ast.unparse(it)} instead of one step per load (1..n)")
    # prepended constants
    for nm in (qn, tn):
        pass
    apps = {e.data[0]: e for e in f.events if e.kind == "APPEND"}
    rets = f.exit[1]
    if not (isinstance(rets, Seq) and len(rets.items) == 2):
        raise AnalysisError(f"{q}: return value is not (hp_eft, delta_tb)")
    # identify the two result lists by what is returned
    ret_names = [ast.unparse(e) for e in f.exit[2].value.elts] if isinstance(f.exit[2].value, ast.Tuple) else []
    if len(ret_names) != 2 or any(n not in apps for n in ret_names):
        raise AnalysisError(f"{q}: appended result lists {sorted(apps)} do not match the returned names {ret_names}")
    eft_val, dtb_val = apps[ret_names[0]].data[1], apps[ret_names[1]].data[1]
    if not isinstance(eft_val, Rat) or not isinstance(dtb_val, Rat):
        bad = eft_val if not isinstance(eft_val, Rat) else dtb_val
        res.ob("R09.1", "the appended temperature is an analysable element-wise expression", False, prog.loc(fi, apps[ret_names[0]].node))
        res.violation("R09.1", f"not-analysable|{vkey(bad)[:80]}", prog.loc(fi, apps[ret_names[0]].node), q,
                      f"the value appended per step is not a well-formed element-wise expression: {vkey(bad)[:160]} "
                      f"(e.g. load-step and time slices of different length)")
        return
    # ---- the documented formula
    N = Rat.atom("self.nbh")
    H = Rat.atom("self.bhe.b.H")
    K = Rat.atom("self.bhe.soil.k")
    TG = Rat.atom("self.bhe.soil.ugt")
    M = Rat.atom("self.bhe.m_flow_borehole")
    CP = Rat.atom("self.bhe.fluid.cp")
    TS = Rat.atom("self.radial_numerical.t_s")
    RB = sym.call("self.bhe.calc_effective_borehole_resistance", [])
    PI = Rat.atom("pi")
    q0, qm1 = sym.elem_atom(qn, 0), sym.elem_atom(qn, -1)
    t_i = Rat.atom(f"{tn}[{(I - Rat.const(1)).key()}]")
    t_km1 = sym.elem_atom(tn, -1)
    arg = sym.log((t_i - t_km1) * Rat.const(3600) / TS)
    step = (q0 - qm1) / N * sym.call(gn, [arg])
    dtb_want = sym.dot(step / (Rat.const(2) * PI * K * H), I)
    q_i = Rat.atom(f"{qn}[{(I - Rat.const(1)).key()}]")
    eft_want = TG + dtb_want + q_i / N / H * RB - q_i / N / (Rat.const(2) * M * CP)
    ok = eft_val.equals(eft_want)
    res.ob("R09.1", "hp_eft[i] = Tg + DOT[(q_k - q_(k-1))/N * g(ln((t_i - t_(k-1))*3600/ts))]/(2 pi k H) + q_i/N*Rb/H - q_i/N/(2 m cp)", ok, prog.loc(fi, apps[ret_names[0]].node))
    res.sample({"got": eft_val.key()[:400], "want": eft_want.key()[:400]})
    if not ok:
        res.violation("R09.1", "formula|" + _diff_hint(eft_val, eft_want), prog.loc(fi, apps[ret_names[0]].node), q,
                      "the entering fluid temperature of a step differs from the documented superposition: " + _diff_hint(eft_val, eft_want),
                      got=eft_val.key()[:600], want=eft_want.key()[:600])
    ok2 = dtb_val.equals(dtb_want)
    res.ob("R09.1", "delta_tb[i] is the superposition term alone", ok2, prog.loc(fi, apps[ret_names[1]].node))
    if not ok2:
        res.violation("R09.1", "delta-tb|" + _diff_hint(dtb_val, dtb_want), prog.loc(fi, apps[ret_names[1]].node), q,
                      "the borehole-wall temperature change differs from the superposition term: " + _diff_hint(dtb_val, dtb_want), got=dtb_val.key()[:400])
    # prepended values: q_(-1) = 0 and t_(-1) = 0
    for nm, what in ((qn, "load"), (tn, "time")):
        heads = None
        for k, v in f.env.items():
            if isinstance(v, Arr) and v.heads and any(a.startswith(nm + "@") for a in v.elem.all_atoms()) and len(v.elem.all_atoms()) <= 2:
                heads = v.heads
        okh = heads is not None and len(heads) == 1 and heads[0].is_zero()
        res.ob("R09.1", f"the {what} sequence is prefixed with exactly one 0 (q_(-1) = 0 / t_(-1) = 0)", okh, prog.loc(fi, fi.node))
        if not okh:
            res.violation("R09.1", f"prefix|{what}|{[h.key() for h in heads] if heads else None}", prog.loc(fi, fi.node), q,
                          f"the {what} sequence is not prefixed with a single zero: {[h.key() for h in heads] if heads else 'no hstack((0, ...))'}")
    # consequences read off the normal form
    lin = all(_degree_in_family(eft_val - TG, qn) == 1 for _ in (0,))
    res.ob("R09.1", "departure from Tg is homogeneous of degree 1 in the loads; Tg enters additively with coefficient 1", lin and (eft_val - TG).subs({TG.key(): Rat.const(0)}).equals(eft_val - TG), prog.loc(fi, fi.node))


def _degree_in_family(x: Rat, base: str) -> int:
    """degree of homogeneity in all atoms derived from `base` (elements, indexed values, DOT of them): scale test"""
    lam = Rat.atom("LAMBDA")
    mapping = {}
    for a in x.all_atoms():
        if a.startswith(base + "@") or a.startswith(base + "["):
            mapping[a] = lam * Rat.atom(a)
    y = x.subs(mapping)
    # y should equal lam * x
    return 1 if y.equals(lam * x) else -1


def _diff_hint(got: Rat, want: Rat) -> str:
    d = got - want
    atoms_g, atoms_w = got.all_atoms(), want.all_atoms()
    extra = sorted(a for a in atoms_g - atoms_w if "@" not in a and "DOT" not in a)[:3]
    missing = sorted(a for a in atoms_w - atoms_g if "@" not in a and "DOT" not in a)[:3]
    if extra or missing:
        return f"unexpected {extra} / missing {missing}"
    r = None
    try:
        r = got / want
    except ZeroDivisionError:
        pass
    if r is not None and r.is_const():
        return f"off by the constant factor {r.const_value()}"
    return f"difference {d.key()[:160]}"


def _routing(prog: Program, res: Result):
    q = f"{GHX}.GHE.simulate"
    fi = prog.func(q)
    res.analysed(q)

    class H(Hooks):
        def on_call(self, node, fname, args, kwargs, st, eng):
            if fname == "self._simulate_detailed":
                st.emit("DETAILED", args, node)
                return Seq([Rat.atom("EFT"), Rat.atom("DTB")], "tuple")
            if fname == "self.grab_g_function":
                st.emit("GRAB", args, node)
                return Seq([Rat.atom("G"), Rat.atom("G_BHW")], "tuple")
            if fname in ("np.arange", "numpy.arange") and all(isinstance(a, Rat) for a in args):
                return Arr(sym._plain_call("ARANGE", list(args)), None)
            if fname in ("np.array", "np.asarray", "numpy.array", "numpy.asarray") and args and isinstance(args[0], Rat):
                return sym._plain_call("ARRAY", [args[0]])
            if fname in ("np.tile", "numpy.tile") and len(args) == 2 and all(isinstance(a, Rat) for a in args):
                return sym._plain_call("REPEAT_PROFILE", list(args))
            return None

        def on_stmt(self, s, st, eng):
            # list * n  repeats the whole profile (the raw loads are a Python list until wrapped by np.array)
            if isinstance(s, ast.Assign) and isinstance(s.value, ast.BinOp) and isinstance(s.value.op, ast.Mult):
                a, b = eng.eval(s.value.left, st), eng.eval(s.value.right, st)
                for x, n in ((a, b), (b, a)):
                    if isinstance(x, Rat) and x == Rat.atom("self.hourly_extraction_ground_loads") and isinstance(n, Rat):
                        val = sym._plain_call("REPEAT_PROFILE", [x, n])
                        for t in s.targets:
                            eng._assign_target(t, val, s, st)
                        return [st]
            return None

    eng = Engine(prog, fi, H())
    st = State()
    for p in fi.params():
        st.env[p] = Rat.atom(p)
    n_h = n_y = 0
    for f in eng.run_function(st):
        if f.exit is None or f.exit[0] != "return":
            continue
        det = [e for e in f.events if e.kind == "DETAILED"]
        grab = [e for e in f.events if e.kind == "GRAB"]
        meth = "HYBRID" if f.sign_of(Rat.atom("TimestepType.HYBRID") - Rat.atom("method")) == frozenset("0") else ("HOURLY" if f.sign_of(Rat.atom("TimestepType.HOURLY") - Rat.atom("method")) == frozenset("0") else "?")
        where = prog.loc(fi, det[0].node) if det else prog.loc(fi, fi.node)
        if len(det) != 1:
            res.violation("R09.2", f"{meth}|detailed-calls|{len(det)}", where, q, f"[{meth}] simulate() returns after {len(det)} calls of _simulate_detailed")
            continue
        args = det[0].data
        okg = len(grab) == 1 and len(grab[0].data) == 1 and isinstance(grab[0].data[0], Rat) and grab[0].data[0].equals(Rat.atom("self.B_spacing") / Rat.atom("self.bhe.b.H")) \
            and len(args) == 3 and args[2] == Rat.atom("G")
        res.ob("R09.2", f"[{meth}] the response used is the combined g-function at B / H", okg, where)
        if not okg:
            res.violation("R09.2", f"{meth}|g-function", where, q, f"[{meth}] _simulate_detailed does not receive the combined g-function interpolated at B_spacing / H")
        if meth == "HYBRID":
            n_h += 1
            L, T = args[0], args[1]
            okl = isinstance(L, Arr) and any(L.elem.equals(Rat.const(1000) * sym.elem_atom("self.hybrid_load.load", k)) for k in range(0, 5))
            okt = isinstance(T, Arr) and any(T.elem.equals(sym.elem_atom("self.hybrid_load.hour", k)) for k in range(0, 5))
            same = okl and okt and (L.elem / Rat.const(1000)).key().split("@")[-1] == T.elem.key().split("@")[-1]
            res.ob("R09.2", "[HYBRID] loads = hybrid load * 1000 (kW -> W), times = hybrid hours, same leading offset", bool(okl and okt and same), where)
            if not okl:
                res.violation("R09.2", f"hybrid-load-units|{vkey(L)[:80]}", where, q, f"[HYBRID] the loads passed on are {vkey(L)[:120]} instead of hybrid_load.load[k:] * 1000 (kW to W)")
            elif not okt:
                res.violation("R09.2", f"hybrid-times|{vkey(T)[:80]}", where, q, f"[HYBRID] the times passed on are {vkey(T)[:120]} instead of hybrid_load.hour[k:]")
            elif not same:
                res.violation("R09.2", "hybrid-offsets", where, q, f"[HYBRID] loads and breakpoints are sliced with different offsets: {vkey(L)[:60]} vs {vkey(T)[:60]}")
        elif meth == "HOURLY":
            n_y += 1
            L, T = args[0], args[1]
            okl, why = _hourly_loads_ok(L)
            res.ob("R09.2", f"[HOURLY] loads = the extraction profile (repeated whole when the run is longer), negated once, unscaled (got {vkey(L)[:70]})", okl, where)
            if not okl:
                res.violation("R09.2", f"hourly-loads|{why[:60]}|{vkey(L)[:60]}", where, q, f"[HOURLY] the loads passed on are {vkey(L)[:140]}: {why}")
            okt = isinstance(T, Arr) and T.elem.key().startswith("ARANGE(1, ") and T.elem.key().endswith(", 1)") and "1 + " in T.elem.key()
            res.ob("R09.2", f"[HOURLY] hour axis is arange(1, n + 1, 1) (got {vkey(T)[:70]})", okt, where)
            if not okt:
                res.violation("R09.2", f"hourly-axis|{vkey(T)[:80]}", where, q, f"[HOURLY] the hour axis is {vkey(T)[:120]} instead of 1..n")
    res.count("hybrid_paths", n_h)
    res.count("hourly_paths", n_y)
    res.floor("hybrid_paths", 1)
    res.floor("hourly_paths", 1)


def _hourly_loads_ok(L):
    """L must be  (-1) * [ARRAY | REPEAT_PROFILE]*(self.hourly_extraction_ground_loads): one negation, no scaling,
    the profile repeated as a whole (list * n / np.tile), never element-wise"""
    from ..paths import _single_atom

    sign = 1
    cur = L
    for _ in range(8):
        if isinstance(cur, Arr):
            return False, "element-wise expression where the load profile was expected"
        if not isinstance(cur, Rat):
            return False, f"not a numeric profile ({vkey(cur)[:60]})"
        if not (cur.d.is_const() and cur.n.is_monomial()):
            return False, "the profile is combined with other terms"
        (mono, c), = cur.n.t.items()
        c = c / cur.d.const_value()
        if len(mono) != 1 or mono[0][1] != 1:
            return False, "the profile is multiplied by another quantity (scaled instead of repeated / negated)"
        if c not in (1, -1):
            return False, f"the profile is scaled by {c}"
        if c == -1:
            sign = -sign
        atom = mono[0][0]
        if atom == "self.hourly_extraction_ground_loads":
            if sign != -1:
                return False, "extraction loads must be negated exactly once (extraction -> rejection)"
            return True, "ok"
        df = sym.ATOM_DEF.get(atom)
        if df and df[0] == "call" and df[1] in ("ARRAY", "REPEAT_PROFILE") and isinstance(df[2][0], Rat):
            cur = df[2][0]
            continue
        fn = df[1] if df and df[0] == "call" else atom
        return False, f"'{fn}' does not repeat the annual profile as a whole (np.repeat repeats every element; use list * n or np.tile)"
    return False, "too deeply nested"


def _leading_sign(r: Rat) -> int:
    if r.n.is_zero():
        return 0
    m0 = min(r.n.t)
    sn = 1 if r.n.t[m0] > 0 else -1
    d0 = min(r.d.t)
    sd = 1 if r.d.t[d0] > 0 else -1
    return sn * sd


def _two_day(prog: Program, res: Result):
    q = f"{GL}.HybridLoad.simulate_hourly"
    fi = prog.func(q)
    res.analysed(q)
    ps = fi.params()
    if ps != ["hour_time", "q", "g_sts", "resist_bh", "two_pi_k", "ts"]:
        raise AnalysisError(f"{q}: parameter list changed: {ps}")
    eng = Engine(prog, fi, _AppendHooks(), loop_bound=1, zero_trip=False)
    st = State()
    st.env["hour_time"] = arr_param("hour_time")
    st.env["q"] = arr_param("q")
    for p in ("g_sts", "resist_bh", "two_pi_k", "ts"):
        st.env[p] = Rat.atom(p)
    finals = [f for f in eng.run_function(st) if f.exit is not None and f.exit[0] == "return"]
    if len(finals) != 1:
        raise AnalysisError(f"{q}: expected one straight path")
    f = finals[0]
    apps = [e for e in f.events if e.kind == "APPEND"]
    if not apps:
        raise AnalysisError(f"{q}: the loop appending the response of each hour was not found")
    if len(apps) != 1 or not isinstance(apps[0].data[1], Rat):
        res.violation("R09.4", "two-day-not-analysable", prog.loc(fi, fi.node), q, f"the two-day response is not a well-formed element-wise expression: {vkey(apps[0].data[1])[:120] if apps else 'no append'}")
        return
    loops = [n for n in ast.walk(fi.node) if isinstance(n, ast.For)]
    iv = loops[0].target.id
    N = Rat.atom(iv)
    got = apps[0].data[1]
    t_n = Rat.atom(f"hour_time[{N.key()}]")
    arg = sym.log((t_n - sym.elem_atom("hour_time", 0)) * Rat.const(3600) / Rat.atom("ts"))
    step = (sym.elem_atom("q", 1) - sym.elem_atom("q", 0)) * sym.call("g_sts", [arg])
    want = sym.dot(step / Rat.atom("two_pi_k"), N) + Rat.atom(f"q[{N.key()}]") * Rat.atom("resist_bh")
    ok = got.equals(want)
    res.ob("R09.4", "two-day response: dT_n = DOT[(q_(k+1) - q_k) * g(ln((t_n - t_k)*3600/ts))]/(2 pi k) + q_n * Rb", ok, prog.loc(fi, apps[0].node))
    if not ok:
        res.violation("R09.4", "two-day-formula|" + _diff_hint(got, want), prog.loc(fi, apps[0].node), q,
                      "the two-day fluid-temperature response used for the peak durations differs from the superposition formula: " + _diff_hint(got, want), got=got.key()[:400])
    # profiles fed to it
    q2 = f"{GL}.HybridLoad.perform_current_month_simulation"
    f2 = prog.func(q2)
    res.analysed(q2)
    src = {}
    # the two load profiles are whatever is passed as q to simulate_hourly; the nominal one is built from the two-day
    # profile parameter, the peak-step one is not
    from ..model import bind_args

    prof_param = next((p_ for p_ in f2.params() if p_ != "self"), None)
    for c in ast.walk(f2.node):
        if isinstance(c, ast.Call) and attr_chain(c.func) == "self.simulate_hourly":
            qa = bind_args(fi, c).get("q")
            if isinstance(qa, ast.Name):
                d = next((s for s in ast.walk(f2.node) if isinstance(s, ast.Assign) and len(s.targets) == 1 and isinstance(s.targets[0], ast.Name) and s.targets[0].id == qa.id), None)
                if d is not None:
                    uses = any(isinstance(x, ast.Name) and x.id == prof_param for x in ast.walk(d.value))
                    src["q_nominal" if uses else "q_peak"] = d
    if set(src) != {"q_peak", "q_nominal"}:
        raise AnalysisError(f"{q2}: definitions of the two load profiles passed to simulate_hourly not found")
    e2 = Engine(prog, f2, Hooks())
    s2 = State()
    for p in f2.params():
        s2.env[p] = Rat.atom(p)
    pk, av = Rat.atom("peak_load"), Rat.atom("avg_load")
    # locals and nested helper functions the profile expressions may refer to (straight-line definitions, in program order)
    for s_ in f2.node.body:
        if isinstance(s_, ast.FunctionDef):
            e2._s_FunctionDef(s_, s2)
        elif isinstance(s_, ast.Assign) and len(s_.targets) == 1 and isinstance(s_.targets[0], ast.Name) and not any(isinstance(x, (ast.Call, ast.ListComp)) for x in ast.walk(s_.value)):
            e2._s_Assign(s_, s2)

    def elem_of(stmt):
        # np.array([0.0] + [E] * k)  or  np.array([0.0] + [E for i in ...])
        v = stmt.value
        if isinstance(v, ast.Call) and v.args:
            v = inline_single_defs(f2.node, v.args[0])
        if isinstance(v, ast.BinOp) and isinstance(v.op, ast.Add):
            head, tail = v.left, v.right
            if isinstance(tail, ast.BinOp) and isinstance(tail.op, ast.Mult) and isinstance(tail.left, ast.List) and len(tail.left.elts) == 1:
                return e2.eval(head.elts[0], s2) if isinstance(head, ast.List) and head.elts else None, e2.eval(tail.left.elts[0], s2)
            if isinstance(tail, ast.ListComp) and len(tail.generators) == 1 and isinstance(tail.generators[0].target, ast.Name):
                s3 = s2.fork()
                s3.env[tail.generators[0].target.id] = Rat.atom("i")
                return e2.eval(head.elts[0], s2) if isinstance(head, ast.List) and head.elts else None, e2.eval(tail.elt, s3)
        return None, None

    h, e = elem_of(src["q_peak"])
    ok = isinstance(h, Rat) and h.is_zero() and isinstance(e, Rat) and e.equals(pk - av)
    res.ob("R09.4", "peak two-day profile: 0 then the constant (peak - average)", ok, prog.loc(f2, src["q_peak"]))
    if not ok:
        res.violation("R09.4", f"q_peak|{vkey(e)[:60]}", prog.loc(f2, src["q_peak"]), q2, f"the peak two-day profile is {vkey(e)[:100]} instead of the constant (peak_load - avg_load) after a leading 0")
    h, e = elem_of(src["q_nominal"])
    qi = Rat.atom("two_day_hourly_peak_load[i]")
    ok = isinstance(h, Rat) and h.is_zero() and isinstance(e, Rat) and e.equals((qi - av) / pk * qi)
    res.ob("R09.4", "nominal two-day profile: 0 then (q_i - average) / peak * q_i", ok, prog.loc(f2, src["q_nominal"]))
    if not ok:
        res.violation("R09.4", f"q_nominal|{vkey(e)[:60]}", prog.loc(f2, src["q_nominal"]), q2, f"the nominal two-day profile is {vkey(e)[:120]} instead of (q_i - avg_load) / peak_load * q_i after a leading 0")


VARIANTS = [
    Variant("step loop written as an enumeration of the loads after the leading zero", "benign",
            [(GHX, "        for i in range(1, n + 1):", "        for i, q_step in enumerate(q_dot_b[1:], start=1):"),
             (GHX, "            tf_bulk = tb + q_dot_b[i] / h * rb", "            tf_bulk = tb + q_step / h * rb")]),
    Variant("step loop enumerates the loads INCLUDING the leading zero (one step too many, loads shifted by one)", "break",
            [(GHX, "        for i in range(1, n + 1):", "        for i, q_step in enumerate(q_dot_b[0:], start=0):"),
             (GHX, "            tf_bulk = tb + q_dot_b[i] / h * rb", "            tf_bulk = tb + q_step / h * rb")], "R09.1"),
    Variant("kW -> W factor dropped on the hybrid path", "break", [(GHX, "            q_dot = self.hybrid_load.load[2:] * 1000.0  # convert to Watts", "            q_dot = self.hybrid_load.load[2:]  # convert to Watts")], "R09.2"),
    Variant("hours not converted to seconds", "break", [(GHX, "            g_values = g(np.log((_time * SEC_IN_HR) / ts))\n            # Tb = Tg + (q_dt * g)  (Equation 2.12)\n            delta_tb_i = (q_dot_b_dt[0:i] / h / two_pi_k)", "            g_values = g(np.log(_time / ts))\n            # Tb = Tg + (q_dt * g)  (Equation 2.12)\n            delta_tb_i = (q_dot_b_dt[0:i] / h / two_pi_k)")], "R09.1"),
    Variant("field load not divided by the number of boreholes", "break", [(GHX, "        q_dot_b = np.hstack((0.0, q_dot / float(self.nbh)))", "        q_dot_b = np.hstack((0.0, q_dot))")], "R09.1"),
    Variant("outlet correction uses m cp instead of 2 m cp", "break", [(GHX, "            tf_out = tf_bulk - q_dot_b[i] / (2 * m_dot * cp)", "            tf_out = tf_bulk - q_dot_b[i] / (m_dot * cp)")], "R09.1"),
    Variant("ground temperature added twice", "break", [(GHX, "            tf_bulk = tb + q_dot_b[i] / h * rb", "            tf_bulk = tb + tg + q_dot_b[i] / h * rb")], "R09.1"),
    Variant("hourly loads not negated", "break", [(GHX, "            q_dot = -1.0 * np.array(q_dot)  # Convert loads to rejection", "            q_dot = 1.0 * np.array(q_dot)  # Convert loads to rejection")], "R09.2"),
    Variant("load-step slice one longer than the time slice", "break", [(GHX, "            delta_tb_i = (q_dot_b_dt[0:i] / h / two_pi_k).dot(g_values)", "            delta_tb_i = (q_dot_b_dt[0 : i + 1] / h / two_pi_k).dot(g_values)")], "R09.1"),
    Variant("resistance term not per unit length", "break", [(GHX, "            tf_bulk = tb + q_dot_b[i] / h * rb", "            tf_bulk = tb + q_dot_b[i] * rb")], "R09.1"),
    Variant("time differences taken to the step's end instead of its start", "break", [(GHX, "            _time = time_values[i] - time_values[0:i]", "            _time = time_values[i] - time_values[1 : i + 1]")], "R09.1"),
    Variant("two-day response without the borehole resistance term", "break", [(GL, "            tf_mean = delta_tb_i + q[n] * resist_bh", "            tf_mean = delta_tb_i")], "R09.4"),
    Variant("nominal two-day profile not scaled by the peak", "break", [(GL, "                (two_day_hourly_peak_load[i] - avg_load) / peak_load * two_day_hourly_peak_load[i]", "                (two_day_hourly_peak_load[i] - avg_load) * two_day_hourly_peak_load[i]")], "R09.4"),
    Variant("annual profile repeated element-wise (np.repeat) for multi-year hourly runs", "break",
            [(GHX, "            q_dot = self.hourly_extraction_ground_loads\n", "            q_dot = -1.0 * np.asarray(self.hourly_extraction_ground_loads, dtype=float)\n"),
             (GHX, "                q_dot = q_dot * n_years\n", "                q_dot = np.repeat(q_dot, n_years)\n"),
             (GHX, "            q_dot = -1.0 * np.array(q_dot)  # Convert loads to rejection\n", "")], "R09.2"),
    Variant("hourly loads converted to an array first, then 'repeated' by multiplication (scales instead)", "break",
            [(GHX, "            q_dot = self.hourly_extraction_ground_loads\n", "            q_dot = np.array(self.hourly_extraction_ground_loads)\n")], "R09.2"),
    Variant("annual profile tiled with np.tile after conversion", "benign",
            [(GHX, "            q_dot = self.hourly_extraction_ground_loads\n", "            q_dot = -1.0 * np.asarray(self.hourly_extraction_ground_loads)\n"),
             (GHX, "                q_dot = q_dot * n_years\n", "                q_dot = np.tile(q_dot, n_years)\n"),
             (GHX, "            q_dot = -1.0 * np.array(q_dot)  # Convert loads to rejection\n", "")]),
    Variant("a / h / k rewritten as a / (h * k)", "benign", [(GHX, "            delta_tb_i = (q_dot_b_dt[0:i] / h / two_pi_k).dot(g_values)", "            delta_tb_i = (q_dot_b_dt[0:i] / (two_pi_k * h)).dot(g_values)")]),
    Variant("tf_bulk renamed and the two corrections merged", "benign",
            [(GHX, "            tf_bulk = tb + q_dot_b[i] / h * rb\n            # T_out = T_f - Q / (2 * m_dot cp)  (Equation 2.14)\n            tf_out = tf_bulk - q_dot_b[i] / (2 * m_dot * cp)",
              "            q_i = q_dot_b[i]\n            tf_out = tb + q_i * (rb / h - 0.5 / (m_dot * cp))")]),
]
