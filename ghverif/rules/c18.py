"""C18 - command-line exit status and validation verdict reflect the outcome.

Decided:
  R18.0  click model: the installed click's Command.main, in standalone mode, discards the callback's
         return value and exits 0 (parsed from site-packages, not imported)
  R18.1  exit status: every path of the command (composed with the worker when its status is
         propagated) that ends with process status 0 carries a success witness: the output files were
         written (write_output_files / write_idf) or, under --validate-only, the verdict was tested zero;
         a value returned from a click callback is status 0 whatever it is
  R18.2  verdict consumed: on every status-0 path on which validate_input_file is called, its result has
         been tested to be zero
  R18.3  sections: every object section required by file_structure.schema.json is validated by a call
         whose result is accumulated into the returned count; every schema file is used by a validator;
         validate_schema_instance returns 0 only after validate() and non-zero from its handler
  R18.4  case: the five case-insensitive fields are upper-cased before validation, and again by the
         API functions the loader calls with the raw file contents
  R18.5  the worker returns 0 only after write_output_files
  R18.7  the two dispatch validators refuse a name that is not in their name -> schema map (a .get fallback is accepted only
         onto a schema that pins the key with `enum`; draft-04 validators ignore `const`)
  R18.6  option and name matching in the command-line layer and the validators is by equality or by membership in a
         collection: no `x in <string>` (a parenthesised literal is not a tuple)

Not decided: that jsonschema implements the schemas; content of the messages.
"""
from __future__ import annotations

import ast
import glob
import os
import re

from .. import sym
from ..model import AnalysisError, Program, attr_chain, bind_args, norm_stmt
from ..paths import Engine, Hooks, State, Const, Opaque, describe_trail
from ..report import Result
from ..selftest import Variant
from ..sym import Rat

PROP = "C18"
TITLE = "Command-line exit status and validation verdict reflect the outcome"
EXPLANATION = (
    "Abstract exit status per path of the click command composed with the worker (return value of a click "
    "callback = status 0 by the parsed click model; exit()/sys.exit()/ctx.exit() = their argument; uncaught raise = "
    "non-zero).  A status-0 path must carry a success witness and must have tested the validation verdict wherever "
    "validate_input_file was called.  Table rules relate file_structure.schema.json, the schema files, the validator "
    "calls and their accumulation; case normalisation is checked in validators and in the API functions the loader calls."
)
ASSUMPTIONS = [
    "click as parsed from the installed distribution (fallback when absent: click >= 8 documented behaviour, return value discarded)",
    "jsonschema.validate raises ValidationError exactly when the instance violates the schema",
    "an uncaught exception gives a non-zero process status",
]

MGR = "ghedesigner.manager"
VAL = "ghedesigner.validate"
CMD = f"{MGR}.run_manager_from_cli"
WORKER = f"{MGR}._run_manager_from_cli_worker"
WITNESS = {"write_output_files", "write_idf"}
EXIT_FUNCS = {"exit", "sys.exit", "ctx.exit", "quit", "os._exit"}


# ---------------------------------------------------------------------------
def click_discards_return() -> tuple:
    """(True/False/None, where) - parsed from the installed click"""
    cands = []
    for pat in ("/venv/lib/python3*/site-packages/click/core.py", "/usr/lib/python3*/site-packages/click/core.py",
                "/usr/local/lib/python3*/site-packages/click/core.py"):
        cands.extend(sorted(glob.glob(pat)))
    for path in cands:
        try:
            with open(path, encoding="utf-8") as f:
                tree = ast.parse(f.read())
        except Exception:
            continue
        for cls in [n for n in tree.body if isinstance(n, ast.ClassDef) and n.name in ("Command", "BaseCommand")]:
            for fn in [n for n in cls.body if isinstance(n, ast.FunctionDef) and n.name == "main"]:
                rv = None
                for n in ast.walk(fn):
                    if (isinstance(n, ast.Assign) and len(n.targets) == 1 and isinstance(n.targets[0], ast.Name)
                            and isinstance(n.value, ast.Call) and attr_chain(n.value.func) == "self.invoke"):
                        rv = n.targets[0].id
                if rv is None:
                    continue
                used_in_exit = False
                bare_exit = False
                for n in ast.walk(fn):
                    if isinstance(n, ast.Call) and attr_chain(n.func) in ("ctx.exit", "sys.exit"):
                        if any(isinstance(x, ast.Name) and x.id == rv for a in n.args for x in ast.walk(a)):
                            used_in_exit = True
                        if attr_chain(n.func) == "ctx.exit" and not n.args and not n.keywords:
                            bare_exit = True
                if used_in_exit:
                    return False, f"{path}:{fn.lineno}"
                if bare_exit:
                    return True, f"{path}:{fn.lineno}"
    return None, "click source not found"


# ---------------------------------------------------------------------------
class _StatusHooks(Hooks):
    def __init__(self, prog: Program):
        self.prog = prog

    def on_stmt(self, s, st: State, eng: Engine):
        if isinstance(s, ast.Expr) and isinstance(s.value, ast.Call) and attr_chain(s.value.func) in EXIT_FUNCS:
            c = s.value
            v = eng.eval(c.args[0], st) if c.args else Rat.const(0)
            st.exit = ("sysexit", v, s)
            return [st]
        if isinstance(s, ast.Raise) and s.exc is not None and isinstance(s.exc, ast.Call) and attr_chain(s.exc.func) == "SystemExit":
            v = eng.eval(s.exc.args[0], st) if s.exc.args else Rat.const(0)
            st.exit = ("sysexit", v, s)
            return [st]
        return None

    def on_call(self, node, fname, args, kwargs, st, eng):
        if fname:
            last = fname.split(".")[-1]
            if last in WITNESS:
                st.emit("WITNESS", last, node)
            if last == "validate_input_file":
                st.emit("VALIDATE", sym.call(fname, [a for a in args if isinstance(a, Rat)]), node)
        return None


def _seed(s: ast.stmt) -> bool:
    for n in ast.walk(s):
        if isinstance(n, ast.Call):
            c = attr_chain(n.func)
            if c and (c.split(".")[-1] in WITNESS or c.split(".")[-1] == "validate_input_file" or c in EXIT_FUNCS
                      or c == WORKER.split(".")[-1]):
                return True
    return False


def _paths(prog: Program, qual: str):
    fi = prog.func(qual)
    eng = Engine(prog, fi, _StatusHooks(prog), loop_bound=1)
    eng.slice(fi.node.body, _seed)
    st = State()
    for p in fi.params():
        st.env[p] = Rat.atom(p)
    finals = eng.run_function(st)
    return fi, eng, finals


def _status_of(st: State, discard_return: bool):
    """-> (kind, payload): 'zero' | 'nonzero' | 'prop' callee | 'value' Rat (status = this value)"""
    ex = st.exit
    if ex is None:
        return ("zero", "falls off the end") if True else None
    if ex[0] == "raise":
        return ("nonzero", f"raise {ex[1]}")
    v = ex[1]
    if ex[0] == "return" and discard_return:
        return ("zero", f"return {vtxt(v)} (discarded by click)")
    if isinstance(v, Const):
        if v.value is None or v.value is False or v.value == 0:
            return ("zero", f"{ex[0]} {v.value!r}")
        return ("nonzero", f"{ex[0]} {v.value!r}")
    if isinstance(v, Rat):
        if v.is_const():
            return ("zero", f"{ex[0]} 0") if v.const_value() == 0 else ("nonzero", f"{ex[0]} {v.const_value()}")
        for a in v.atoms():
            df = sym.ATOM_DEF.get(a)
            if df and df[0] == "call" and v.equals(Rat.atom(a)):
                return ("prop", df[1])
        return ("value", v)
    return ("unknown", vtxt(v))


def _int_bound(prog: Program, q: str, depth: int = 0):
    """largest value a status function can return, by interval evaluation of its returns (all values are taken to be >= 0):
    integer literals, calls of package functions (their own bound), a local accumulated by  = / += / |=  of such values,
    possibly shifted by a literal.  None when something else is returned."""
    fi = prog.funcs.get(q)
    if fi is None or depth > 4:
        return None
    from ..model import walk_no_nested

    def bound(e, acc):
        if isinstance(e, ast.Constant) and isinstance(e.value, (int, bool)):
            return int(e.value) if int(e.value) >= 0 else None
        if isinstance(e, ast.Name) and e.id in acc:
            return acc[e.id]
        if isinstance(e, ast.Call):
            c = attr_chain(e.func)
            r = prog.resolve_name(fi.module, c) if c and "." not in c else None
            if r is not None and r[0] == "func":
                return _int_bound(prog, r[1].qualname, depth + 1)
            if c in ("int", "bool") and len(e.args) == 1 and c == "bool":
                return 1
            return None
        if isinstance(e, ast.BinOp) and isinstance(e.op, ast.LShift) and isinstance(e.right, ast.Constant) and isinstance(e.right.value, int) and 0 <= e.right.value < 64:
            b_ = bound(e.left, acc)
            return None if b_ is None else b_ << e.right.value
        if isinstance(e, ast.BinOp) and isinstance(e.op, (ast.Add, ast.BitOr)):
            a_, b_ = bound(e.left, acc), bound(e.right, acc)
            return None if a_ is None or b_ is None else a_ + b_
        if isinstance(e, ast.IfExp):
            a_, b_ = bound(e.body, acc), bound(e.orelse, acc)
            return None if a_ is None or b_ is None else max(a_, b_)
        return None

    acc = {}
    worst = 0
    for s_ in sorted((x for x in walk_no_nested(fi.node) if isinstance(x, (ast.Assign, ast.AugAssign, ast.Return))), key=lambda x: x.lineno):
        if isinstance(s_, ast.Assign) and len(s_.targets) == 1 and isinstance(s_.targets[0], ast.Name):
            b_ = bound(s_.value, acc)
            old_ = acc.get(s_.targets[0].id)
            acc[s_.targets[0].id] = b_ if old_ is None or b_ is None else max(old_, b_)  # flow-insensitive: any of the assignments
            if b_ is None:
                acc[s_.targets[0].id] = None
        elif isinstance(s_, ast.AugAssign) and isinstance(s_.target, ast.Name) and isinstance(s_.op, (ast.Add, ast.BitOr)):
            a_, b_ = acc.get(s_.target.id), bound(s_.value, acc)
            acc[s_.target.id] = None if a_ is None or b_ is None else a_ + b_
        elif isinstance(s_, ast.AugAssign) and isinstance(s_.target, ast.Name):
            acc[s_.target.id] = None
        elif isinstance(s_, ast.Return):
            if s_.value is None:
                continue
            b_ = bound(s_.value, {k: v for k, v in acc.items() if v is not None})
            if b_ is None:
                return None
            worst = max(worst, b_)
    if any(isinstance(x, (ast.For, ast.While)) and any(isinstance(y, ast.AugAssign) for y in ast.walk(x)) for x in walk_no_nested(fi.node)):
        return None  # accumulated in a loop: no bound from the text
    return worst


def vtxt(v) -> str:
    return v.key() if hasattr(v, "key") else repr(v)


def _verdict_tested_zero(st: State, verdict: Rat) -> bool:
    return st.sign_of(verdict) == frozenset("0")


def check(prog: Program, tier: str) -> Result:
    res = Result(PROP)
    # ---- R18.0
    discards, where = click_discards_return()
    res.ob("R18.0", f"click Command.main (standalone) discards the callback's return value: {discards} [{where}]", discards is not None, where)
    if discards is None:
        res.notes.append("installed click source not found: using the documented behaviour of click >= 8 (return value discarded)")
        discards = True

    # entry points
    pp = prog.files.get("pyproject.toml", "")
    m = re.search(r"\[project\.scripts\]\s*(.*?)(?:\n\[|\Z)", pp, re.S)
    entries = re.findall(r'=\s*"([\w\.]+):(\w+)"', m.group(1)) if m else []
    ok = (MGR, "run_manager_from_cli") in entries
    res.ob("R18.1", f"console script entry point is {CMD} ({entries})", ok, "pyproject.toml")
    if not ok:
        raise AnalysisError(f"pyproject.toml: console entry point {CMD} not found ({entries})")
    cmd = prog.func(CMD)
    is_click = any("click.command" in ast.unparse(d) for d in cmd.node.decorator_list)
    if not is_click:
        raise AnalysisError(f"{CMD} is no longer a click command: exit-status model does not apply")
    res.analysed(CMD)
    res.analysed(WORKER)

    cfi, ceng, cpaths = _paths(prog, CMD)
    wfi, weng, wpaths = _paths(prog, WORKER)
    res.count("command_paths", len(cpaths))
    res.count("worker_paths", len(wpaths))
    res.floor("command_paths", 4)
    res.floor("worker_paths", 3)

    def witnesses(st):
        return [e.data for e in st.events if e.kind == "WITNESS"]

    def validations(st):
        return [(e.data, e.node) for e in st.events if e.kind == "VALIDATE"]

    # ---- R18.5 worker returns 0 only after write_output_files; R18.2 inside the worker
    worker_summ = []
    for w in wpaths:
        kind, why = _status_of(w, discard_return=False)
        wit = witnesses(w)
        tested = all(_verdict_tested_zero(w, v) for v, _ in validations(w))
        worker_summ.append((kind, why, wit, tested, w))
        node = w.exit[2] if w.exit else wfi.node
        if kind == "zero":
            ok = "write_output_files" in wit
            res.ob("R18.5", f"worker path ending '{why}' wrote the output files first", ok, prog.loc(wfi, node))
            if not ok:
                res.violation("R18.5", f"worker-zero-without-output|{why}|{[t[0] for t in w.trail][-3:]}", prog.loc(wfi, node), WORKER,
                              f"the worker reports success ({why}) on a path that never calls write_output_files",
                              path=describe_trail(w))
            ok2 = tested and bool(validations(w))
            res.ob("R18.2", f"worker path ending '{why}' has tested the validation verdict to be zero", ok2, prog.loc(wfi, node))
            if not ok2:
                res.violation("R18.2", f"worker-verdict-unchecked|{why}", prog.loc(wfi, validations(w)[0][1]) if validations(w) else prog.loc(wfi, node), WORKER,
                              "the worker can report success without having tested the result of validate_input_file"
                              if validations(w) else "the worker reports success on a path that never validates the input file",
                              path=describe_trail(w))
        elif kind == "prop" and why.split(".")[-1] == "validate_input_file" and validations(w):
            # the verdict itself is handed on as the status: it is non-zero on this path only if the path has tested it, and
            # it reaches the operating system modulo 256 - a verdict that can reach 256 can come out as 0 (success)
            nz = all(w.sign_of(v) and "0" not in w.sign_of(v) for v, _ in validations(w))
            bd = _int_bound(prog, f"{VAL}.validate_input_file")
            if bd is None:
                raise AnalysisError(f"{WORKER}: the validation verdict is used as the status and its range is not understood")
            okb = nz and bd <= 255
            res.ob("R18.2", f"worker path that hands the validation verdict on as its status: verdict tested non-zero, at most {bd} (< 256)", okb, prog.loc(wfi, node))
            if not okb:
                res.violation("R18.2", f"verdict-as-status|{bd}|{nz}", prog.loc(wfi, node), WORKER,
                              (f"the worker returns the validation verdict as the process status; validate_input_file can return up to {bd}, and a status of 256 or a multiple of it reaches the "
                               "operating system as 0: an invalid file is reported as a success") if nz else "the worker returns the validation verdict without having tested it to be non-zero",
                              path=describe_trail(w))
            worker_summ[-1] = ("nonzero" if okb else "unknown", why, wit, tested, w)
        elif kind in ("unknown", "value", "prop"):
            raise AnalysisError(f"{WORKER}: status expression not understood: {why}")

    # ---- R18.1 / R18.2 on the command
    for c in cpaths:
        kind, why = _status_of(c, discard_return=discards)
        node = c.exit[2] if c.exit else cfi.node
        sig = " & ".join((k if tr or k.startswith("not ") else f"not {k}") for k, tr, ln in c.trail)[:200]
        intended = None
        if c.exit and c.exit[0] == "return":
            ik, iw = _status_of(c, discard_return=False)
            intended = (ik, iw)
        if kind == "prop" and why.split(".")[-1] == "validate_input_file" and validations(c):
            nz = all(c.sign_of(v) and "0" not in c.sign_of(v) for v, _ in validations(c))
            bd = _int_bound(prog, f"{VAL}.validate_input_file")
            if bd is None:
                raise AnalysisError(f"{CMD}: the validation verdict is used as the exit status and its range is not understood")
            okb = nz and bd <= 255
            res.ob("R18.2", f"command path [{sig}] exits with the validation verdict: tested non-zero, at most {bd} (< 256)", okb, prog.loc(cfi, node))
            if not okb:
                res.violation("R18.2", f"verdict-as-status|{bd}|{nz}", prog.loc(cfi, node), CMD,
                              (f"the command exits with the validation verdict; validate_input_file can return up to {bd}, and a status of 256 or a multiple of it reaches the operating system "
                               "as 0: an invalid file is reported as valid") if nz else "the command exits with the validation verdict without having tested it to be non-zero",
                              path=describe_trail(c))
            continue
        if kind == "prop":
            callee = why.split(".")[-1]
            if callee != WORKER.split(".")[-1]:
                raise AnalysisError(f"{CMD}: status propagated from an unknown callee {why}")
            res.ob("R18.1", f"command path [{sig}] propagates the worker's status to the process", True, prog.loc(cfi, node))
            continue
        if kind in ("unknown", "value"):
            raise AnalysisError(f"{CMD}: status expression not understood: {why}")
        if kind == "nonzero":
            res.ob("R18.1", f"command path [{sig}] exits non-zero ({why})", True, prog.loc(cfi, node))
            continue
        # status zero: needs a witness
        wit = witnesses(c)
        vals = validations(c)
        v_only = c.facts.get("validate_only")
        ok_w = bool(wit)
        if not ok_w and vals and all(_verdict_tested_zero(c, v) for v, _ in vals) and v_only is True:
            ok_w = True
        detail = why
        if intended and intended[0] in ("nonzero", "prop"):
            detail = (f"{why}: the callback returns {'the status of ' + intended[1] if intended[0] == 'prop' else 'a failure status'} "
                      f"but click exits 0")
        res.ob("R18.1", f"command path [{sig}] with process status 0 carries a success witness", ok_w, prog.loc(cfi, node))
        if not ok_w:
            res.violation("R18.1", f"zero-without-witness|{norm_stmt(node) if isinstance(node, ast.stmt) else ''}|{sig[:120]}", prog.loc(cfi, node), CMD,
                          f"process status is 0 although no output was written and no valid verdict was established ({detail})",
                          path=describe_trail(c))
        if vals and not all(_verdict_tested_zero(c, v) for v, _ in vals):
            res.ob("R18.2", f"command path [{sig}] has tested the validation verdict", False, prog.loc(cfi, vals[0][1]))
            res.violation("R18.2", f"command-verdict-unchecked|{sig[:120]}", prog.loc(cfi, vals[0][1]), CMD,
                          "validate_input_file is called but its verdict is not tested before the process exits 0",
                          path=describe_trail(c))
        elif vals:
            res.ob("R18.2", f"command path [{sig}] has tested the validation verdict", True, prog.loc(cfi, vals[0][1]))

    # worker is reachable from the command
    n_prop = sum(1 for c in cpaths if _status_of(c, discards)[0] == "prop")
    calls_worker = any(isinstance(n, ast.Call) and attr_chain(n.func) == WORKER.split(".")[-1] for n in ast.walk(cfi.node))
    if not calls_worker:
        raise AnalysisError(f"{CMD} no longer calls {WORKER}")
    if n_prop == 0:
        # the worker's status does not reach the process: every path through the call was judged above (status 0 => witness)
        res.notes.append("the worker's return value does not reach the process status on any path")

    # R18.9 the verdict and the run describe the file as it is NOW: nothing on the path from the command to the validators
    #       answers from a cache keyed by the path (decided by the C13 machinery, R13.13, restricted to this layer)
    from . import c13 as _c13

    tmp = Result("C13")
    _c13._check_decorator_memos(prog, tmp)
    hits = [f for f in tmp.findings if f.func.startswith((VAL + ".", MGR + "."))]
    res.ob("R18.9", "input files are read afresh by every validation / run (no path-keyed cache in the command-line layer)", not hits, "ghedesigner/validate.py")
    for f in hits:
        res.violation("R18.9", f.key.split("|", 1)[-1], f.where, f.func, f.message + " - the verdict and the exit status then describe the file as it was when first read")
    try:
        _check_sections(prog, res)
    except AnalysisError as e:
        if not res.findings:
            raise
        # a violation has been established already: report it; what could not be analysed after it is noted, not fatal
        res.notes.append(f"not analysed after the violation(s) above: {e}")
    _check_case(prog, res)
    # R18.7 dispatch validators: a name that is not in the name -> schema map is refused.  Accepted: the subscript MAP[name]
    #       (after a membership test, or raising KeyError = non-zero status), or MAP.get(name, F) when schema F itself refuses
    #       other names with an `enum` (the schemas declare draft-04, whose validator ignores `const`)
    from ..custody import root_of as _root

    n_disp = 0
    for vname in ("validate_pipe", "validate_geometric"):
        vfi = prog.func(f"{VAL}.{vname}")
        maps = {s_.targets[0].id: s_.value for s_ in ast.walk(vfi.node) if isinstance(s_, ast.Assign) and len(s_.targets) == 1 and isinstance(s_.targets[0], ast.Name) and isinstance(s_.value, ast.Dict)}
        maps.update({k_: v_ for k_, v_ in prog.modules[vfi.module].constants.items() if isinstance(v_, ast.Dict) and k_ not in maps})  # a map hoisted to module level
        for c_ in [c_ for c_ in ast.walk(vfi.node) if isinstance(c_, ast.Call) and attr_chain(c_.func) == "validate_schema_instance"]:
            b_ = bind_args(prog.func(f"{VAL}.validate_schema_instance"), c_)
            sexp = b_.get("schema_file_name")
            if isinstance(sexp, ast.Name):
                d_ = [s_.value for s_ in ast.walk(vfi.node) if isinstance(s_, ast.Assign) and len(s_.targets) == 1 and isinstance(s_.targets[0], ast.Name) and s_.targets[0].id == sexp.id]
                sexp = d_[0] if len(d_) == 1 else sexp
            n_disp += 1
            ok, why = False, f"the schema is chosen by {ast.unparse(sexp)[:60]}"
            if isinstance(sexp, ast.Subscript) and isinstance(sexp.value, ast.Name) and sexp.value.id in maps:
                ok, why = True, "MAP[name]"
            elif isinstance(sexp, ast.Call) and isinstance(sexp.func, ast.Attribute) and sexp.func.attr == "get" and isinstance(sexp.func.value, ast.Name) and sexp.func.value.id in maps and len(sexp.args) == 2:
                dflt = sexp.args[1]
                keyname = None
                for s_ in ast.walk(vfi.node):  # instance["<key>"] = name
                    if isinstance(s_, ast.Assign) and isinstance(s_.targets[0], ast.Subscript) and isinstance(s_.targets[0].slice, ast.Constant):
                        keyname = s_.targets[0].slice.value
                sch = prog.schemas.get(dflt.value) if isinstance(dflt, ast.Constant) else None
                pdef = (sch or {}).get("properties", {}).get(keyname, {}) if keyname else {}
                draft4 = "draft-04" in str((sch or {}).get("$schema", ""))
                pins = "enum" in pdef or ("const" in pdef and not draft4)
                ok = sch is not None and pins and keyname in (sch.get("required") or [])
                why = f"MAP.get(name, {ast.unparse(dflt)[:40]}): that schema " + ("refuses other names itself" if ok else f"does not refuse other names ({'its const on ' + repr(keyname) + ' is ignored by the draft-04 validator' if 'const' in pdef else 'no enum on ' + repr(keyname)})")
            else:
                raise AnalysisError(f"{VAL}.{vname}: how the schema is chosen is not understood ({ast.unparse(sexp)[:60]})")
            res.ob("R18.7", f"{vname}: a name outside the map is refused ({why})", ok, prog.loc(vfi, c_))
            if not ok:
                res.violation("R18.7", f"dispatch-fallback|{vname}", prog.loc(vfi, c_), vfi.qualname,
                              f"{vname}: {why}: an input with an unknown name is validated against the fallback schema and accepted - the verdict is 'valid' for a file the tool cannot run")
    if n_disp < 2:
        raise AnalysisError("dispatch validators not found")
    # R18.6 options and names are matched by equality / membership in a collection, never as substrings
    from ..memo import substring_tests

    n_sub = 0
    for f_, n_, rtxt in substring_tests(prog):
        if f_.module.endswith((".validate",)) or (f_.module.endswith(".manager") and not f_.cls):
            n_sub += 1
            res.ob("R18.6", f"{f_.qualname}: '{ast.unparse(n_)[:60]}' tests membership in a collection", False, prog.loc(f_, n_))
            res.violation("R18.6", f"substring|{f_.qualname}|{ast.unparse(n_)[:60]}", prog.loc(f_, n_), f_.qualname,
                          f"'{ast.unparse(n_)[:80]}' is a substring test: {rtxt[:40]} is a string, not a collection of names - an option or name that is merely contained in it "
                          "is accepted (exit 0 for an unsupported option / a verdict for the wrong name)")
    res.ob("R18.6", "the command-line layer and the validators match option / method names by equality or membership in a collection", n_sub == 0, "ghedesigner/manager.py")
    return res


# ---------------------------------------------------------------------------
def _check_sections(prog: Program, res: Result):
    fs = prog.schemas.get("file_structure.schema.json")
    if fs is None:
        raise AnalysisError("file_structure.schema.json missing")
    required = fs.get("required", [])
    sections = [k for k in required if fs.get("properties", {}).get(k, {}).get("type") == "object"]
    q = f"{VAL}.validate_input_file"
    fi = prog.func(q)
    res.analysed(q)

    calls = []

    class H(Hooks):
        def on_call(self, node, fname, args, kwargs, st, eng):
            if fname and fname.startswith("validate_") and prog.has_func(f"{VAL}.{fname}"):
                r = sym._plain_call(fname, [Rat.atom(f"#{len(calls)}")])
                calls.append((fname, node, r))
                return r
            return None

    eng = Engine(prog, fi, H())
    st = State()
    for p in fi.params():
        st.env[p] = Rat.atom(p)
    finals = [f for f in eng.run_function(st) if f.exit and f.exit[0] == "return"]
    if len(finals) != 1:
        raise AnalysisError(f"{q}: expected a single return path, found {len(finals)}")
    ret = finals[0].exit[1]
    if not isinstance(ret, Rat):
        raise AnalysisError(f"{q}: returned count not understood: {vtxt(ret)}")
    validated = {}
    for fname, node, r in calls:
        sec = None
        if node.args and isinstance(node.args[0], ast.Subscript) and isinstance(node.args[0].slice, ast.Constant):
            sec = node.args[0].slice.value
        elif node.args and isinstance(node.args[0], ast.Name):
            sec = "<whole instance>"
        coeff = ret.coeff(next(iter(r.atoms())))
        accumulated = coeff.is_const() and coeff.const_value() > 0
        validated[sec] = (fname, node, accumulated)
        res.ob("R18.3", f"result of {fname}(instance[{sec!r}]) is accumulated into the returned count", accumulated, prog.loc(fi, node))
        if not accumulated:
            res.violation("R18.3", f"not-accumulated:{fname}", prog.loc(fi, node), q,
                          f"the result of {fname} does not contribute to the value returned by validate_input_file")
    # the validator called for a section reads that section's schema(s): <section>.schema.json, or the <stem>_*.schema.json family
    for sec, (fname, node, _) in sorted(validated.items(), key=lambda kv: str(kv[0])):
        if sec is None or sec == "<whole instance>" or not prog.has_func(f"{VAL}.{fname}"):
            continue
        vf = prog.func(f"{VAL}.{fname}")
        from ..model import visible_nodes

        files = sorted({n_.value for n_ in visible_nodes(prog, vf) if isinstance(n_, ast.Constant) and isinstance(n_.value, str) and n_.value.endswith(".schema.json")})
        stem = sec.split("_")[0]
        okf = bool(files) and all(f_ == f"{sec}.schema.json" or f_.startswith(stem + "_") or f_ == f"{stem}.schema.json" for f_ in files)
        res.ob("R18.3", f"section '{sec}' is validated by {fname}, which reads {files}", okf, prog.loc(fi, node))
        if not okf:
            res.violation("R18.3", f"section-schema|{sec}|{fname}", prog.loc(fi, node), q,
                          f"the '{sec}' section is handed to {fname}, which validates against {files}: fields that only {sec}.schema.json requires or constrains are not checked, so an invalid file is accepted")
    for s in sections:
        ok = s in validated
        res.ob("R18.3", f"section '{s}' required by file_structure.schema.json is validated", ok, prog.loc(fi, fi.node))
        if not ok:
            res.violation("R18.3", f"section-not-validated:{s}", prog.loc(fi, fi.node), q,
                          f"the '{s}' section is required by file_structure.schema.json but validate_input_file never validates it "
                          f"against a schema (an input violating {s}.schema.json is accepted)")
    ok = "<whole instance>" in validated
    res.ob("R18.3", "the file structure itself is validated", ok, prog.loc(fi, fi.node))
    if not ok:
        res.violation("R18.3", "structure-not-validated", prog.loc(fi, fi.node), q, "the file structure is not validated")

    # every schema file is used
    used = set()
    vmod = prog.module(VAL)
    for n in ast.walk(vmod.tree):
        if isinstance(n, ast.Constant) and isinstance(n.value, str) and n.value.endswith(".schema.json"):
            used.add(n.value)
    for name in sorted(prog.schemas):
        ok = name in used
        res.ob("R18.3", f"schema file {name} is used by a validator", ok, "ghedesigner/validate.py")
        if not ok:
            res.violation("R18.3", f"schema-unused:{name}", "ghedesigner/validate.py:1", VAL,
                          f"the schema file {name} is shipped but no validator refers to it")
    for name in sorted(used):
        if name not in prog.schemas:
            res.violation("R18.3", f"schema-missing:{name}", "ghedesigner/validate.py:1", VAL, f"validators refer to {name} which is not in schemas/")

    # validator functions reach validate_schema_instance and return its result (or non-zero)
    for fname, node, _ in calls:
        vq = f"{VAL}.{fname}"
        vfi = prog.func(vq)
        res.analysed(vq)
        e2 = Engine(prog, vfi, Hooks())
        s0 = State()
        for p in vfi.params():
            s0.env[p] = Rat.atom(p)
        for f in e2.run_function(s0):
            if f.exit is None:
                res.violation("R18.3", f"validator-falls-off:{fname}", prog.loc(vfi, vfi.node), vq, f"{fname} can end without returning a verdict (None counts as 0 errors)")
                continue
            if f.exit[0] != "return":
                continue
            v = f.exit[1]
            ok = False
            if isinstance(v, Rat):
                if v.is_const():
                    ok = v.const_value() != 0
                else:
                    ok = any(a.startswith("validate_schema_instance(") for a in v.atoms())
            elif isinstance(v, Opaque):
                ok = v.text.startswith("validate_schema_instance(")
            res.ob("R18.3", f"{fname} returns the verdict of validate_schema_instance or a failure count ({vtxt(v)[:60]})", ok, prog.loc(vfi, f.exit[2]))
            if not ok:
                res.violation("R18.3", f"validator-verdict:{fname}:{vtxt(v)[:60]}", prog.loc(vfi, f.exit[2]), vq,
                              f"{fname} returns {vtxt(v)[:80]}, which is not the schema verdict")
    # base worker: 0 only after validate(); handler returns non-zero
    bq = f"{VAL}.validate_schema_instance"
    bfi = prog.func(bq)
    res.analysed(bq)

    class HB(Hooks):
        def on_call(self, node, fname, args, kwargs, st, eng):
            if fname in ("validate", "jsonschema.validate"):
                kw = {k.arg for k in node.keywords}
                st.emit("VALIDATED", kw, node)
            return None

    # alternative idiom: errors = [list(] validator.iter_errors(instance) [)] ; verdict decided by the emptiness of THAT collection
    iter_names = set()
    for n in ast.walk(bfi.node):
        if isinstance(n, ast.Assign) and len(n.targets) == 1 and isinstance(n.targets[0], ast.Name):
            v_ = n.value
            while isinstance(v_, ast.Call) and attr_chain(v_.func) in ("list", "sorted", "tuple") and v_.args:
                v_ = v_.args[0]
            if isinstance(v_, ast.Call) and isinstance(v_.func, ast.Attribute) and v_.func.attr == "iter_errors" and v_.args and ast.unparse(v_.args[0]) == "instance":
                iter_names.add(n.targets[0].id)
    e3 = Engine(prog, bfi, HB())
    s0 = State()
    for p in bfi.params():
        s0.env[p] = Rat.atom(p)
    seen_zero = seen_handler = False
    for f in e3.run_function(s0):
        if f.exit is None or f.exit[0] != "return":
            if f.exit is None:
                res.violation("R18.3", "base-falls-off", prog.loc(bfi, bfi.node), bq, "validate_schema_instance can end without a verdict")
            continue
        v = f.exit[1]
        caught = any(e.kind == "except" for e in f.events)
        did = any(e.kind == "VALIDATED" for e in f.events)
        if isinstance(v, Rat) and v.is_const():
            if v.const_value() == 0:
                seen_zero = True
                ok = did and not caught
                if not did and iter_names and not caught:
                    # 0 only on a path that has established that the collection of ALL schema errors is empty
                    pass
                if not did and iter_names and not caught:
                    empties = [nm for nm in iter_names if f.facts.get(nm) is False or f.sign_of(sym.call("len", [Rat.atom(nm)])) == frozenset("0")
                               or (isinstance(f.env.get(nm), Rat) and (f.sign_of(f.env[nm]) == frozenset("0") or f.sign_of(sym.call("len", [f.env[nm]])) == frozenset("0")))]
                    ok = bool(empties)
                    res.ob("R18.3", "validate_schema_instance returns 0 only when the collection of all schema errors (iter_errors) is empty", ok, prog.loc(bfi, f.exit[2]))
                    if not ok:
                        res.violation("R18.3", "base-zero-with-errors", prog.loc(bfi, f.exit[2]), bq,
                                      "validate_schema_instance returns 0 on a path that has not established that iter_errors(instance) is empty: some schema violations (e.g. missing keys, which carry no path) are not counted")
                    continue
                res.ob("R18.3", "validate_schema_instance returns 0 only after jsonschema.validate() succeeded", ok, prog.loc(bfi, f.exit[2]))
                if not ok:
                    res.violation("R18.3", "base-zero-without-validate", prog.loc(bfi, f.exit[2]), bq,
                                  "validate_schema_instance returns 0 " + ("from its exception handler" if caught else "without calling validate()"))
            else:
                if caught:
                    seen_handler = True
                elif iter_names and any(f.facts.get(nm) is True or "0" not in f.sign_of(sym.call("len", [Rat.atom(nm)]))
                                        or (isinstance(f.env.get(nm), Rat) and ("0" not in f.sign_of(f.env[nm]) or "0" not in f.sign_of(sym.call("len", [f.env[nm]])))) for nm in iter_names):
                    seen_handler = True  # non-zero verdict on a path where errors were found
        else:
            raise AnalysisError(f"{bq}: verdict not understood: {vtxt(v)}")
    res.ob("R18.3", "validate_schema_instance has a success path and a failing handler path", seen_zero and seen_handler, prog.loc(bfi, bfi.node))
    if not seen_handler:
        res.violation("R18.3", "base-no-failing-handler", prog.loc(bfi, bfi.node), bq, "no path of validate_schema_instance reports a schema violation as non-zero")
    # validate(instance=instance, schema=schema) uses the function's own instance and the loaded schema
    for n in ast.walk(bfi.node):
        if isinstance(n, ast.Call) and attr_chain(n.func) == "validate":
            kws = {k.arg: ast.unparse(k.value) for k in n.keywords}
            pos = [ast.unparse(a) for a in n.args]
            inst = kws.get("instance", pos[0] if pos else None)
            ok = inst == "instance"
            res.ob("R18.3", "jsonschema.validate receives the section instance", ok, prog.loc(bfi, n))
            if not ok:
                res.violation("R18.3", "base-wrong-instance", prog.loc(bfi, n), bq, f"validate() is given {inst} instead of the instance")


# ---------------------------------------------------------------------------
CASE_FIELDS = [
    ("validate_fluid", "fluid_name"),
    ("validate_pipe", "arrangement"),
    ("validate_simulation", "timestep"),
    ("validate_geometric", "method"),
    ("validate_design", "flow_type"),
]
LOADER_CASE = [
    (f"{MGR}.GHEManager.set_design_geometry_type", "design_geometry_str"),
    (f"{MGR}.GHEManager.set_pipe_type", "bh_pipe_str"),
    (f"{MGR}.GHEManager.set_design", "flow_type_str"),
    ("ghedesigner.media.GHEFluid.__init__", "fluid_str"),
]


def _is_upper_of(node: ast.expr, what: str) -> bool:
    """node is <something built from `what`>.upper()"""
    if isinstance(node, ast.Call) and isinstance(node.func, ast.Attribute) and node.func.attr == "upper" and not node.args:
        return what in ast.unparse(node.func.value)
    return False


def _upper_helpers(prog: Program) -> dict:
    """functions f(d, key) of the validation module that return a copy of d with d[key] upper-cased -> {name: (dict param index, key param index)}"""
    out = {}
    for q, fi in prog.funcs.items():
        if not q.startswith(VAL + ".") or fi.cls:
            continue
        ps = fi.params()
        if len(ps) < 2:
            continue
        rets = [r for r in ast.walk(fi.node) if isinstance(r, ast.Return) and isinstance(r.value, ast.Name)]
        if len(rets) != 1:
            continue
        rn = rets[0].value.id
        copied_from = None
        upper_key = None
        for n in ast.walk(fi.node):
            if isinstance(n, ast.Assign) and len(n.targets) == 1:
                t, v = n.targets[0], n.value
                if isinstance(t, ast.Name) and t.id == rn:
                    if isinstance(v, ast.Call) and attr_chain(v.func) in ("dict", "copy", "copy.copy", "deepcopy", "copy.deepcopy") and len(v.args) == 1 and isinstance(v.args[0], ast.Name) and v.args[0].id in ps:
                        copied_from = v.args[0].id
                    elif isinstance(v, ast.Call) and isinstance(v.func, ast.Attribute) and v.func.attr == "copy" and isinstance(v.func.value, ast.Name) and v.func.value.id in ps:
                        copied_from = v.func.value.id
                if isinstance(t, ast.Subscript) and isinstance(t.value, ast.Name) and t.value.id == rn and isinstance(t.slice, ast.Name) and t.slice.id in ps \
                        and copied_from is not None and _is_upper_of(v, f"{copied_from}[{t.slice.id}]"):
                    upper_key = t.slice.id
        if copied_from is not None and upper_key is not None:
            out[fi.name] = (ps.index(copied_from), ps.index(upper_key))
    return out


def _check_case(prog: Program, res: Result):
    helpers = _upper_helpers(prog)
    for fname, key in CASE_FIELDS:
        q = f"{VAL}.{fname}"
        fi = prog.func(q)
        inst = fi.params()[0]
        calls = sorted([n for n in ast.walk(fi.node) if isinstance(n, ast.Call) and attr_chain(n.func) == "validate_schema_instance"], key=lambda n: n.lineno)
        if not calls:
            raise AnalysisError(f"{q}: schema validation call not found")
        vsi = prog.func(f"{VAL}.validate_schema_instance")

        def helper_result(v):
            """v is helper(<dict>, '<key>') -> (source dict name, key) else None"""
            if isinstance(v, ast.Call) and attr_chain(v.func) in helpers and len(v.args) >= 2:
                di, ki = helpers[attr_chain(v.func)]
                a_d, a_k = v.args[di], v.args[ki]
                if isinstance(a_d, ast.Name) and isinstance(a_k, ast.Constant):
                    return a_d.id, a_k.value
            return None

        def has_upper(name: str, before: int, depth: int = 0) -> bool:
            """is `key` upper-cased in the dict bound to `name` at line `before`?  (last binding / in-place store before that line)"""
            if depth > 4:
                return False
            events = []  # (line, kind, payload)
            for n in ast.walk(fi.node):
                if isinstance(n, ast.Assign) and len(n.targets) == 1 and n.lineno < before:
                    t, v = n.targets[0], n.value
                    if isinstance(t, ast.Name) and t.id == name:
                        events.append((n.lineno, "bind", v))
                    if isinstance(t, ast.Subscript) and isinstance(t.value, ast.Name) and t.value.id == name and isinstance(t.slice, ast.Constant) and t.slice.value == key:
                        events.append((n.lineno, "store", v))
            ok_ = False
            for ln, kind, v in sorted(events, key=lambda e: e[0]):
                if kind == "store":
                    src = f"{name}['{key}']"
                    ok_ = _is_upper_of(v, src) or (isinstance(v, ast.Name) and any(
                        isinstance(m, ast.Assign) and len(m.targets) == 1 and isinstance(m.targets[0], ast.Name) and m.targets[0].id == v.id and _is_upper_of(m.value, src) and m.lineno < ln
                        for m in ast.walk(fi.node)))
                else:
                    hr = helper_result(v)
                    if hr is not None:
                        ok_ = hr[1] == key or has_upper(hr[0], ln, depth + 1)
                    elif isinstance(v, ast.Name):
                        ok_ = has_upper(v.id, ln, depth + 1)
                    else:
                        ok_ = False
            return ok_

        ok = True
        for c in calls:
            a = bind_args(vsi, c).get("instance")
            hr = helper_result(a) if a is not None else None
            if hr is not None:
                good = hr[1] == key or has_upper(hr[0], c.lineno)
            elif isinstance(a, ast.Name):
                good = has_upper(a.id, c.lineno)
            else:
                good = False
            ok = ok and good
        res.ob("R18.4", f"{fname}: '{key}' is upper-cased in the instance that is handed to the schema validation", ok, prog.loc(fi, calls[0]))
        if not ok:
            res.violation("R18.4", f"case:{fname}:{key}", prog.loc(fi, calls[0]), q,
                          f"'{key}' is not upper-cased in the instance before it is validated against an upper-case enum "
                          f"(mixed-case input would be rejected)")
    for q, param in LOADER_CASE:
        fi = prog.func(q)
        res.analysed(q)
        first_cmp = None
        for n in ast.walk(fi.node):
            if isinstance(n, (ast.Compare, ast.Subscript)) and any(isinstance(x, ast.Name) and x.id == param for x in ast.walk(n)):
                if isinstance(n, ast.Subscript) and not any(isinstance(x, ast.Name) and x.id == param for x in ast.walk(n.slice)):
                    continue
                first_cmp = n.lineno if first_cmp is None else min(first_cmp, n.lineno)
        up_line = None
        for n in ast.walk(fi.node):
            if isinstance(n, ast.Assign) and len(n.targets) == 1 and isinstance(n.targets[0], ast.Name) and n.targets[0].id == param and _is_upper_of(n.value, param):
                up_line = n.lineno if up_line is None else min(up_line, n.lineno)
        ok = up_line is not None and (first_cmp is None or up_line < first_cmp)
        if not ok:
            # the same thing without rebinding the parameter: every place the raw string is read upper-cases it on the spot
            # (ENUM.__members__.get(str(p).upper()),  x = p.upper() ...) - or only puts it into a message
            uppers = [n for n in ast.walk(fi.node) if _is_upper_of(n, param)]
            msgs = [n for n in ast.walk(fi.node) if isinstance(n, ast.JoinedStr)]
            loads = [n for n in ast.walk(fi.node) if isinstance(n, ast.Name) and n.id == param and isinstance(n.ctx, ast.Load)
                     and (up_line is None or n.lineno <= up_line)]
            covered = all(any(n is x for u in uppers for x in ast.walk(u)) or any(n is x for m_ in msgs for x in ast.walk(m_)) for n in loads)
            ok = bool(loads) and bool(uppers) and covered
        res.ob("R18.4", f"{q.split('.')[-2]}.{q.split('.')[-1]}: '{param}' is upper-cased before it is compared", ok, prog.loc(fi, fi.node))
        if not ok:
            res.violation("R18.4", f"loader-case:{q}", prog.loc(fi, fi.node), q,
                          f"'{param}' is compared without being upper-cased first; the loader re-reads the raw file, so a "
                          f"mixed-case name that passed validation would be rejected (or mis-dispatched) here")


_VSI_OLD = '    try:\n        schema_dir = Path(__file__).parent / "schemas"\n        schema_path = schema_dir / schema_file_name\n        schema = loads(schema_path.read_text())\n        validate(instance=instance, schema=schema)\n        return 0\n    except ValidationError:\n        print(error_msg, file=sys.stderr)\n        return 1\n'
_VSI_ITER_OK = '    schema_dir = Path(__file__).parent / "schemas"\n    schema_path = schema_dir / schema_file_name\n    schema = loads(schema_path.read_text())\n    errors = list(validator_for(schema)(schema).iter_errors(instance))\n    if errors:\n        print(error_msg, file=sys.stderr)\n        return 1\n    return 0\n'
_VSI_ITER_BAD = '    schema_dir = Path(__file__).parent / "schemas"\n    schema_path = schema_dir / schema_file_name\n    schema = loads(schema_path.read_text())\n    errors = list(validator_for(schema)(schema).iter_errors(instance))\n    fields = [str(err.path[0]) for err in errors if err.path]\n    if fields:\n        print(error_msg, file=sys.stderr)\n        return 1\n    return 0\n'

_VIF_OLD = """    err_count = 0
    err_count += validate_file_structure(instance)
    err_count += validate_fluid(instance["fluid"])
    err_count += validate_grout(instance["grout"])
    err_count += validate_soil(instance["soil"])
    err_count += validate_pipe(instance["pipe"])
    err_count += validate_borehole(instance["borehole"])
    err_count += validate_simulation(instance["simulation"])
    err_count += validate_geometric(instance["geometric_constraints"])
    err_count += validate_design(instance["design"])
    err_count += validate_loads(instance["loads"])
"""
_VIF_NEW = """    err_count = validate_file_structure(instance)
    for section_name, section_validator in SECTION_VALIDATORS:
        err_count += section_validator(instance[section_name])
"""

VARIANTS = [
    Variant("bit-mask verdict of ten checks handed on as the process status: design / loads errors wrap to 0 (seeded C18_i)", "break",
            [(MGR, "    if validate_input_file(input_file_path) != 0:\n        return 1\n\n    inputs = loads", "    validation_status = validate_input_file(input_file_path)\n    if validation_status != 0:\n        return validation_status\n\n    inputs = loads"),
             (MGR, "            if validate_input_file(input_path) != 0:\n                logger.error(\"Schema validation error. See previous error message for details.\")\n                exit(1)", "            validation_status = validate_input_file(input_path)\n            if validation_status != 0:\n                logger.error(\"Schema validation error. See previous error message for details.\")\n                exit(validation_status)"),
             (VAL, "    err_count = 0\n    err_count += validate_file_structure(instance)\n    err_count += validate_fluid(instance[\"fluid\"])\n    err_count += validate_grout(instance[\"grout\"])\n    err_count += validate_soil(instance[\"soil\"])\n    err_count += validate_pipe(instance[\"pipe\"])\n    err_count += validate_borehole(instance[\"borehole\"])\n    err_count += validate_simulation(instance[\"simulation\"])\n    err_count += validate_geometric(instance[\"geometric_constraints\"])\n    err_count += validate_design(instance[\"design\"])\n    err_count += validate_loads(instance[\"loads\"])\n    return err_count",
              "    status = 0\n    status |= validate_file_structure(instance) << 0\n    status |= validate_fluid(instance[\"fluid\"]) << 1\n    status |= validate_grout(instance[\"grout\"]) << 2\n    status |= validate_soil(instance[\"soil\"]) << 3\n    status |= validate_pipe(instance[\"pipe\"]) << 4\n    status |= validate_borehole(instance[\"borehole\"]) << 5\n    status |= validate_simulation(instance[\"simulation\"]) << 6\n    status |= validate_geometric(instance[\"geometric_constraints\"]) << 7\n    status |= validate_design(instance[\"design\"]) << 8\n    status |= validate_loads(instance[\"loads\"]) << 9\n    return status")], "R18.2"),
    Variant("the error count (at most 10) handed on as the process status", "benign",
            [(MGR, "    if validate_input_file(input_file_path) != 0:\n        return 1\n\n    inputs = loads", "    validation_status = validate_input_file(input_file_path)\n    if validation_status != 0:\n        return validation_status\n\n    inputs = loads"),
             (MGR, "            if validate_input_file(input_path) != 0:\n                logger.error(\"Schema validation error. See previous error message for details.\")\n                exit(1)", "            validation_status = validate_input_file(input_path)\n            if validation_status != 0:\n                logger.error(\"Schema validation error. See previous error message for details.\")\n                exit(validation_status)")]),
    Variant("unknown design method falls back to the rectangle schema, whose const the draft-04 validator ignores (seeded C18_g)", "break",
            [(VAL, '    if method not in schema_map:\n        print("Geometric constraint method not recognized.", file=sys.stderr)\n        return 1\n\n    return validate_schema_instance(\n        schema_file_name=schema_map[method],',
              '    return validate_schema_instance(\n        schema_file_name=schema_map.get(method, "geometric_rectangle.schema.json"),')], "R18.7"),
    Variant("unknown pipe arrangement falls back to the u-tube schema, which lists the allowed names in an enum", "benign",
            [(VAL, '    if pipe_arrangement not in schema_map:\n        print("Pipe arrangement not found.", file=sys.stderr)\n        return 1\n\n    return validate_schema_instance(\n        schema_file_name=schema_map[pipe_arrangement],',
              '    return validate_schema_instance(\n        schema_file_name=schema_map.get(pipe_arrangement, "pipe_single_double_u_tube.schema.json"),')]),
    Variant("table-driven validate_input_file with the soil row pointing at the grout validator (seeded C18_e)", "break",
            [(VAL, "def validate_input_file(", "SECTION_VALIDATORS = (\n    (\"fluid\", validate_fluid),\n    (\"grout\", validate_grout),\n    (\"soil\", validate_grout),\n    (\"pipe\", validate_pipe),\n    (\"borehole\", validate_borehole),\n    (\"simulation\", validate_simulation),\n    (\"geometric_constraints\", validate_geometric),\n    (\"design\", validate_design),\n    (\"loads\", validate_loads),\n)\n\n\ndef validate_input_file("),
             (VAL, _VIF_OLD, _VIF_NEW)], "R18.3"),
    Variant("table-driven validate_input_file, every section with its own validator", "benign",
            [(VAL, "def validate_input_file(", "SECTION_VALIDATORS = (\n    (\"fluid\", validate_fluid),\n    (\"grout\", validate_grout),\n    (\"soil\", validate_soil),\n    (\"pipe\", validate_pipe),\n    (\"borehole\", validate_borehole),\n    (\"simulation\", validate_simulation),\n    (\"geometric_constraints\", validate_geometric),\n    (\"design\", validate_design),\n    (\"loads\", validate_loads),\n)\n\n\ndef validate_input_file("),
             (VAL, _VIF_OLD, _VIF_NEW)]),
    Variant("supported conversions held in a parenthesised string instead of a tuple (seeded C18_f)", "break",
            [("ghedesigner.manager", '    if convert == "IDF":', '    if convert in ("IDF"):')], "R18.6"),
    Variant("supported conversions held in a one-element tuple", "benign",
            [("ghedesigner.manager", '    if convert == "IDF":', '    if convert in ("IDF",):')]),
    Variant("validation through iter_errors, errors without a path are not counted (seeded C18_c)", "break", [(VAL, _VSI_OLD, _VSI_ITER_BAD)], "R18.3"),
    Variant("validation through iter_errors, verdict = the error list is empty", "benign", [(VAL, _VSI_OLD, _VSI_ITER_OK)]),
    Variant("worker continues after a failed validation", "break",
            [(MGR, """    if validate_input_file(input_file_path) != 0:
        return 1
""", """    validate_input_file(input_file_path)
""")], "R18.2"),
    Variant("worker returns 0 before writing the output files", "break",
            [(MGR, """    ghe.find_design(throw=False)
    ghe.prepare_results("GHEDesigner Run from CLI", "Notes", "Author", "Iteration Name")
    ghe.write_output_files(output_directory)

    return 0""", """    ghe.find_design(throw=False)
    ghe.prepare_results("GHEDesigner Run from CLI", "Notes", "Author", "Iteration Name")
    return 0""")], "R18.5"),
    Variant("validate_grout result not accumulated", "break",
            [(VAL, "    err_count += validate_grout(instance[\"grout\"])", "    validate_grout(instance[\"grout\"])")], "R18.3"),
    Variant("validate_design no longer upper-cases flow_type", "break",
            [(VAL, """    flow_type = str(instance["flow_type"]).upper()
    instance["flow_type"] = flow_type
""", "")], "R18.4"),
    Variant("schema handler returns 0", "break",
            [(VAL, """    except ValidationError:
        print(error_msg, file=sys.stderr)
        return 1""", """    except ValidationError:
        print(error_msg, file=sys.stderr)
        return 0""")], "R18.3"),
    Variant("unknown geometry method in the worker falls through to success", "break",
            [(MGR, """    else:
        print("Geometry constraint method not supported.", file=stderr)
        return 1

    ghe.set_design(""", """    else:
        print("Geometry constraint method not supported.", file=stderr)
        return 0

    ghe.set_design(""")], "R18.5"),
    Variant("set_pipe_type compares without upper-casing", "break",
            [(MGR, "        bh_pipe_str = str(bh_pipe_str).upper()\n", "        bh_pipe_str = str(bh_pipe_str)\n")], "R18.4"),
    Variant("missing output directory: exit(1) turned back into return 1", "break",
            [(MGR, """        print('Output directory path must be passed as an argument, aborting', file=stderr)
        exit(1)""", """        print('Output directory path must be passed as an argument, aborting', file=stderr)
        return 1""")], "R18.1"),
    Variant("worker status returned instead of raised", "break",
            [(MGR, "    exit(_run_manager_from_cli_worker(input_path, output_path))", "    return _run_manager_from_cli_worker(input_path, output_path)")], "R18.1"),
    Variant("--validate-only: verdict assigned and never tested", "break",
            [(MGR, """            if validate_input_file(input_path) != 0:
                logger.error("Schema validation error. See previous error message for details.")
                exit(1)
""", """            verdict = validate_input_file(input_path)
""")], "R18.2"),
    Variant("loads section no longer validated", "break",
            [(VAL, '    err_count += validate_loads(instance["loads"])\n', "")], "R18.3"),
    Variant("'if rc != 0' written as 'if rc'", "benign",
            [(MGR, """    if validate_input_file(input_file_path) != 0:
        return 1
""", """    rc = validate_input_file(input_file_path)
    if rc:
        return 1
""")]),
    Variant("validators accumulated through a list and sum-like additions", "benign",
            [(VAL, """    err_count += validate_soil(instance["soil"])
    err_count += validate_pipe(instance["pipe"])""", """    soil_errors = validate_soil(instance["soil"])
    err_count = err_count + soil_errors + validate_pipe(instance["pipe"])""")]),
]
