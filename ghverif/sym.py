"""E2 - rational normal forms.

A scalar expression is canonicalised to a quotient of two multivariate
polynomials with Fraction coefficients over *atoms* (strings).  Atoms are
attribute paths, subscripted paths, array-element markers (``name@offset``)
and applications of opaque functions whose arguments are themselves in
normal form.  Equality is decided by cross-multiplication, so no search, no
case split and no satisfiability query is involved: this is a canonicaliser
(what a compiler's GVN / scalar-evolution pass does), not a solver.

Identities are over the reals; floating-point rounding is outside the domain.
"""
from __future__ import annotations

import re
from fractions import Fraction
from typing import Dict, Iterable, Optional, Tuple

Mono = Tuple[Tuple[str, int], ...]

# registry of structured atoms so that substitution / shifting can rebuild them
#   atom -> ("call", fname, (Rat, ...)) | ("dot", Rat elem, Rat|None length) | ("sqrt", Rat)
ATOM_DEF: Dict[str, tuple] = {}
ITE_COND: Dict[str, object] = {}  # '[<cond key>]' atom of an undecided conditional expression -> the condition object

COMMUTATIVE_FUNCS = {"max", "min"}


def frac(x) -> Fraction:
    if isinstance(x, Fraction):
        return x
    if isinstance(x, bool):
        return Fraction(int(x))
    if isinstance(x, int):
        return Fraction(x)
    if isinstance(x, float):
        return Fraction(repr(x))
    raise TypeError(f"not a number: {x!r}")


def _mono_mul(a: Mono, b: Mono) -> Mono:
    if not a:
        return b
    if not b:
        return a
    d = dict(a)
    for k, e in b:
        d[k] = d.get(k, 0) + e
    return tuple(sorted((k, e) for k, e in d.items() if e != 0))


class Poly:
    __slots__ = ("t",)

    def __init__(self, terms: Optional[Dict[Mono, Fraction]] = None):
        self.t = {m: c for m, c in (terms or {}).items() if c != 0}

    # ---- constructors
    @staticmethod
    def const(c) -> "Poly":
        return Poly({(): frac(c)})

    @staticmethod
    def atom(name: str, exp: int = 1) -> "Poly":
        return Poly({((name, exp),): Fraction(1)})

    # ---- predicates
    def is_zero(self) -> bool:
        return not self.t

    def is_const(self) -> bool:
        return all(m == () for m in self.t)

    def const_value(self) -> Fraction:
        return self.t.get((), Fraction(0))

    def is_monomial(self) -> bool:
        return len(self.t) == 1

    def atoms(self) -> set:
        return {k for m in self.t for k, _ in m}

    # ---- arithmetic
    def __add__(self, o: "Poly") -> "Poly":
        d = dict(self.t)
        for m, c in o.t.items():
            d[m] = d.get(m, 0) + c
        return Poly(d)

    def __neg__(self) -> "Poly":
        return Poly({m: -c for m, c in self.t.items()})

    def __sub__(self, o: "Poly") -> "Poly":
        return self + (-o)

    def __mul__(self, o: "Poly") -> "Poly":
        d: Dict[Mono, Fraction] = {}
        for m1, c1 in self.t.items():
            for m2, c2 in o.t.items():
                m = _mono_mul(m1, m2)
                d[m] = d.get(m, 0) + c1 * c2
        return Poly(d)

    def scale(self, c: Fraction) -> "Poly":
        return Poly({m: v * c for m, v in self.t.items()})

    def __pow__(self, n: int) -> "Poly":
        assert n >= 0
        r = Poly.const(1)
        for _ in range(n):
            r = r * self
        return r

    def __eq__(self, o) -> bool:
        return isinstance(o, Poly) and self.t == o.t

    def __hash__(self):
        return hash(self.key())

    # ---- canonical text
    def key(self) -> str:
        if not self.t:
            return "0"
        parts = []
        for m in sorted(self.t):
            c = self.t[m]
            ms = "*".join(k if e == 1 else f"{k}^{e}" for k, e in m)
            if not ms:
                parts.append(str(c))
            elif c == 1:
                parts.append(ms)
            elif c == -1:
                parts.append("-" + ms)
            else:
                parts.append(f"{c}*{ms}")
        return " + ".join(parts)

    __repr__ = key

    # ---- content / division
    def mono_content(self) -> Mono:
        """greatest common monomial factor of all terms"""
        it = iter(self.t)
        try:
            first = dict(next(it))
        except StopIteration:
            return ()
        for m in it:
            dm = dict(m)
            first = {k: min(e, dm[k]) for k, e in first.items() if k in dm}
            if not first:
                return ()
        return tuple(sorted(first.items()))

    def div_mono(self, mono: Mono, c: Fraction = Fraction(1)) -> "Poly":
        dm = dict(mono)
        out = {}
        for m, v in self.t.items():
            d = dict(m)
            for k, e in dm.items():
                d[k] = d.get(k, 0) - e
            out[tuple(sorted((k, e) for k, e in d.items() if e != 0))] = v / c
        return Poly(out)

    def _lead(self, order):
        def k(m):
            d = dict(m)
            return tuple(d.get(v, 0) for v in order)

        m = max(self.t, key=k)
        return m, self.t[m]

    def divide_exact(self, o: "Poly") -> Optional["Poly"]:
        """self / o if o divides self exactly, else None (lex order long division)."""
        if o.is_zero():
            return None
        if o.is_const():
            return self.scale(1 / o.const_value())
        order = sorted(self.atoms() | o.atoms())
        rem = Poly(dict(self.t))
        quo = Poly()
        lm_o, lc_o = o._lead(order)
        dlo = dict(lm_o)
        guard = 0
        while not rem.is_zero():
            guard += 1
            if guard > 2000:
                return None
            lm_r, lc_r = rem._lead(order)
            dr = dict(lm_r)
            if any(dr.get(k, 0) < e for k, e in dlo.items()):
                return None
            qm = tuple(sorted((k, dr[k] - dlo.get(k, 0)) for k in dr if dr[k] - dlo.get(k, 0) != 0))
            qt = Poly({qm: lc_r / lc_o})
            quo = quo + qt
            rem = rem - qt * o
        return quo


def _mono_gcd(a: Mono, b: Mono) -> Mono:
    da, db = dict(a), dict(b)
    return tuple(sorted((k, min(e, db[k])) for k, e in da.items() if k in db))


class Rat:
    """quotient of two polynomials, lightly reduced"""

    __slots__ = ("n", "d", "_key")

    def __init__(self, n: Poly, d: Optional[Poly] = None, _norm: bool = True):
        self.n = n
        self.d = d if d is not None else Poly.const(1)
        self._key = None
        if self.d.is_zero():
            raise ZeroDivisionError("symbolic division by zero")
        if _norm:
            self._normalize()

    # ---- constructors
    @staticmethod
    def const(c) -> "Rat":
        return Rat(Poly.const(c))

    @staticmethod
    def atom(name: str) -> "Rat":
        return Rat(Poly.atom(name))

    def _normalize(self):
        n, d = self.n, self.d
        if n.is_zero():
            self.n, self.d = Poly(), Poly.const(1)
            return
        n, d = _reduce_sqrt(n, d)
        if n.is_zero():
            self.n, self.d = Poly(), Poly.const(1)
            return
        # common monomial content
        g = _mono_gcd(n.mono_content(), d.mono_content())
        if g:
            n, d = n.div_mono(g), d.div_mono(g)
        if not d.is_const():
            if d.is_monomial():
                pass
            else:
                q = n.divide_exact(d)
                if q is not None:
                    n, d = q, Poly.const(1)
                else:
                    q = d.divide_exact(n)
                    if q is not None and not n.is_const():
                        n, d = Poly.const(1), q
        # make the denominator's smallest-key term coefficient 1
        if d.is_const():
            c = d.const_value()
            n, d = n.scale(1 / c), Poly.const(1)
        else:
            m0 = min(d.t)
            c = d.t[m0]
            if c != 1:
                n, d = n.scale(1 / c), d.scale(1 / c)
        self.n, self.d = n, d

    # ---- arithmetic
    def __add__(self, o: "Rat") -> "Rat":
        if self.d == o.d:
            return Rat(self.n + o.n, self.d)
        return Rat(self.n * o.d + o.n * self.d, self.d * o.d)

    def __neg__(self) -> "Rat":
        return Rat(-self.n, self.d)

    def __sub__(self, o: "Rat") -> "Rat":
        return self + (-o)

    def __mul__(self, o: "Rat") -> "Rat":
        return Rat(self.n * o.n, self.d * o.d)

    def __truediv__(self, o: "Rat") -> "Rat":
        if o.n.is_zero():
            raise ZeroDivisionError("symbolic division by zero")
        return Rat(self.n * o.d, self.d * o.n)

    def __pow__(self, k: int) -> "Rat":
        if k >= 0:
            return Rat(self.n ** k, self.d ** k)
        if self.n.is_zero():
            raise ZeroDivisionError("symbolic division by zero")
        return Rat(self.d ** (-k), self.n ** (-k))

    def is_zero(self) -> bool:
        return self.n.is_zero()

    def is_const(self) -> bool:
        return self.n.is_const() and self.d.is_const()

    def const_value(self) -> Fraction:
        return self.n.const_value() / self.d.const_value()

    def atoms(self) -> set:
        return self.n.atoms() | self.d.atoms()

    def all_atoms(self) -> set:
        """atoms, recursively through structured atoms"""
        out = set()
        stack = list(self.atoms())
        while stack:
            a = stack.pop()
            if a in out:
                continue
            out.add(a)
            df = ATOM_DEF.get(a)
            if df:
                for sub in _def_rats(df):
                    stack.extend(sub.atoms())
        return out

    def equals(self, o: "Rat") -> bool:
        return (self.n * o.d - o.n * self.d).is_zero()

    def __eq__(self, o) -> bool:
        return isinstance(o, Rat) and self.equals(o)

    def __hash__(self):
        return hash(self.key())

    def key(self) -> str:
        if self._key is None:
            if self.d.is_const() and self.d.const_value() == 1:
                self._key = self.n.key()
            else:
                self._key = f"({self.n.key()})/({self.d.key()})"
        return self._key

    __repr__ = key

    # ---- substitution
    def subs(self, mapping: Dict[str, "Rat"], deep: bool = True) -> "Rat":
        if not mapping:
            return self
        memo: Dict[str, Rat] = {}

        def atom_val(a: str) -> Rat:
            if a in mapping:
                return mapping[a]
            if a in memo:
                return memo[a]
            r = Rat.atom(a)
            if deep:
                df = ATOM_DEF.get(a)
                if df is not None:
                    r = _rebuild(df, lambda x: x.subs(mapping, deep=True))
            memo[a] = r
            return r

        def poly_val(p: Poly) -> Rat:
            acc = Rat.const(0)
            for m, c in p.t.items():
                term = Rat.const(c)
                for k, e in m:
                    term = term * (atom_val(k) ** e)
                acc = acc + term
            return acc

        touched = self.all_atoms() if deep else self.atoms()
        if not (touched & set(mapping)):
            return self
        return poly_val(self.n) / poly_val(self.d)

    def degree_in(self, atom: str) -> Optional[int]:
        """degree of the numerator in ``atom`` provided the denominator is free of it
        (and the atom does not occur inside structured atoms); None otherwise"""
        if atom in self.d.atoms():
            return None
        for a in self.all_atoms():
            if a != atom and a not in self.atoms():
                pass
        deg = 0
        for m in self.n.t:
            for k, e in m:
                if k == atom:
                    deg = max(deg, e)
        return deg

    def coeff(self, atom: str, power: int = 1) -> "Rat":
        """coefficient of atom**power in the numerator, divided by the denominator
        (denominator must be free of atom)"""
        out = {}
        for m, c in self.n.t.items():
            dm = dict(m)
            if dm.get(atom, 0) == power:
                dm.pop(atom, None)
                out[tuple(sorted(dm.items()))] = c
        return Rat(Poly(out), self.d)


def _def_rats(df) -> Iterable["Rat"]:
    kind = df[0]
    if kind == "call":
        return [a for a in df[2] if isinstance(a, Rat)]
    if kind == "dot":
        return [x for x in (df[1], df[2]) if isinstance(x, Rat)]
    if kind == "sqrt":
        return [df[1]]
    return []


def _rebuild(df, f) -> "Rat":
    kind = df[0]
    if kind == "call":
        return call(df[1], [f(a) if isinstance(a, Rat) else a for a in df[2]])
    if kind == "dot":
        return dot(f(df[1]), f(df[2]) if isinstance(df[2], Rat) else df[2])
    if kind == "sqrt":
        return sqrt(f(df[1]))
    raise ValueError(kind)


def _reduce_sqrt(n: Poly, d: Poly):
    """replace sqrt(x)**2k by x**k in numerator and denominator"""
    sq = [a for a in (n.atoms() | d.atoms()) if a in ATOM_DEF and ATOM_DEF[a][0] == "sqrt"]
    need = False
    for p in (n, d):
        for m in p.t:
            for k, e in m:
                if e >= 2 and k in sq:
                    need = True
    if not need:
        return n, d

    def conv(p: Poly) -> Rat:
        acc = Rat.const(0)
        for m, c in p.t.items():
            term = Rat.const(c)
            for k, e in m:
                if k in sq and e >= 2:
                    rad = ATOM_DEF[k][1]
                    term = term * (rad ** (e // 2))
                    if e % 2:
                        term = term * Rat(Poly.atom(k), _norm=False)
                else:
                    term = term * Rat(Poly.atom(k, e), _norm=False)
            acc = acc + term
        return acc

    r = conv(n) / conv(d)
    return r.n, r.d


# ---------------------------------------------------------------------------
# structured atoms
# ---------------------------------------------------------------------------

def sqrt(x: Rat) -> Rat:
    if x.is_const():
        v = x.const_value()
        if v >= 0:
            num, den = v.numerator, v.denominator
            rn, rd = _isqrt(num), _isqrt(den)
            if rn is not None and rd is not None:
                return Rat.const(Fraction(rn, rd))
    name = f"sqrt({x.key()})"
    ATOM_DEF[name] = ("sqrt", x)
    return Rat.atom(name)


def _isqrt(n: int) -> Optional[int]:
    if n < 0:
        return None
    import math

    r = math.isqrt(n)
    return r if r * r == n else None


def log(x: Rat) -> Rat:
    """log with the sound (positive reals) expansion of monomial quotients:
    log(c * a^p / b^q) = log(c) + p log(a) - q log(b)"""
    if x.is_const() and x.const_value() == 1:
        return Rat.const(0)
    if x.n.is_monomial() and x.d.is_monomial():
        (mn, cn), = x.n.t.items()
        (md, cd), = x.d.t.items()
        c = cn / cd
        if c > 0 and (len(mn) + len(md)) >= 1 and not (len(mn) + len(md) == 1 and c == 1 and (mn + md)[0][1] == 1):
            acc = Rat.const(0)
            if c != 1:
                acc = acc + _plain_call("log", [Rat.const(c)])
            for k, e in mn:
                acc = acc + Rat.const(e) * _plain_call("log", [Rat.atom(k)])
            for k, e in md:
                acc = acc - Rat.const(e) * _plain_call("log", [Rat.atom(k)])
            return acc
    return _plain_call("log", [x])


def _plain_call(fname: str, args) -> Rat:
    keys = [a.key() if isinstance(a, Rat) else str(a) for a in args]
    if fname in COMMUTATIVE_FUNCS:
        order = sorted(range(len(args)), key=lambda i: keys[i])
        args = [args[i] for i in order]
        keys = [keys[i] for i in order]
    name = f"{fname}({', '.join(keys)})"
    ATOM_DEF[name] = ("call", fname, tuple(args))
    return Rat.atom(name)


def call(fname: str, args) -> Rat:
    args = list(args)
    if fname == "log" and len(args) == 1 and isinstance(args[0], Rat):
        return log(args[0])
    if fname == "sqrt" and len(args) == 1 and isinstance(args[0], Rat):
        return sqrt(args[0])
    if fname in ("float", "double") and len(args) == 1 and isinstance(args[0], Rat):
        return args[0]
    if fname in ("max", "min") and all(isinstance(a, Rat) and a.is_const() for a in args) and args:
        vals = [a.const_value() for a in args]
        return Rat.const(max(vals) if fname == "max" else min(vals))
    if fname == "abs" and len(args) == 1 and isinstance(args[0], Rat) and args[0].is_const():
        return Rat.const(abs(args[0].const_value()))
    return _plain_call(fname, args)


_ELEM_RE = re.compile(r"^(.*)@(-?\d+)$")


def is_elem_atom(a: str) -> bool:
    return bool(_ELEM_RE.match(a))


def elem_atom(base: str, off: int) -> Rat:
    return Rat.atom(f"{base}@{off}")


def has_elem(x: Rat) -> bool:
    return any(is_elem_atom(a) for a in x.all_atoms())


def shift_elems(x: Rat, delta: int) -> Rat:
    """re-index every array-element atom base@o -> base@(o+delta)"""
    if delta == 0:
        return x
    mapping = {}
    for a in x.all_atoms():
        m = _ELEM_RE.match(a)
        if m:
            mapping[a] = elem_atom(m.group(1), int(m.group(2)) + delta)
    return x.subs(mapping)


def index_elems(x: Rat, idx: Rat) -> Rat:
    """instantiate the implicit element index: base@o -> base[idx+o]"""
    mapping = {}
    for a in x.all_atoms():
        m = _ELEM_RE.match(a)
        if m:
            i = idx + Rat.const(int(m.group(2)))
            mapping[a] = Rat.atom(f"{m.group(1)}[{i.key()}]")
    return x.subs(mapping)


def split_scalar_factor(x: Rat):
    """x = s * e with s free of element atoms (as large as cheaply possible)"""
    def is_scalar_atom(a: str) -> bool:
        if is_elem_atom(a):
            return False
        df = ATOM_DEF.get(a)
        if df:
            return not any(has_elem(r) for r in _def_rats(df))
        return True

    s = Rat.const(1)
    n, d = x.n, x.d
    # denominator
    if all(is_scalar_atom(a) for a in d.atoms()):
        s = s / Rat(d)
        d = Poly.const(1)
    else:
        mc = tuple((k, e) for k, e in d.mono_content() if is_scalar_atom(k))
        if mc:
            s = s / Rat(Poly({mc: Fraction(1)}))
            d = d.div_mono(mc)
    if all(is_scalar_atom(a) for a in n.atoms()):
        s = s * Rat(n)
        n = Poly.const(1)
    else:
        mc = tuple((k, e) for k, e in n.mono_content() if is_scalar_atom(k))
        if mc:
            s = s * Rat(Poly({mc: Fraction(1)}))
            n = n.div_mono(mc)
        # numeric content: make the smallest-key term's coefficient 1
        if n.t:
            m0 = min(n.t)
            c = n.t[m0]
            if c != 1:
                s = s * Rat.const(c)
                n = n.scale(1 / c)
    return s, Rat(n, d)


def dot(elem: Rat, length) -> Rat:
    """sum over the implicit index of an element-wise product; scalar factors are pulled out"""
    if elem.is_zero():
        return Rat.const(0)
    s, e = split_scalar_factor(elem)
    lk = length.key() if isinstance(length, Rat) else "?"
    name = f"DOT[{e.key()}; n={lk}]"
    ATOM_DEF[name] = ("dot", e, length)
    return s * Rat.atom(name)


def R(x) -> Rat:
    """convenience: number or atom name -> Rat"""
    if isinstance(x, Rat):
        return x
    if isinstance(x, str):
        return Rat.atom(x)
    return Rat.const(x)
