"""C06 - hybrid time-step loads conserve every month's ground energy.

Decided (structural / algebraic, for every load profile at once because every profile takes
one of the finitely many paths through one month of HybridLoad.process_month_loads):

  R06.0  shape: self.load / self.hour are only ever extended by the append idiom, in one month
         loop over range(start_month, end_month + 1)
  R06.1  pairing: on every path a month contributes as many loads as hours (>= 1)
  R06.2  closing: the month's last breakpoint is last_month_hour(i, years)
  R06.3  energy identity: sum_k load_k * (hour_k - hour_{k-1}) == monthly_cl[i] - monthly_hl[i]
         with hour_0 = the previous month's end, as a rational identity in the monthly totals,
         peaks, durations, peak days and the month length
  R06.4  premise of the no-pulse paths: month_duration subtracts both peak durations whether or not a pulse is
         placed, so on paths without a pulse the identity needs that direction's duration to be the 1e-6 h sentinel;
         find_peak_durations is analysed path by path under monthly_peak[i] == 0 for what it stores
  R06.5  month slicing: split_loads_by_month takes consecutive windows [p : p + 24*days] and
         advances p by the same amount; totals are sums of the window

Not decided: floating-point rounding; negative time steps when pulse windows overlap.  Paths through the four
"pulse would start before hour 0" clamps are included when ONE pulse is clamped (the integral telescopes, so it must
hold there too); paths on which BOTH pulses of a month are clamped (two durations > 26 h on the first of January) are
counted and excluded - on the same-day branch the code does not conserve energy there (seen, section 10.5).  Idealisation: a direction with no load has peak 0 and its
sentinel duration (1e-6 h) is taken as 0 (relative effect on the month's energy <= 1.4e-9).
"""
from __future__ import annotations

import ast

from .. import sym
from ..model import AnalysisError, Program, attr_chain, norm_stmt
from ..report import Result
from ..selftest import Variant
from ..sym import Rat
from . import hybrid_common as hc

PROP = "C06"
TITLE = "Hybrid time-step loads conserve every month's ground energy"
EXPLANATION = (
    "Path-sensitive emission analysis of one iteration of the month loop of HybridLoad.process_month_loads "
    "(backward slice on the appends to self.load / self.hour, branch conditions tracked in a sign domain, "
    "infeasible paths pruned).  For every distinct emission word the month's energy integral "
    "sum(load_k * (hour_k - hour_{k-1})) is computed as a rational normal form and compared with "
    "monthly_cl[i] - monthly_hl[i] by cross-multiplication; pairing and month-end closing are checked per path; "
    "the month windows of split_loads_by_month are checked to partition the year.  This decides the algebraic "
    "content of the property for all load profiles; it does not execute the code and says nothing about rounding."
)
ASSUMPTIONS = [
    "last_month_hour(i) - last_month_hour(i-1) = 24 * monthdays(i) and first_month_hour(i) = last_month_hour(i-1) + 1 "
    "(calendar helpers; their tables are checked under C08)",
    "monthly peaks are maxima of non-negative hourly values, so 'not (peak > 0)' means peak = 0",
    "the sentinel duration 1e-6 h of a direction without load is idealised as 0 (that it IS the sentinel is checked: R06.4)",
    "peak durations are positive (an absent pulse carries the sentinel 1e-6 h): paths that need a negative duration are infeasible",
]


def _energy(p: hc.MonthPath, ma: hc.MonthAnalysis, idealise: bool = True):
    A = ma.atoms
    fmh, lmh = hc.calendar_atoms(ma)
    P, MD = Rat.atom("PREV_END"), Rat.atom("MD")
    mapping = {}
    md_atoms = set()
    for x in list(p.loads) + list(p.hours):
        if isinstance(x, Rat):
            a = hc.find_md_atom(x, ma.loop_var)
            if a:
                md_atoms.add(a)
    for a in md_atoms:
        mapping[a] = MD
    mapping[next(iter(fmh.atoms()))] = P + Rat.const(1)
    mapping[next(iter(lmh.atoms()))] = P + MD * Rat.const(24)
    if p.has_cl is False:
        mapping[next(iter(A["PCL"].atoms()))] = Rat.const(0)
        if idealise:
            mapping[next(iter(A["DCL"].atoms()))] = Rat.const(0)
    if p.has_hl is False:
        mapping[next(iter(A["PHL"].atoms()))] = Rat.const(0)
        if idealise:
            mapping[next(iter(A["DHL"].atoms()))] = Rat.const(0)
    if p.day_rel == "=" and p.ipf is not False:
        mapping[next(iter(A["KCL"].atoms()))] = A["KHL"]
    e = Rat.const(0)
    prev = P
    for l, h in zip(p.loads, p.hours):
        l2, h2 = hc.resolve_ite(l, p.state).subs(mapping), hc.resolve_ite(h, p.state).subs(mapping)
        e = e + l2 * (h2 - prev)
        prev = h2
    target = A["CL"] - A["HL"]
    return e, target, mapping


def check(prog: Program, tier: str) -> Result:
    res = Result(PROP)
    ma = hc.analyse(prog, loop_bound=1 if tier == "quick" else 2)
    fi = ma.fi
    res.analysed(fi.qualname)
    res.count("paths", len(ma.paths))

    # ---- R06.0 shape
    for key_, where_, qn_, msg_ in hc.shape_findings(prog, ma):
        res.violation("R06.0", key_, where_, qn_, msg_)
    res.ob("R06.0", f"month loop iterates range(self.start_month, self.end_month + 1): {ast.unparse(ma.loop.iter)}", not any(k_.startswith("loop-range:") for k_, _, _, _ in hc.shape_findings(prog, ma)), prog.loc(fi, ma.loop))

    # ---- per path
    seen = set()
    needs_sentinel = {}
    n_clamped = 0
    n_double = 0
    for p in ma.paths:
        if p.n_clamps >= 2:
            n_double += 1  # both pulses would start before hour 0: needs two durations > 26 h on January 1st - excluded
            continue
        if p.clamped:
            n_clamped += 1  # one pulse start clamped to hour 0+ (first month only); the energy identity must still hold
        if any(not isinstance(x, Rat) for x in p.loads + p.hours):
            bad = next(x for x in p.loads + p.hours if not isinstance(x, Rat))
            raise AnalysisError(f"{fi.qualname}: emitted value not understood: {bad}")
        word = " | ".join(f"{l.key()} @ {h.key()}" for l, h in zip(p.loads, p.hours)) + f" #{len(p.loads)}/{len(p.hours)}"
        sig = p.signature()
        if (sig, word) in seen:
            continue
        seen.add((sig, word))
        res.count("distinct_words")
        where = hc.path_where(prog, ma, p)
        # R06.1
        ok = len(p.loads) == len(p.hours) and len(p.loads) >= 1
        res.ob("R06.1", f"pairing on path [{sig}]: {len(p.loads)} loads / {len(p.hours)} hours", ok, where)
        if not ok:
            res.violation("R06.1", f"{sig}|{p.order}", where, fi.qualname,
                          f"a month emits {len(p.loads)} loads but {len(p.hours)} breakpoints on the path [{sig}]",
                          emitted=p.order, path=hc.describe_trail(p.state))
            continue
        # R06.2
        _, lmh = hc.calendar_atoms(ma)
        ok = p.hours[-1].equals(lmh)
        res.ob("R06.2", f"month closes at last_month_hour(i) on path [{sig}]", ok, hc.path_where(prog, ma, p, len(p.nodes) - 1))
        if not ok:
            res.violation("R06.2", f"{sig}|last={p.hours[-1].key()}", hc.path_where(prog, ma, p, len(p.nodes) - 1), fi.qualname,
                          f"the month's last breakpoint is {p.hours[-1].key()} instead of last_month_hour(i, years) on the path [{sig}]",
                          path=hc.describe_trail(p.state))
            continue
        # R06.3
        e, target, mapping = _energy(p, ma)
        diff = e - target
        ok = diff.is_zero()
        case_note = ""
        if not ok:
            # breakpoints written with min(.., ..) / max(.., ..): the identity must hold whichever argument is taken
            cases = hc.split_minmax(diff, p.state)
            if len(cases) > 1 or (cases and cases[0][1]):
                bad_case = next(((d_, why_) for d_, why_ in cases if not d_.is_zero()), None)
                if bad_case is None:
                    ok = True
                    diff = Rat.const(0)
                else:
                    diff, case_note = bad_case[0], " when " + " and ".join(bad_case[1])
        if ok and (p.has_cl is False or p.has_hl is False):
            # the identity was reached by taking the duration of the absent pulse as 0: either it holds exactly as well,
            # or the sentinel premise (R06.4) must be established for that direction
            e_x, target_x, _ = _energy(p, ma, idealise=False)
            if not (e_x - target_x).is_zero():
                for tag, absent in (("cl", p.has_cl is False), ("hl", p.has_hl is False)):
                    if absent:
                        needs_sentinel.setdefault(tag, (sig, where))
        res.ob("R06.3", f"energy identity on path [{sig}]", ok, where)
        res.sample({"path": sig, "pairs": [f"{l.key()[:90]} @ {h.key()[:90]}" for l, h in zip(p.loads, p.hours)][:5],
                    "energy_minus_target": diff.key()[:200]})
        if not ok:
            known = {"PREV_END", "MD"} | {next(iter(v.atoms())) for v in ma.atoms.values()}
            unknown = sorted(a for a in diff.atoms() if a not in known)
            if unknown:
                raise AnalysisError(f"{fi.qualname}: energy integral on path [{sig}] contains atoms the rule does not model: {unknown[:4]}")
            first_pulse = next((k for k, l in enumerate(p.loads) if any(l.equals(x) for x in (ma.atoms['PCL'], -ma.atoms['PHL']))), None)
            res.violation("R06.3", f"{sig}|{word[:300]}", hc.path_where(prog, ma, p, 2 * first_pulse if first_pulse is not None else 0), fi.qualname,
                          f"month energy is not conserved on the path [{sig}]{case_note}: integral - (monthly_cl - monthly_hl) = {diff.key()[:300]}",
                          pairs=[f"{l.key()} @ {h.key()}" for l, h in zip(p.loads, p.hours)],
                          path=hc.describe_trail(p.state))
    # ---- R06.4 sentinel premise
    if needs_sentinel:
        prem = hc.sentinel_premise(prog)
        res.analysed("ghedesigner.ground_loads.HybridLoad.find_peak_durations")
        for tag, (sig, where) in sorted(needs_sentinel.items()):
            okp, wherep, detail = prem[tag]
            d = "rejection" if tag == "cl" else "extraction"
            res.ob("R06.4", f"a month without {d} gets the sentinel duration (<= {hc.SENTINEL_MAX} h) in find_peak_durations, as the no-pulse paths assume (first: [{sig}]): {detail[:120]}", okp, wherep)
            if not okp:
                res.violation("R06.4", f"sentinel|{tag}", wherep, "ghedesigner.ground_loads.HybridLoad.find_peak_durations",
                              f"process_month_loads subtracts monthly_peak_{tag}_duration[i] from the hours of the month's average also when no {d} pulse is placed "
                              f"(path [{sig}]), so the month's energy is conserved only if that duration is the sentinel; but {detail}")
    res.count("no_pulse_paths_relying_on_sentinel", len(needs_sentinel))
    res.count("clamped_paths_included", n_clamped)
    res.count("double_clamp_paths_excluded", n_double)
    res.floor("paths", 40)
    res.floor("distinct_words", 8)

    _check_split(prog, res)
    _check_sign_convention(prog, res)
    return res


def _check_sign_convention(prog: Program, res: Result):
    """R06.6: rejection = -x / 1000 for x < 0, extraction = x / 1000 for x >= 0, zero otherwise (W -> kW), so that
    monthly_cl - monthly_hl is the month's net ground load in the rejection-positive convention"""
    q = "ghedesigner.ground_loads.HybridLoad.split_heat_and_cool"
    fi = prog.func(q)
    res.analysed(q)
    from ..paths import Engine, Hooks, State

    comps = {}
    for n in ast.walk(fi.node):
        if isinstance(n, ast.Assign) and len(n.targets) == 1 and isinstance(n.targets[0], ast.Name) and isinstance(n.value, ast.ListComp):
            comps[n.targets[0].id] = n
    rets = [r for r in ast.walk(fi.node) if isinstance(r, ast.Return)]
    if len(rets) != 1 or not isinstance(rets[0].value, ast.Tuple) or len(rets[0].value.elts) != 2:
        raise AnalysisError(f"{q}: return (rejection, extraction) not found")
    order = [ast.unparse(e) for e in rets[0].value.elts]
    call = [n for n in ast.walk(prog.func("ghedesigner.ground_loads.HybridLoad.__init__").node) if isinstance(n, ast.Assign) and isinstance(n.value, ast.Call) and attr_chain(n.value.func) == "self.split_heat_and_cool"]
    ok = len(call) == 1 and isinstance(call[0].targets[0], ast.Tuple) and [attr_chain(e) for e in call[0].targets[0].elts] == ["self.hourly_rejection_loads", "self.hourly_extraction_loads"]
    res.ob("R06.6", "the constructor binds (hourly_rejection_loads, hourly_extraction_loads) = split_heat_and_cool(raw loads)", ok, prog.loc(fi, fi.node))
    if not ok:
        res.violation("R06.6", "split-binding", prog.loc(fi, fi.node), q, "the two series returned by split_heat_and_cool are not bound to (rejection, extraction) in that order")
    eng = Engine(prog, fi, Hooks())
    X = Rat.atom("x")
    want = {0: ("rejection", -X / Rat.const(1000), "-"), 1: ("extraction", X / Rat.const(1000), "+0")}
    for pos, (label, val, dom) in want.items():
        c = comps.get(order[pos])
        if c is None or len(c.value.generators) != 1 or c.value.generators[0].ifs or not isinstance(c.value.elt, ast.IfExp):
            raise AnalysisError(f"{q}: the {label} series is not an unfiltered conditional map of the raw loads")
        g = c.value.generators[0]
        st = State()
        st.env[g.target.id] = X
        cond = eng.cond(c.value.elt.test, st)
        tv, fv = eng.eval(c.value.elt.body, st), eng.eval(c.value.elt.orelse, st)
        # normalise to (value on the x<0 side, value on the x>=0 side)
        if cond.kind != "cmp" or not cond.a.equals(X):
            raise AnalysisError(f"{q}: sign test of the {label} series not understood: {cond.key()}")
        neg_side = tv if cond.s <= frozenset("-") else (fv if cond.s >= frozenset("+") or cond.s == frozenset(("0", "+")) else None)
        pos_side = fv if cond.s <= frozenset("-") else (tv if cond.s == frozenset(("0", "+")) or cond.s == frozenset("+") else None)
        zero_incl_ok = cond.s in (frozenset("-"), frozenset(("0", "+")), frozenset("+"), frozenset(("-", "0")))

        def absfree(v):
            # |x| = -x on the x<0 side, x on the other
            return v

        ok = False
        if neg_side is not None and pos_side is not None and isinstance(neg_side, Rat) and isinstance(pos_side, Rat):
            a = sym.call("abs", [X])
            ns = neg_side.subs({next(iter(a.atoms())): -X}) if a.atoms() & neg_side.all_atoms() else neg_side
            ps_ = pos_side.subs({next(iter(a.atoms())): X}) if a.atoms() & pos_side.all_atoms() else pos_side
            if label == "rejection":
                ok = ns.equals(val) and ps_.is_zero()
            else:
                ok = ps_.equals(val) and ns.is_zero()
        res.ob("R06.6", f"{label} series: {'-x/1000 for x < 0' if label == 'rejection' else 'x/1000 for x >= 0'}, 0 otherwise (W -> kW)", ok and zero_incl_ok, prog.loc(fi, c))
        if not (ok and zero_incl_ok):
            res.violation("R06.6", f"split|{label}|{norm_stmt(c)[:80]}", prog.loc(fi, c), q,
                          f"the {label} series is '{norm_stmt(c.value)[:120]}': positive raw loads are extraction, negative ones rejection, both in kW - otherwise the month's net load is mis-signed or mis-scaled")


def _check_split(prog: Program, res: Result):
    """R06.5: month windows partition the year and totals are sums over the window"""
    q = "ghedesigner.ground_loads.HybridLoad.split_loads_by_month"
    fi = prog.func(q)
    res.analysed(q)
    from ..paths import Engine, Hooks, State

    loops = [n for n in fi.node.body if isinstance(n, ast.For)]
    if len(loops) != 1:
        raise AnalysisError(f"{q}: expected one month loop")
    loop = loops[0]
    eng = Engine(prog, fi, Hooks())
    st = State()
    for s in fi.node.body:
        if s is loop:
            break
        if isinstance(s, ast.Assign):
            eng._s_Assign(s, st)
    # the running offset: a local initialised to 0 before the loop and advanced in it
    offs = [k for k, v in st.env.items() if isinstance(v, Rat) and v.is_const() and v.const_value() == 0]
    if not offs:
        raise AnalysisError(f"{q}: no running offset initialised to 0 before the loop")
    # the month index and - when the loop also hands out the element - the month's day count:
    #   for i in range(1, len(D))            days = D[i]
    #   for i, d in enumerate(D[a:], start=a)  d = D[i]
    iv = None
    if isinstance(loop.target, ast.Name):
        iv = loop.target.id
        st.env[iv] = Rat.atom(iv)
    elif isinstance(loop.target, ast.Tuple) and len(loop.target.elts) == 2 and all(isinstance(e_, ast.Name) for e_ in loop.target.elts) \
            and isinstance(loop.iter, ast.Call) and attr_chain(loop.iter.func) == "enumerate" and loop.iter.args:
        iv, ev_ = loop.target.elts[0].id, loop.target.elts[1].id
        seq = loop.iter.args[0]
        start = next((k_.value for k_ in loop.iter.keywords if k_.arg == "start"), loop.iter.args[1] if len(loop.iter.args) > 1 else ast.Constant(value=0))
        lo_ = ast.Constant(value=0)
        if isinstance(seq, ast.Subscript) and isinstance(seq.slice, ast.Slice) and seq.slice.upper is None and seq.slice.step is None:
            lo_ = seq.slice.lower or ast.Constant(value=0)
            seq = seq.value
        ch = attr_chain(seq)
        if ch is None:
            raise AnalysisError(f"{q}: month loop iterates something that is not a plain sequence")
        st.env[iv] = Rat.atom(iv)
        shift = eng.eval(lo_, st) - eng.eval(start, st)
        idx_ = Rat.atom(iv) + shift if isinstance(shift, Rat) else None
        if idx_ is None:
            raise AnalysisError(f"{q}: enumerate offset not understood")
        st.env[ev_] = Rat.atom(f"{ch}[{idx_.key()}]")
    if iv is None:
        raise AnalysisError(f"{q}: month loop target not understood")
    for o in offs:
        st.env[o] = Rat.atom(o)
    slices = []  # (array name, lo, hi)
    sums = {}

    class H(Hooks):
        def on_assign(self, key, val, stmt, st_, eng_):
            v = stmt.value if isinstance(stmt, ast.Assign) else None
            if isinstance(v, ast.Subscript) and isinstance(v.slice, ast.Slice) and attr_chain(v.value) in (
                    "self.hourly_rejection_loads", "self.hourly_extraction_loads"):
                lo = eng_.eval(v.slice.lower, st_) if v.slice.lower is not None else Rat.const(0)
                hi = eng_.eval(v.slice.upper, st_) if v.slice.upper is not None else None
                slices.append((attr_chain(v.value), key, lo, hi, stmt))
            if isinstance(v, ast.Call) and attr_chain(v.func) == "sum" and len(v.args) == 1 and isinstance(v.args[0], ast.Name):
                sums[key] = (v.args[0].id, stmt)

    eng.hooks = H()
    finals = eng.run_block(loop.body, [st])
    if len(finals) != 1:
        raise AnalysisError(f"{q}: month loop body is not straight-line")
    fin = finals[0]
    days = Rat.atom(f"self.days_in_month[{iv}]")
    width = Rat.const(24) * days
    by_arr = {}
    for arr, key, lo, hi, stmt in slices:
        by_arr.setdefault(arr, []).append((key, lo, hi, stmt))
    for arr in ("self.hourly_rejection_loads", "self.hourly_extraction_loads"):
        ws = by_arr.get(arr, [])
        if len(ws) != 1:
            raise AnalysisError(f"{q}: expected exactly one month window of {arr}, found {len(ws)}")
        key, lo, hi, stmt = ws[0]
        off = next((o for o in offs if isinstance(lo, Rat) and lo.equals(Rat.atom(o))), None)
        ok = off is not None and isinstance(hi, Rat) and (hi - lo).equals(width)
        res.ob("R06.5", f"window of {arr.split('.')[-1]} is [p : p + 24*days_in_month[i]] (got [{lo.key() if isinstance(lo, Rat) else lo} : {hi.key() if isinstance(hi, Rat) else hi}])", ok, prog.loc(fi, stmt))
        if not ok:
            res.violation("R06.5", f"window:{arr}:{norm_stmt(stmt)}", prog.loc(fi, stmt), q,
                          f"the month window of {arr} is not [p : p + 24*days_in_month[i]]")
            continue
        adv = fin.env.get(off)
        ok = isinstance(adv, Rat) and (adv - Rat.atom(off)).equals(width)
        res.ob("R06.5", f"offset {off} advances by 24*days_in_month[i] per month", ok, prog.loc(fi, loop))
        if not ok:
            res.violation("R06.5", f"advance:{off}", prog.loc(fi, loop), q,
                          f"the running offset {off} does not advance by the month's hours (months would overlap or leave gaps)")
    # totals are sums of the window
    win_names = {k: a for a, lst in by_arr.items() for (k, _, _, _) in lst}
    want = {f"self.monthly_cl[{iv}]": "self.hourly_rejection_loads", f"self.monthly_hl[{iv}]": "self.hourly_extraction_loads"}
    for tgt, arr in want.items():
        src = sums.get(tgt)
        ok = src is not None and win_names.get(src[0]) == arr
        res.ob("R06.5", f"{tgt} = sum(month window of {arr.split('.')[-1]})", ok, prog.loc(fi, src[1]) if src else prog.loc(fi, loop))
        if not ok:
            res.violation("R06.5", f"total:{tgt}", prog.loc(fi, src[1]) if src else prog.loc(fi, loop), q,
                          f"{tgt} is not the sum over the month's window of {arr}")


G = GL = "ghedesigner.ground_loads"
VARIANTS = [
    Variant("duration simulation guarded by the two-day maximum only (phantom duration of an absent pulse)", "break",
            [(GL, "            if self.monthly_peak_cl[i] != 0.0 and current_month_peak_cl != 0.0:", "            if current_month_peak_cl != 0.0:")], "R06.4"),
    Variant("phantom durations allowed, but month_duration subtracts only the durations of placed pulses", "benign",
            [(GL, "            if self.monthly_peak_cl[i] != 0.0 and current_month_peak_cl != 0.0:", "            if current_month_peak_cl != 0.0:"),
             (GL, "            if self.monthly_peak_hl[i] != 0.0 and current_month_peak_hl != 0.0:", "            if current_month_peak_hl != 0.0:"),
             (GL, """                    - self.monthly_peak_cl_duration[i]
                    - self.monthly_peak_hl_duration[i]
                )""", """                    - (self.monthly_peak_cl_duration[i] if self.monthly_peak_cl[i] > 0 else 0.0)
                    - (self.monthly_peak_hl_duration[i] if self.monthly_peak_hl[i] > 0 else 0.0)
                )""")]),
    Variant("drop the closing pair's hour in the cooling-first branch", "break",
            [(G, """                # rest of month
                last_avg_hour = last_month_hour(i, self.years)
                self.load = np.append(self.load, month_rate)
                self.hour = np.append(self.hour, last_avg_hour)

                if last_avg_hour - peak_last_avg_hour < 0.0:
                    warnings.warn(warn_msg_neg_timestep)
                peak_last_avg_hour = last_avg_hour

            elif peak_day_diff > 0:""", """                # rest of month
                last_avg_hour = last_month_hour(i, self.years)
                self.load = np.append(self.load, month_rate)

                if last_avg_hour - peak_last_avg_hour < 0.0:
                    warnings.warn(warn_msg_neg_timestep)
                peak_last_avg_hour = last_avg_hour

            elif peak_day_diff > 0:""")], "R06.1"),
    Variant("month_load forgets the heating peak energy", "break",
            [(G, "month_load = self.monthly_cl[i] - self.monthly_hl[i] - month_peak_cl + month_peak_hl",
              "month_load = self.monthly_cl[i] - self.monthly_hl[i] - month_peak_cl")], "R06.3"),
    Variant("month_duration forgets the peak durations", "break",
            [(G, """                    monthdays(i, current_year) * HRS_IN_DAY
                    - self.monthly_peak_cl_duration[i]
                    - self.monthly_peak_hl_duration[i]
                )""", """                    monthdays(i, current_year) * HRS_IN_DAY
                )""")], "R06.3"),
    Variant("heating pulse emitted with the wrong sign in the heating-first branch", "break",
            [(G, """                    last_avg_hour = first_hour_heating_peak
                    self.load = np.append(self.load, month_rate)
                    self.hour = np.append(self.hour, last_avg_hour)
                    # heating peak
                    self.load = np.append(self.load, -self.monthly_peak_hl[i])
                    self.hour = np.append(self.hour, last_hour_heating_peak)

                    if last_avg_hour - peak_last_avg_hour < 0.0:
                        warnings.warn(warn_msg_neg_timestep)
                    peak_last_avg_hour = last_avg_hour
                # monthly average conditions between heating peak and cooling peak""",
              """                    last_avg_hour = first_hour_heating_peak
                    self.load = np.append(self.load, month_rate)
                    self.hour = np.append(self.hour, last_avg_hour)
                    # heating peak
                    self.load = np.append(self.load, self.monthly_peak_hl[i])
                    self.hour = np.append(self.hour, last_hour_heating_peak)

                    if last_avg_hour - peak_last_avg_hour < 0.0:
                        warnings.warn(warn_msg_neg_timestep)
                    peak_last_avg_hour = last_avg_hour
                # monthly average conditions between heating peak and cooling peak""")], "R06.3"),
    Variant("non-retained month closes one month early", "break",
            [(G, """                else:
                    last_avg_hour = last_month_hour(i, self.years)
                    self.load = np.append(self.load, month_rate)""", """                else:
                    last_avg_hour = last_month_hour(i - 1, self.years)
                    self.load = np.append(self.load, month_rate)""")], "R06.2"),
    Variant("month window advanced by a fixed 30 days", "break",
            [(G, "            hours_in_previous_months += hours_in_month\n\n    def process_two_day_loads",
              "            hours_in_previous_months += HRS_IN_DAY * 30\n\n    def process_two_day_loads")], "R06.5"),
    Variant("month loop stops one month short", "break",
            [(G, "        for i in range(self.start_month, (self.end_month + 1)):", "        for i in range(self.start_month, self.end_month):")], "R06.0"),
    Variant("rejection series keeps its negative sign", "break",
            [(G, "hourly_rejection_loads = [abs(x) / 1000.0 if x < 0.0 else 0.0 for x in raw_loads]", "hourly_rejection_loads = [x / 1000.0 if x < 0.0 else 0.0 for x in raw_loads]")], "R06.6"),
    Variant("extraction series not converted to kW", "break",
            [(G, "hourly_extraction_loads = [x / 1000.0 if x >= 0.0 else 0.0 for x in raw_loads]", "hourly_extraction_loads = [x if x >= 0.0 else 0.0 for x in raw_loads]")], "R06.6"),
    Variant("algebraic rewrite of month_load: x - a - b + c -> x - (a + b) + c", "benign",
            [(G, "month_load = self.monthly_cl[i] - self.monthly_hl[i] - month_peak_cl + month_peak_hl",
              "month_load = self.monthly_cl[i] - (self.monthly_hl[i] + month_peak_cl) + month_peak_hl")]),
    Variant("temporary for the cooling pulse end", "benign",
            [(G, """                    self.load = np.append(self.load, self.monthly_peak_cl[i])
                    self.hour = np.append(self.hour, last_hour_cooling_peak)

                    if last_avg_hour - peak_last_avg_hour < 0.0:
                        warnings.warn(warn_msg_neg_timestep)
                    peak_last_avg_hour = last_avg_hour
                # monthly average conditions between cooling peak and heating peak""",
              """                    pulse_mag = self.monthly_peak_cl[i]
                    pulse_end = first_hour_cooling_peak + self.monthly_peak_cl_duration[i]
                    self.load = np.append(self.load, pulse_mag)
                    self.hour = np.append(self.hour, pulse_end)

                    if last_avg_hour - peak_last_avg_hour < 0.0:
                        warnings.warn(warn_msg_neg_timestep)
                    peak_last_avg_hour = last_avg_hour
                # monthly average conditions between cooling peak and heating peak""")]),
    Variant("hour appended before load in the closing pair", "benign",
            [(G, """                else:
                    last_avg_hour = last_month_hour(i, self.years)
                    self.load = np.append(self.load, month_rate)
                    self.hour = np.append(self.hour, last_avg_hour)""", """                else:
                    last_avg_hour = last_month_hour(i, self.years)
                    self.hour = np.append(self.hour, last_avg_hour)
                    self.load = np.append(self.load, month_rate)""")]),
]
