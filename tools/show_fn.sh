#!/bin/sh
# usage: tools/show_fn.sh <patch.diff|-> <function qualname>
#   prints the function as the analysis sees it (after the load-time normalisations) on a scratch copy with the patch applied
P="$1"; Q="$2"
S=$(mktemp -d /tmp/sf_XXXXXX)
(cd /repo && git ls-files -z | rsync -a --from0 --files-from=- . "$S"/)
[ "$P" != "-" ] && (cd "$S" && git init -q . 2>/dev/null && git apply "$P")
cd /verif && /venv/bin/python - "$S" "$Q" <<'PY'
import sys, ast
from ghverif.model import Program, load_sources
prog = Program(load_sources(sys.argv[1]))
fi = prog.func(sys.argv[2])
print(ast.unparse(fi.node))
PY
rm -rf "$S"
